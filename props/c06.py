"""C06 - key exchange agrees on a secret and authenticates the server's host key.

Sessions: two real Transport threads (vlib.peers) on an in-memory link, one kex method and one
host-key algorithm forced through disabled_algorithms; group-exchange with a harness moduli pack.

honest cases (kex x host key algorithm x 0..3 rekeys started by either side):
  * K and H recorded at `_set_K_H` are equal on both peers for every exchange;
  * both directions of the recorded byte stream are decoded by `peers.Tap` (refssh, keys derived
    from the recorded K/H) -- this yields the kex messages of the initial *and* the re-exchanges;
    from them the exchange hash is recomputed per RFC 4253 8 / RFC 4419 3 / RFC 5656 4 with refssh
    + hashlib and must equal the recorded H (catches a hash both peers build wrongly the same way);
  * the signature blob taken from the wire verifies over H under the host key blob taken from the
    wire with `cryptography` directly (not paramiko's verifier), names the negotiated algorithm,
    and `get_remote_server_key()` is that key;
  * session_id on both sides equals the first H after every re-exchange, while the H values differ.
  * honest servers other than paramiko's own engine (ECDH-NIST): `lying.ref_ecdh_server`, a
    self-contained RFC 5656 server that sends Q_S uncompressed or COMPRESSED and hashes the octet
    string it sent. Uncompressed: everything above. Compressed (optional in RFC 5656): completion is
    not demanded, but every exchange hash the client computed must be the server's (= the RFC hash
    of the wire octets), and if the session completes everything above holds as well.
  * SHAPE OF THE SHARED SECRET (K enters H as an mpint; the raw modexp / ECDH / X25519 result has a leading 00 byte
    once in 256 exchanges, and needs a sign byte every second time): honest reference servers for EVERY kex method
    (`refkex.ref_server`, cryptography + hashlib + refssh only) that keep drawing their ephemeral key until K is
    "short" (fits in fewer bytes than the field / modulus) or "signpad" (bit length a multiple of 8), in the initial
    exchange and in every re-exchange; all of the above is demanded. The shape of every recorded K is counted
    (classes K-shape:short / signpad / plain, per kex family). Only a server can steer K (the client commits to its
    public value first), so for paramiko in the server role short secrets occur at the natural rate only.
  * configuration of the honest sessions: IDENTIFICATION STRINGS (V_C, V_S enter H in full, RFC 4253 8): each side
    sends paramiko's default or a drawn `SSH-2.0-software[ SP comment]` line (server also SSH-1.99-; comment of
    printable ASCII, may contain spaces and '-', total <= 253 characters), set through `Transport.local_version`;
    the reference hash uses the lines as they appear on the wire. PREFERENCE CHANGES BETWEEN EXCHANGES ("plan"
    sessions): the server holds one key of every type and a moduli pack, the client starts with (kex, host key
    algorithm) in front of its full SecurityOptions lists and before each re-exchange moves another drawn pair to
    the front ("front": the previous choice stays on the list) or keeps only that pair ("only"), optionally the
    server drops the previously agreed host key algorithm from its list. The kex method and host key algorithm
    of every exchange are then derived from the two KEXINITs of THAT exchange as decoded from the wire (first
    client name the server lists), and H / signature algorithm / host key are checked against them.
    THE API THE CLIENT IS ENTERED THROUGH ("entry", honest and fault sessions alike): start_client(),
    Transport.connect(username, password) or Transport.connect(hostkey=<key the user expects>, username, password) -
    the expected key is a public-only key object built from the genuine server's blob (what a known_hosts entry gives).
    Honest sessions: the server's key IS the expected one, everything above is demanded (and the later re-exchanges).
fault cases: ONE alteration of the server's reply in exchange number k = 1 + len(rekeys), k in 1..3,
  after k-1 honest exchanges (initiator drawn per exchange). k = 1: `PlainMitm` edits the plaintext
  reply on the link. k >= 2 (encrypted traffic): the non-tested server is a `lying.EditingServer`
  that applies the same edit just before the packet is encrypted, its own K/H/signature stay those
  of the unaltered reply.
  alterations: one bit flipped in K_S / signature blob / Q_S or f; f or Q_S replaced by another valid
  public value; algorithm name inside the signature replaced; K_S replaced by another valid key of
  the same type; an earlier reply replayed (k = 1: of an earlier handshake, k >= 2: of exchange k-1
  of the same session); gex group p or g altered;
  re-encodings of the same value ("reenc"): Q_S as compressed / hybrid SEC1 point, X25519 value with
  the ignored top bit set, K_S with trailing bytes / RSA e zero-padded / ECDSA point compressed
  (all change octets that enter H, so the honest signature cannot verify) and f as a zero-padded
  mpint (does NOT change H, which is defined over the value: accepting is fine if K and H still
  agree on both peers);
  lying signer ("signer", `lying.LyingSigner` as the server's host key object, honest for the
  first k-1 signatures): genuine signature over H with one bit flipped / over the session id / over
  the previous H, signature made with another algorithm, signature of another key of the same type.
  impostor ("impostor", exchange 1, entry connect-hostkey): the WHOLE server is swapped for one that holds another host
  key - another key of the same algorithm, or a key of another type / curve - and runs a perfectly consistent exchange
  with it (own key blob, genuine signature over H). Nothing in the exchange gives it away, only the user's expectation:
  connect() must raise, and the server application must not see any authentication attempt (the credentials given to
  connect() stay with the client); if the exchange completed, get_remote_server_key() is the key that was shown.
  Oracle k = 1: the entry call (start_client / connect) raises, the client never sets initial_kex_done, never sends
  NEWKEYS, and the server application never sees an authentication attempt.
  Oracle k >= 2: the client never switches its outbound keys a k-th time, its byte stream (decoded
  by `peers.Tap` under its recorded keys) holds exactly k-1 NEWKEYS, and its transport ends.
"""
from hypothesis import strategies as st

from vlib import core, lying, mitm, peers, refkex
from vlib import refssh as R

PROPERTY = "C06"
LEVEL = "exploration"
RULE = (
    "kex method (10) x host key algorithm (7) forced via disabled_algorithms; honest sessions with 0..3 re-exchanges "
    "(initiator drawn per rekey; ECDH-NIST also against a reference server sending Q_S uncompressed / compressed; every kex also "
    "against an honest reference server that draws its ephemeral key until the shared secret K is 'short' = has a leading 00 byte "
    "in the raw result, or 'signpad' = bit length a multiple of 8: classes server:ref-short / server:ref-signpad, K-shape:<shape>"
    "[:<family>] counted per exchange from the recorded K) x identification "
    "strings (default / drawn software version with or without a comment, per side) x preference plan (none, or before each "
    "re-exchange another (kex, host key algorithm) pair moved to the front of / left alone on the client's lists, server optionally "
    "dropping the previous host key algorithm; per-exchange expectations derived from the KEXINITs on the wire); fault "
    "sessions = one alteration of the server's reply in exchange k = 1..3 after k-1 honest exchanges (k = 1 by a link MITM, "
    "k >= 2 inside the non-tested server before encryption): bit flip at a drawn position of K_S / signature / Q_S or f, "
    "substituted f / Q_S / signature algorithm name / host key / gex p,g, replayed earlier reply, equivalent re-encoding of "
    "Q_S / f / K_S, lying signer (signature over other data / of another algorithm / of another key). quick enumerates every "
    "kex and every host key algorithm at least twice on the honest path, every kex once with a short K (initial or re-exchange) "
    "and one method per family with a sign-padded K, every kex for the fault path at k = 1 and k = 2 and "
    "every alteration kind at k = 2 and k = 3, the rest is hypothesis-drawn. non-trivial = fault session, or honest session "
    "with >= 1 re-exchange or a non-paramiko server or entered through a connect() variant; distinct by full case. "
    "CLIENT ENTRY (classes client-entry:<start_client|connect|connect-hostkey>[:honest|:fault]): every honest and fault session is "
    "entered through start_client(), Transport.connect(username, password) or Transport.connect(hostkey=expected public key, "
    "username, password) - rotating over the floors (every host key algorithm honest through connect-hostkey with 0..2 "
    "re-exchanges; every host key algorithm's K_S swap through connect-hostkey), drawn otherwise; fault kind 'impostor' "
    "(classes fault:impostor:same-type / other-type, impostor:<which>/<key type>, impostor:refused-at-negotiation / "
    "refused-after-a-consistent-exchange): the whole server replaced by one holding ANOTHER key of the same algorithm "
    "(or of another type) that signs consistently with it, against a client entered through connect(hostkey=genuine "
    "key) - quick runs it for every host key algorithm x {same-type, other-type}; expected: connect() raises and no "
    "authentication attempt reaches the server application"
)

KEXES = list(mitm.ALL_KEX)
CHEAP = ["curve25519-sha256@libssh.org", "ecdh-sha2-nistp256", "diffie-hellman-group1-sha1", "diffie-hellman-group-exchange-sha256"]  # one per family
CHEAPISH = CHEAP + ["ecdh-sha2-nistp384", "ecdh-sha2-nistp521"]  # every method whose handshake stays below ~25 ms
HOSTALG = {
    "ssh-rsa": "rsa2048",
    "rsa-sha2-256": "rsa2048",
    "rsa-sha2-512": "rsa2048b",
    "ecdsa-sha2-nistp256": "ecdsa256",
    "ecdsa-sha2-nistp384": "ecdsa384",
    "ecdsa-sha2-nistp521": "ecdsa521",
    "ssh-ed25519": "ed25519",
}
OTHERKEY = {"rsa2048": "rsa1024", "rsa2048b": "rsa2048", "ecdsa256": "ecdsa256b", "ed25519": "ed25519b"}  # same type, different key
ALLKEYALGS = list(HOSTALG)
SIGNAMES = ["ssh-rsa", "rsa-sha2-256", "rsa-sha2-512", "ecdsa-sha2-nistp256", "ecdsa-sha2-nistp384", "ecdsa-sha2-nistp521", "ssh-ed25519", "ssh-dss", ""]
CURVES = {"ecdh-sha2-nistp256": "secp256r1", "ecdh-sha2-nistp384": "secp384r1", "ecdh-sha2-nistp521": "secp521r1"}


def _pair(kex, hostalg, link=None, client_cls=peers.VTransport, server_cls=peers.VTransport):
    ckw = {"disabled_algorithms": {"kex": mitm.only(KEXES, kex), "keys": mitm.only(ALLKEYALGS, hostalg)}}
    return peers.make_pair(client_cls=client_cls, server_cls=server_cls, client_kw=ckw, host_keys=(HOSTALG[hostalg],), link=link)


def _pack(kex):
    if mitm.kex_family(kex) == "gex":
        return mitm.modulus_pack([(2, mitm.group_prime(1024))])
    return mitm.modulus_pack([])


ALLHOSTKEYS = ("rsa2048", "ecdsa256", "ecdsa384", "ecdsa521", "ed25519")
KEYFORALG = dict(HOSTALG, **{"rsa-sha2-512": "rsa2048"})  # plan sessions: one key per type


def _front(universe, first, mode):
    return [first] if mode == "only" else [first] + [a for a in universe if a != first]


def _apply_plan_step(tc, ts, step, prev_hostalg):
    """Documented way to change preferences of a live Transport: SecurityOptions."""
    so = tc.get_security_options()
    mode = step.get("mode", "front")
    if step.get("kex"):
        so.kex = _front(KEXES, step["kex"], mode)
    if step.get("hostalg"):
        so.key_types = _front(ALLKEYALGS, step["hostalg"], mode)
    if step.get("sdrop") and prev_hostalg and prev_hostalg != step.get("hostalg"):
        sso = ts.get_security_options()
        left = [a for a in sso.key_types if a != prev_hostalg]
        # (the server can only drop it if the client still lists another algorithm the server keeps: after an "only"
        # step, or when connect(hostkey=...) narrowed the client's list, the previous one may be the single common one)
        if left and any(a in left for a in so.key_types):
            sso.key_types = left


def _wire_choice(c_kexinit, s_kexinit):
    """(kex, host key algorithm) RFC 4253 7.1 gives for these two KEXINIT payloads."""
    ci, si = mitm.parse_kexinit(c_kexinit), mitm.parse_kexinit(s_kexinit)
    kex = next((n for n in ci["kex"] if n in si["kex"] and not mitm.is_pseudo(n)), None)
    hk = next((n for n in ci["hostkey"] if n in si["hostkey"]), None)
    return kex, hk


# honest reference servers (vlib.refkex, every kex method) that choose their ephemeral key so that the shared
# secret has a given shape: "short" = at least one leading 00 byte in the raw result (the mpint is shorter than the
# field), "signpad" = bit length a multiple of 8 (the mpint needs a 00 in front)
KSHAPE_SERVERS = {"ref-short": "short", "ref-signpad": "signpad"}

IDENT_SOFT = "ABCDEFGHIJKLMNOPQRSTUVWXYZabcdefghijklmnopqrstuvwxyz0123456789_.+"
IDENT_COMMENT = "".join(chr(c) for c in range(0x20, 0x7F))

# the API the client is ENTERED through (configuration): start_client() - the caller looks at get_remote_server_key()
# itself -, Transport.connect(username, password) - no expectation about the host key -, or
# Transport.connect(hostkey=<the key the user expects>, username, password), which pins the server's host key
ENTRIES = ["start_client", "connect", "connect-hostkey"]


class StillBusy(Exception):
    """connect() had not come back when the harness stopped waiting."""


def _expected(key):
    """The host key the user expects, as a known_hosts entry gives it: a public-only key object built from the blob."""
    return type(key)(data=key.asbytes())


def _enter(tc, ts, entry, expected=None, srv=None, timeout=60.0):
    """peers.start_both with the client entered through `entry`; returns (client exception, server exception).
    The connect variants carry the credentials u / pw, so a connect() that returns has authenticated."""
    import threading
    import time

    srv = srv if srv is not None else peers.OpenServer()
    if entry == "start_client":
        return peers.start_both(tc, ts, srv, timeout=timeout)
    if entry not in ENTRIES or (entry == "connect-hostkey" and expected is None):
        raise core.HarnessError("client entry %r (expected key %r)" % (entry, expected))
    res = {}

    def server():
        try:
            ev = threading.Event()
            ts.start_server(event=ev, server=srv)
            res["sev"] = ev
        except BaseException as e:  # recorded for the caller
            res["s"] = e

    def client():
        try:
            if entry == "connect":
                tc.connect(username="u", password="pw")
            else:
                tc.connect(hostkey=expected, username="u", password="pw")
        except BaseException as e:  # recorded for the caller
            res["c"] = e
        res["back"] = True

    th = threading.Thread(target=server, daemon=True)
    th.start()
    tcl = threading.Thread(target=client, daemon=True)
    tcl.start()
    tcl.join(timeout)
    if not res.get("back"):
        return StillBusy("Transport.connect() did not come back within %.0f s" % timeout), res.get("s")
    th.join(timeout)
    ev = res.get("sev")
    if ev is not None and "c" not in res:
        end = time.time() + timeout
        while not ev.is_set() and ts.is_active() and time.time() < end:
            ev.wait(0.05)
        if not ts.is_active() and "s" not in res:
            res["s"] = ts.get_exception() or EOFError("server transport inactive")
    return res.get("c"), res.get("s")


# ----------------------------------------------------------------------------- honest sessions


def _norm_honest(case):
    """The "server" dimension only exists for ECDH-NIST; drop it elsewhere so that equal sessions
    count as one case."""
    case = {k: v for k, v in case.items() if not (k in ("ident", "plan") and not v) and not (k == "entry" and v in (None, "start_client"))}
    if case.get("ident") and not (case["ident"].get("c") or case["ident"].get("s")):
        del case["ident"]
    if case.get("plan"):
        case["plan"] = [dict(st_ or {}) for st_ in case["plan"]][: len(case["rekeys"])]
    curves_used = [case["kex"]] + [st_.get("kex") for st_ in case.get("plan") or []]
    if case.get("server", "paramiko") in KSHAPE_SERVERS:
        return case
    if case.get("server", "paramiko") != "paramiko" and any(k in CURVES for k in curves_used):
        return case
    return {k: v for k, v in case.items() if k != "server"}


def _partial_agreement(ctx, case, bucket, ckh, skh):
    """Every (K, H) the client computed must be the honest server's (same index)."""
    for i in range(min(len(ckh), len(skh))):
        if ckh[i][0] != skh[i][0]:
            ctx.violation("same-K-H", "%s:K-differs" % bucket, case, "exchange %d" % i)
            return False
        if ckh[i][1] != skh[i][1]:
            ctx.violation("same-K-H", "%s:H-differs" % bucket, case, "exchange %d (server sent Q_S %s and hashed what it sent)" % (i, case.get("server", "paramiko")))
            return False
    return True


def run_honest(ctx, case):
    case = _norm_honest(case)
    kex, hostalg, rekeys = case["kex"], case["hostalg"], list(case["rekeys"])
    server = case.get("server", "paramiko")
    ident = case.get("ident") or {}
    plan = case.get("plan")  # None: one (kex, host key algorithm) forced for the whole session
    multi = plan is not None
    optional = server == "ref-compressed"  # point compression MAY be used: completion is not demanded
    entry = case.get("entry", "start_client")
    cls = ["honest", "kex:" + kex, "hostalg:" + hostalg, "rekeys:%d" % len(rekeys), "client-entry:" + entry, "client-entry:%s:honest" % entry]
    if entry == "connect-hostkey":
        cls.append("client-entry:connect-hostkey:expected-key-is-the-servers:" + hostalg)
    if server != "paramiko":
        cls.append("server:" + server)
    for side in ("c", "s"):
        v = ident.get(side)
        cls.append("ident-%s:%s" % (side, "default" if not v else "with-comment" if " " in v else "custom-no-comment"))
    if multi:
        cls.append("plan:preferences-changed-before-%d-of-%d-re-exchanges" % (sum(1 for st_ in plan if st_), len(rekeys)))
        for st_ in plan:
            if st_:
                cls.append("plan-step:%s%s%s" % (st_.get("mode", "front"), ":hostalg" if st_.get("hostalg") else "", ":kex" if st_.get("kex") else "") + (":server-drops-previous" if st_.get("sdrop") else ""))
    ctx.case(case, len(rekeys) >= 1 or server != "paramiko" or bool(ident) or entry != "start_client", cls)
    bucket = "%s/%s" % (mitm.kex_family(kex), hostalg)
    if multi:
        bucket += ":plan"
    if entry != "start_client":
        bucket += ":via-" + entry
    if any(" " in (ident.get(x) or "") for x in "cs"):
        bucket += ":ident-comment"
    with (mitm.modulus_pack([(2, mitm.group_prime(1024))]) if multi else _pack(kex)):
        scls = peers.VTransport if server == "paramiko" else lying.EditingServer
        if multi:
            link, tc, ts = peers.make_pair(server_cls=scls, host_keys=ALLHOSTKEYS)
            so = tc.get_security_options()
            so.kex = _front(KEXES, kex, "front")
            so.key_types = _front(ALLKEYALGS, hostalg, "front")
        else:
            link, tc, ts = _pair(kex, hostalg, server_cls=scls)
        if server in KSHAPE_SERVERS:
            ts.v_install_engines({k: refkex.ref_server(k, KSHAPE_SERVERS[server]) for k in (KEXES if multi else [kex])})
        elif server != "paramiko":
            ts.v_install_engines({k: lying.ref_ecdh_server(k, server[4:]) for k in (CURVES if multi else [kex])})
        if ident.get("c"):
            tc.local_version = ident["c"]
        if ident.get("s"):
            ts.local_version = ident["s"]
        try:
            # (connect-hostkey: the user expects exactly the key this server holds for the algorithm the session starts with)
            ce, se = _enter(tc, ts, entry, _expected(peers.keypool()[(KEYFORALG if multi else HOSTALG)[hostalg]]) if entry == "connect-hostkey" else None)
            if ce or se:
                if optional:
                    ctx.count("server:ref-compressed:initial-exchange-refused")
                    return _partial_agreement(ctx, case, bucket, list(tc.v_kh), list(ts.v_kh))
                ctx.violation("honest-handshake-completes", "%s:%s" % (bucket, type(ce or se).__name__), case, "client entered through %s: client=%r server=%r" % (entry, ce, se))
                return False
            sids = [(tc.session_id, ts.session_id)]
            if entry == "start_client":
                tc.auth_password("u", "pw")
            for k, who in enumerate(rekeys):
                try:
                    if multi and k < len(plan) and plan[k]:
                        _apply_plan_step(tc, ts, plan[k], tc.host_key_type)
                    # (a round trip after each exchange makes sure the other side switched too and
                    # gives the Tap a packet after NEWKEYS in both directions)
                    lying.rekey_prefix(tc, ts, [who], first=2 + k)
                except Exception as e:
                    if optional:
                        ctx.count("server:ref-compressed:re-exchange-refused")
                        return _partial_agreement(ctx, case, bucket, list(tc.v_kh), list(ts.v_kh))
                    ctx.violation("rekey-completes", "%s:%s" % (bucket, type(e).__name__), case, "re-exchange %d: %r (client exception %r, server exception %r)" % (k + 1, e, tc.get_exception(), ts.get_exception()))
                    return False
                sids.append((tc.session_id, ts.session_id))
            if server != "paramiko":
                ctx.count("server:%s:completed" % server)
            n = 1 + len(rekeys)
            ckh, skh = list(tc.v_kh), list(ts.v_kh)
            if len(ckh) != n or len(skh) != n:
                ctx.violation("same-K-H", "%s:exchange-count" % bucket, case, "client %d server %d expected %d" % (len(ckh), len(skh), n))
                return False
            for i in range(n):
                if ckh[i][0] != skh[i][0]:
                    ctx.violation("same-K-H", "%s:K-differs" % bucket, case, "exchange %d" % i)
                    return False
                if ckh[i][1] != skh[i][1]:
                    ctx.violation("same-K-H", "%s:H-differs" % bucket, case, "exchange %d" % i)
                    return False
            H0 = ckh[0][1]
            for i, (a, b) in enumerate(sids):
                if a != H0 or b != H0:
                    ctx.violation("session-id-fixed", "%s:changed-after-exchange" % ("client" if a != H0 else "server"), case, "after exchange %d: session_id %s first H %s" % (i, (a if a != H0 else b).hex(), H0.hex()))
                    return False
            if len(set(h for _, h in ckh)) != n:
                ctx.violation("session-id-fixed", "H-repeats-on-rekey", case, "")
                return False
            shown = tc.get_remote_server_key().asbytes()
            c_chunks, s_chunks = list(link.ab.sent), list(link.ba.sent)
            c_epochs, s_epochs = list(tc.v_out), list(ts.v_out)
        finally:
            peers.shutdown(tc, ts)
            mitm.cancel_timers(tc, ts)
    # ---- external observation of the wire
    try:
        cp = peers.Tap(c_chunks, c_epochs, True).packets()
        sp = peers.Tap(s_chunks, s_epochs, False).packets()
    except R.RefError as e:
        ctx.violation("wire-decodes-with-recorded-keys", "%s:%s" % (bucket, str(e)[:24]), case, repr(e))
        return False
    cex = mitm.split_exchanges([(p[2], p[3]) for p in cp])
    sex = mitm.split_exchanges([(p[2], p[3]) for p in sp])
    if len(cex) != n or len(sex) != n:
        ctx.violation("wire-decodes-with-recorded-keys", "%s:exchange-count-on-wire" % bucket, case, "c2s %d s2c %d expected %d" % (len(cex), len(sex), n))
        return False
    v_c, v_s = c_chunks[0].rstrip(b"\r\n"), s_chunks[0].rstrip(b"\r\n")
    if c_chunks[0][-2:] != b"\r\n" or s_chunks[0][-2:] != b"\r\n":
        raise RuntimeError("identification line not terminated by CR LF: %r %r" % (c_chunks[0], s_chunks[0]))
    for i in range(n):
        kex_i, hostalg_i = kex, hostalg
        if multi:
            # what THIS exchange has to use follows from the two KEXINITs of this exchange
            kex_i, hostalg_i = _wire_choice(cex[i]["kexinit"], sex[i]["kexinit"])
            if kex_i is None or hostalg_i is None:
                raise RuntimeError("plan session without a common algorithm in exchange %d: %r" % (i, case))
            ctx.count("plan:exchange-uses:%s" % ("same-as-previous" if i and (kex_i, hostalg_i) == prev else "initial" if not i else "other-hostalg" if kex_i == prev[0] else "other-kex" if hostalg_i == prev[1] else "other-kex-and-hostalg"))
            prev = (kex_i, hostalg_i)
        want_key = peers.keypool()[(KEYFORALG if multi else HOSTALG)[hostalg_i]].asbytes()
        try:
            facts = mitm.exchange_facts(kex_i, cex[i], sex[i])
        except R.RefError as e:
            ctx.violation("reply-well-formed", "%s:%s" % (bucket, str(e)[:30]), case, "exchange %d: %r" % (i, e))
            return False
        K, H = ckh[i]
        gex_p = mitm.unpack(dict(sex[i]["msgs"])[31], "mm")[1] if mitm.kex_family(kex_i) == "gex" else None
        shapes = refkex.k_shapes(kex_i, K, gex_p) or ["plain"]
        for shp in shapes:
            ctx.count("K-shape:%s" % shp)
            ctx.count("K-shape:%s:%s" % (shp, mitm.kex_family(kex_i)))
        if server in KSHAPE_SERVERS and KSHAPE_SERVERS[server] not in shapes:
            raise RuntimeError("reference server %s produced a shared secret of shape %r in exchange %d" % (server, shapes, i))
        ref = mitm.exchange_hash(kex_i, v_c, v_s, cex[i]["kexinit"], sex[i]["kexinit"], facts["k_s"], facts["mid"], K)
        if ref != H:
            ctx.violation("exchange-hash-is-rfc", "%s" % mitm.kex_family(kex_i) + ":" + kex_i, case, "exchange %d: recorded H %s, RFC hash of the wire data %s (V_C %r, V_S %r)" % (i, H.hex(), ref.hex(), v_c, v_s))
            return False
        ok, ktype, salg = mitm.verify_blob_signature(facts["k_s"], facts["sig"], H)
        if not ok:
            ctx.violation("signature-verifies-externally", "%s" % bucket, case, "exchange %d: key type %s signature algorithm %r does not verify over H" % (i, ktype, salg))
            return False
        if salg != hostalg_i:
            ctx.violation("signature-verifies-externally", "%s:algorithm-%s-instead-of-negotiated" % (bucket, salg), case, "exchange %d: the KEXINITs of this exchange give %s" % (i, hostalg_i))
            return False
        if facts["k_s"] != want_key or (i == n - 1 and shown != facts["k_s"]):
            ctx.violation("host-key-shown", "%s:differs" % bucket, case, "exchange %d" % i)
            return False
    return True


# ----------------------------------------------------------------------------- fault sessions


def _flip(b, pos):
    if not b:
        return b + b"\x01"
    pos %= len(b) * 8
    bb = bytearray(b)
    bb[pos // 8] ^= 1 << (pos % 8)
    return bytes(bb)


def _flip_sig(sig, part, n, state):
    """Flip one bit of the signature blob `string algorithm || string blob`. `part` selects the
    region by structure (the blob length varies from signature to signature, a raw offset would not
    replay): name-len / name / blob-len / blob; None = raw offset into the whole field."""
    if part is None:
        return _flip(sig, n)
    rd = R.Reader(sig)
    name = rd.string()
    rest = rd.rest()
    regions = {"name-len": (0, 4), "name": (4, len(name)), "blob-len": (4 + len(name), 4), "blob": (8 + len(name), max(0, len(rest) - 4))}
    regions["ecdsa-s-len"] = regions["blob"]
    off, ln = regions[part]
    if ln == 0 or off + ln > len(sig):
        return _flip(sig, n)
    new = sig[:off] + _flip(sig[off : off + ln], n) + sig[off + ln :]
    if part == "blob-len":
        state["blob_len_increased"] = int.from_bytes(new[off : off + 4], "big") > int.from_bytes(sig[off : off + 4], "big")
    if part in ("blob", "ecdsa-s-len") and name.startswith(b"ecdsa-"):
        # inner structure of an ECDSA blob: mpint r, mpint s
        blob = rest[4:]
        r_len = int.from_bytes(blob[:4], "big")
        s_off = off + 4 + r_len
        if part == "ecdsa-s-len":
            new = sig[:s_off] + _flip(sig[s_off : s_off + 4], n) + sig[s_off + 4 :]
        if new[s_off : s_off + 4] != sig[s_off : s_off + 4]:
            state["ecdsa_s_len_increased"] = int.from_bytes(new[s_off : s_off + 4], "big") > int.from_bytes(sig[s_off : s_off + 4], "big")
    return new


def _other_public(kex, seed):
    """Another valid public value for an EC kex, derived from `seed` (bytes)."""
    from cryptography.hazmat.primitives import serialization
    from cryptography.hazmat.primitives.asymmetric import ec, x25519

    if kex in CURVES:
        curve = {"secp256r1": ec.SECP256R1, "secp384r1": ec.SECP384R1, "secp521r1": ec.SECP521R1}[CURVES[kex]]()
        scalar = int.from_bytes(seed, "big") % (2**200) + 2
        pk = ec.derive_private_key(scalar, curve).public_key()
        return pk.public_bytes(serialization.Encoding.X962, serialization.PublicFormat.UncompressedPoint)
    priv = x25519.X25519PrivateKey.from_private_bytes((seed * 32)[:32])
    return priv.public_key().public_bytes(serialization.Encoding.Raw, serialization.PublicFormat.Raw)


def _edit_reply(kex, hostalg, fault, payload, state):
    """Returns the edited reply payload (or None = leave alone)."""
    fam = mitm.kex_family(kex)
    kind = fault["kind"]
    reply_type = 33 if fam == "gex" else 31
    if kind == "gexgroup":
        if fam != "gex" or payload[0] != 31 or state.get("group_done"):
            return None
        state["group_done"] = True
        _, p, g = mitm.unpack(payload, "mm")
        if fault["field"] == "p":
            p = p + 2 * (1 + fault["n"] % 1000)  # stays positive, odd and of the same size
        else:
            g = g + 1 + fault["n"] % 5
        return mitm.pack(31, "mm", [p, g])
    if payload[0] != reply_type or (fam == "gex" and not state.get("group_seen")):
        if fam == "gex" and payload[0] == 31:
            state["group_seen"] = True
        return None
    fmt = mitm.FORMATS[(fam, reply_type)]
    vals = mitm.unpack(payload, fmt)[1:]
    k_s, mid, sig = vals
    if kind == "flip":
        field = fault["field"]
        if field == "k_s":
            k_s = _flip(k_s, fault["n"])
        elif field == "sig":
            sig = _flip_sig(sig, fault.get("part"), fault["n"], state)
        else:  # public value
            if fmt[1] == "m":
                klen = (mid.bit_length() + 7) // 8
                mid = int.from_bytes(_flip(mid.to_bytes(klen, "big"), fault["n"]), "big")
            else:
                mid = _flip(mid, fault["n"])
    elif kind == "pub":
        if fmt[1] == "m":
            p = state["p"]
            new = 2 + fault["n"] % (p - 3)
            mid = new if new != mid else new + 1
        else:
            new = _other_public(kex, fault["seed"])
            mid = new if new != mid else _other_public(kex, fault["seed"] + b"x")
    elif kind == "sigalg":
        rd = R.Reader(sig)
        old = rd.string()
        rest = rd.rest()
        new = fault["name"].encode()
        if new == old:
            return None
        sig = R.string(new) + rest
    elif kind == "swapkey":
        k_s = state["otherkey"]
    elif kind == "replay":
        return state["old_reply"]
    elif kind == "reenc":
        form = reenc_form(kex, hostalg, fault)
        state["form"] = form
        if fault["field"] == "k_s":
            k_s = _reencode_key(k_s, form, fault["n"])
        elif fam == "ecdh":
            mid = lying.point_form(kex, mid, form)
        elif fam == "c25519":
            mid = mid[:-1] + bytes([mid[-1] | 0x80])  # X25519 ignores the top bit of the u coordinate
        else:  # the same number as a non-minimal mpint (leading zero bytes)
            body = b"\x00" * int(form.rsplit("-", 1)[1]) + R.mpint_body(mid)
            return R.u8(reply_type) + R.string(k_s) + R.string(body) + R.string(sig)
    return mitm.pack(reply_type, fmt, [k_s, mid, sig])


def reenc_form(kex, hostalg, fault):
    """Which equivalent encoding a "reenc" fault stands for in this configuration (derived from
    the drawn number so that every configuration has one)."""
    fam = mitm.kex_family(kex)
    n = fault["n"]
    if fault["field"] == "k_s":
        if n % 2 == 0 or hostalg == "ssh-ed25519":
            return "trailing-%d" % (1 + (n // 2) % 4)
        return "rsa-e-padded" if hostalg in ("ssh-rsa", "rsa-sha2-256", "rsa-sha2-512") else "ecdsa-point-compressed"
    if fam == "ecdh":
        return ["compressed", "hybrid"][n % 2]
    if fam == "c25519":
        return "highbit"
    return "padded-%d" % (1 + n % 3)


def _reencode_key(k_s, form, n):
    """The same public key in a different blob (trailing bytes after the last field, RSA exponent
    with a leading zero byte, ECDSA point compressed)."""
    if form.startswith("trailing-"):
        return k_s + bytes([n % 251]) * int(form.rsplit("-", 1)[1])
    rd = R.Reader(k_s)
    name = rd.string()
    if form == "rsa-e-padded":
        e = rd.string()
        return R.string(name) + R.string(b"\x00" + e) + rd.rest()
    cname = rd.string()
    point = rd.string()
    return R.string(name) + R.string(cname) + R.string(lying.point_form("ecdh-sha2-" + cname.decode(), point, "compressed")) + rd.rest()


def _capture_reply(kex, hostalg):
    """An honest handshake with the same configuration; returns its reply payload."""
    fam = mitm.kex_family(kex)
    reply_type = 33 if fam == "gex" else 31
    with _pack(kex):
        link, tc, ts = _pair(kex, hostalg)
        m = mitm.PlainMitm(link)
        try:
            ce, se = peers.start_both(tc, ts, timeout=60.0)
        finally:
            peers.shutdown(tc, ts)
            mitm.cancel_timers(tc, ts)
    if ce or se:
        return None
    got = [p for p in m.seen["s2c"] if p[0] == reply_type]
    return got[-1] if got else None


SIGNER_HOWS = ["hflip", "sid", "prev", "otheralg", "otherkey"]


def fault_label(kex, hostalg, fault):
    kind = fault["kind"]
    lab = kind + (":" + fault["field"] if "field" in fault else "")
    if kind == "reenc":
        form = reenc_form(kex, hostalg, fault)
        lab += ":" + {"trailing": "trailing-bytes", "padded": "zero-padded-mpint"}.get(form.rsplit("-", 1)[0], form)
    if kind == "signer":
        lab += ":" + fault["how"]
    return lab


def _ktype(hostalg):
    return HOSTALG[hostalg].rstrip("b").rstrip("0123456789") if not hostalg.endswith("25519") else "ed25519"


def run_impostor(ctx, case):
    """The WHOLE server is swapped: an impostor that holds another host key and runs a perfectly consistent key exchange
    with it (its own key blob, a genuine signature over H by that key) - nothing in the exchange can give it away, only
    the user's expectation can. The client is entered through Transport.connect(hostkey=<the genuine server's key>,
    username, password). "If the host key is swapped, the client aborts": connect() must raise and the credentials
    must not reach the impostor.
    fault["key"]: "same-type" = another key of the SAME algorithm (client configured as in every other session: only
    `hostalg` enabled); "other-type" = a key of another type / curve (client with every host key algorithm enabled:
    the narrowing to the expected key's algorithms is connect()'s own)."""
    kex, hostalg, fault = case["kex"], case["hostalg"], case["fault"]
    which = fault["key"]
    pool = peers.keypool()
    genuine = pool[HOSTALG[hostalg]]
    if which == "same-type":
        shown = lying.other_key_like(genuine)
        keys_off = mitm.only(ALLKEYALGS, hostalg)
    elif which == "other-type":
        cands = [n for n in ALLHOSTKEYS if pool[n].get_name() != genuine.get_name()]
        shown = pool[cands[fault.get("n", 0) % len(cands)]]
        keys_off = []
    else:
        raise core.HarnessError("impostor key %r" % (which,))
    if shown.asbytes() == genuine.asbytes():
        raise core.HarnessError("impostor holds the genuine key")
    same_alg = shown.get_name() == genuine.get_name()
    cls = ["fault", "fault:impostor", "fault:impostor:" + which, "fkex:" + kex, "fhostalg:" + hostalg, "fault-on-exchange:1", "fault-on-exchange:1/impostor",
           "client-entry:connect-hostkey", "client-entry:connect-hostkey:fault", "impostor:%s/%s" % (which, _ktype(hostalg))]
    ctx.case(case, True, cls)
    srv = peers.OpenServer()
    with _pack(kex):
        ckw = {"disabled_algorithms": {"kex": mitm.only(KEXES, kex), "keys": keys_off}}
        link, tc, ts = peers.make_pair(client_kw=ckw, host_keys=(shown,))
        try:
            ce, se = _enter(tc, ts, "connect-hostkey", _expected(genuine), srv)
            done = bool(tc.initial_kex_done)
            seen = tc.get_remote_server_key().asbytes() if done else None
            c_auth, s_auth = bool(tc.is_authenticated()), bool(ts.is_authenticated())
            creds = [c for c in srv.calls if c[0].startswith("check_auth_")]
        finally:
            peers.shutdown(tc, ts)
            mitm.cancel_timers(tc, ts)
    if isinstance(ce, StillBusy):
        ctx.inconc("fault:client-still-busy-at-timeout")
        return True
    bucket = "impostor:%s/%s" % (which, _ktype(hostalg))
    detail = "user expects %s %s.., server holds and signs with %s %s..: connect(hostkey=expected, username, password) -> %r, key exchange completed=%s, server saw %r, authenticated client=%s server=%s" % (
        genuine.get_name(), genuine.get_base64()[-16:], shown.get_name(), shown.get_base64()[-16:], ce, done, [c[0] for c in creds], c_auth, s_auth)
    ctx.count("impostor:" + ("refused-at-negotiation" if not done else "refused-after-a-consistent-exchange" if ce is not None else "not-refused"))
    if done and seen != shown.asbytes():
        ctx.violation("host-key-shown", "%s:differs" % bucket, case, "get_remote_server_key() is not the key the server showed; " + detail)
        return False
    if creds or s_auth or c_auth:
        ctx.violation("swapped-host-key-aborts", "%s:credentials-sent-to-impostor" % bucket, case, detail)
        return False
    if ce is None:
        ctx.violation("swapped-host-key-aborts", "%s:connect-returned" % bucket, case, detail)
        return False
    if same_alg and not done:
        # same algorithm: nothing but the key differs, the exchange itself must have been fine
        ctx.count("impostor:same-type:exchange-did-not-complete(%s)" % type(ce).__name__)
    return True


def run_fault(ctx, case):
    kex, hostalg, fault = case["kex"], case["hostalg"], case["fault"]
    if fault["kind"] == "impostor":
        # (exists for the one entry that takes an expectation, and in the exchange that entry covers)
        return run_impostor(ctx, {"kind": "fault", "kex": kex, "hostalg": hostalg, "fault": dict(fault), "entry": "connect-hostkey"})
    case = {k_: v for k_, v in case.items() if not (k_ == "entry" and v in (None, "start_client"))}
    entry = case.get("entry", "start_client")
    rekeys = list(case.get("rekeys") or [])  # initiators of exchanges 2..k; the last one is altered
    k = 1 + len(rekeys)
    fam = mitm.kex_family(kex)
    kind = fault["kind"]
    reply_type = 33 if fam == "gex" else 31
    state = {}
    if kind == "gexgroup" and fam != "gex":
        return True
    if kind == "swapkey":
        other = OTHERKEY.get(HOSTALG[hostalg])
        if other is not None:
            state["otherkey"] = peers.keypool()[other].asbytes()
        else:  # no second key of this type in the pool: make one (harness side, cryptography)
            from cryptography.hazmat.primitives import serialization
            from cryptography.hazmat.primitives.asymmetric import ec

            cname = hostalg.rsplit("-", 1)[1]
            curve = {"nistp384": ec.SECP384R1, "nistp521": ec.SECP521R1}[cname]()
            pt = ec.derive_private_key(0xC06C06, curve).public_key().public_bytes(serialization.Encoding.X962, serialization.PublicFormat.UncompressedPoint)
            state["otherkey"] = R.string(hostalg) + R.string(cname) + R.string(pt)
    if kind == "pub" and fam == "dh":
        state["p"] = mitm.fixed_group_prime(kex)
    if kind == "pub" and fam == "gex":
        state["p"] = mitm.group_prime(1024)
    if kind == "replay" and k == 1:
        old = _capture_reply(kex, hostalg)
        if old is None:
            ctx.inconc("fault:replay-capture-failed")
            return True
        state["old_reply"] = old
    edited = []

    def edit(payload):
        if edited:
            return None
        new = _edit_reply(kex, hostalg, fault, payload, state)
        if new is None or new == payload:
            return None
        edited.append((payload, new))
        return new

    def cb(d, i, payload):  # k == 1: on the link
        if d != "s2c":
            return None
        new = edit(payload)
        return None if new is None else [new]

    via_server = k >= 2 or kind == "signer"
    signer = None
    prefix_failure = None
    res = None
    srv = peers.OpenServer()
    expected = _expected(peers.keypool()[HOSTALG[hostalg]]) if entry == "connect-hostkey" else None
    with _pack(kex):
        if via_server:
            link, tc, ts = _pair(kex, hostalg, server_cls=lying.EditingServer)
            m = mitm.PlainMitm(link)  # passive: reads the plaintext part of the client's stream
            if kind == "signer":
                signer = lying.LyingSigner(peers.keypool()[HOSTALG[hostalg]], k, fault["how"], fault["n"], ts)
                ts.server_key_dict = {name: signer for name in ts.server_key_dict}
            else:

                def v_edit(kno, raw):  # k >= 2: inside the non-tested server, before encryption
                    if kno != k:
                        return None
                    if kind == "replay" and "old_reply" not in state:
                        prev = [p for (j, p) in ts.v_kexmsgs if j == k - 1 and p[0] == reply_type]
                        if not prev:
                            return None
                        state["old_reply"] = prev[-1]
                    return edit(raw)

                ts.v_edit = v_edit
        else:
            link, tc, ts = _pair(kex, hostalg)
            m = mitm.PlainMitm(link, on_packet=cb)
        try:
            ce, se = _enter(tc, ts, entry, expected, srv)
            done = tc.initial_kex_done
            creds = [c[0] for c in srv.calls if c[0].startswith("check_auth_")]  # (k = 1: nothing may follow an altered exchange)
            if k >= 2:
                if ce or se or not done:
                    prefix_failure = ("honest-handshake-completes", type(ce or se).__name__, "client entered through %s: client=%r server=%r" % (entry, ce, se))
                else:
                    try:
                        if entry == "start_client":
                            tc.auth_password("u", "pw")
                        lying.rekey_prefix(tc, ts, rekeys[:-1])
                    except Exception as e:
                        prefix_failure = ("rekey-completes", type(e).__name__, repr(e))
                    else:
                        res = lying.rekey_observed(tc, ts, rekeys[-1], k)
            active = tc.is_active()
            ckh, skh = list(tc.v_kh), list(ts.v_kh)
        finally:
            peers.shutdown(tc, ts)
            mitm.cancel_timers(tc, ts)
        c_chunks, c_epochs = list(link.ab.sent), list(tc.v_out)
    if m.errors:
        raise RuntimeError("PlainMitm could not parse the handshake: %r" % (m.errors,))
    if prefix_failure is not None:  # the honest exchanges before the altered one (same claims as run_honest)
        ctx.case(case, False, ["fault:not-applied"])
        ctx.violation(prefix_failure[0], "%s/%s:%s" % (fam, hostalg, prefix_failure[1]), case, "before the altered exchange: " + prefix_failure[2])
        return False
    if not edited and not (signer is not None and signer.lied):
        ctx.case(case, False, ["fault:not-applied"])
        return True
    label = fault_label(kex, hostalg, fault)
    oldlabel = kind + (":" + fault["field"] if "field" in fault else "")
    cls = ["fault", "fault:" + oldlabel + ("/" + fault["part"] if fault.get("part") else ""), "fkex:" + kex, "fhostalg:" + hostalg, "fault-on-exchange:%d" % k]
    cls.append("fault-on-exchange:%d/%s" % (k, kind))
    cls += ["client-entry:" + entry, "client-entry:%s:fault" % entry]
    if k >= 2:
        cls.append("fault-initiator:" + ("client" if rekeys[-1] == "c" else "server"))
    if kind == "reenc":
        cls.append("reencoded:" + label.split(":", 1)[1])
    if kind == "signer":
        cls.append("lying-signer:" + fault["how"])
    ctx.case(case, True, cls)
    ktype = _ktype(hostalg)
    bucket = "%s:%s/%s" % (label if kind in ("reenc", "signer") else oldlabel, fam, ktype)
    if state.get("blob_len_increased"):
        # one root cause whatever the kex: the length prefix of the inner signature string was made
        # larger than the data that follows (see known_findings.d/C06.json)
        bucket = "flip:sig:blob-length-increased/%s" % ktype
    if state.get("ecdsa_s_len_increased"):
        bucket = "flip:sig:ecdsa-s-length-increased"  # same leniency one level deeper (ECDSAKey._sigdecode)
    # the zero-padded mpint is the same VALUE f, and H is defined over the value: accepting it is
    # no violation as long as both peers still agree
    must_abort = not (kind == "reenc" and fault["field"] == "pub" and fam in ("dh", "gex"))
    if k == 1:
        sent_newkeys = 21 in m.types("c2s")
        if (ce is None or isinstance(ce, StillBusy)) and not done and not sent_newkeys:
            # start_client returns normally when its timeout expires: the client was still busy
            # (e.g. Message.get_mpint on a length prefix just below 2**20 zero-pads to 1 MiB and
            # util.inflate_long needs about a minute for that) - not an acceptance
            ctx.inconc("fault:client-still-busy-at-timeout")
            return True
        accepted = bool(done or sent_newkeys or creds)
        what = "accepted" if ce is None else ("initial_kex_done" if done else "sent-NEWKEYS" if sent_newkeys else "credentials-sent")
        detail = "%s raised %r, initial_kex_done=%s, active=%s, client sent types %r, server application saw %r" % (entry, ce, done, active, m.types("c2s"), creds)
    else:
        try:
            newkeys = lying.client_newkeys(c_chunks, c_epochs)
        except R.RefError as e:
            ctx.violation("wire-decodes-with-recorded-keys", "%s/%s:client-stream:%s" % (fam, hostalg, str(e)[:24]), case, repr(e))
            return False
        accepted = bool(res["accepted"] or newkeys >= k)
        if not accepted and res["busy"]:
            ctx.inconc("fault:client-still-busy-at-timeout")
            return True
        what = "accepted-on-rekey"
        detail = "exchange %d (started by %s) altered: renegotiate_keys -> %r, client switched outbound keys %d time(s), NEWKEYS in the client's stream %d, client active afterwards=%s" % (
            k, "client" if rekeys[-1] == "c" else "server", res["exc"], len(c_epochs), newkeys, active)
    if not must_abort:
        ctx.count("reencoded:pub:zero-padded-mpint:" + ("accepted" if accepted else "refused"))
        if accepted and (len(ckh) < k or len(skh) < k or ckh[k - 1] != skh[k - 1]):
            ctx.violation("same-K-H", "%s:after-zero-padded-f" % fam, case, "exchange %d completed but K/H differ between the peers" % k)
            return False
        return True
    if accepted:
        ctx.violation("altered-reply-aborts", "%s:%s" % (bucket, what), case, detail)
        return False
    return True


# ----------------------------------------------------------------------------- generators / drivers


REKEYS = [[], [], [], ["c"], ["s"], ["c", "s"], ["s", "c"], ["c", "c"], ["s", "s"]]  # exchange k = 1 + len


def fault_st(kex_st):
    n = st.integers(0, 2**40)
    flip = st.one_of(
        st.fixed_dictionaries({"kind": st.just("flip"), "field": st.sampled_from(["k_s", "pub"]), "n": n}),
        st.fixed_dictionaries({"kind": st.just("flip"), "field": st.just("sig"), "part": st.sampled_from(["name-len", "name", "blob-len", "ecdsa-s-len", "blob", "blob", "blob"]), "n": n}),
    )
    pub = st.fixed_dictionaries({"kind": st.just("pub"), "n": st.integers(0, 2**1000), "seed": st.binary(min_size=8, max_size=16)})
    sigalg = st.fixed_dictionaries({"kind": st.just("sigalg"), "name": st.sampled_from(SIGNAMES)})
    swap = st.just({"kind": "swapkey"})
    rep = st.just({"kind": "replay"})
    gg = st.fixed_dictionaries({"kind": st.just("gexgroup"), "field": st.sampled_from(["p", "g"]), "n": st.integers(0, 10**6)})
    reenc = st.fixed_dictionaries({"kind": st.just("reenc"), "field": st.sampled_from(["pub", "pub", "k_s"]), "n": st.integers(0, 1000)})
    signer = st.fixed_dictionaries({"kind": st.just("signer"), "how": st.sampled_from(SIGNER_HOWS), "n": st.integers(0, 10**6)})
    impostor = st.fixed_dictionaries({"kind": st.just("impostor"), "key": st.sampled_from(["same-type", "same-type", "other-type"]), "n": st.integers(0, 3)})
    return st.fixed_dictionaries(
        {
            "kind": st.just("fault"),
            "kex": kex_st,
            "hostalg": st.sampled_from(ALLKEYALGS),
            "fault": st.one_of(flip, flip, flip, pub, sigalg, swap, rep, gg, reenc, reenc, signer, signer, impostor, impostor.map(lambda v: v)),
            "rekeys": st.sampled_from(REKEYS),
            "entry": st.sampled_from(ENTRIES),
        }
    )


def ident_st(server):
    soft = st.text(alphabet=IDENT_SOFT, min_size=1, max_size=24)
    comment = st.text(alphabet=IDENT_COMMENT, min_size=0, max_size=60)
    proto = st.sampled_from(["2.0", "2.0", "1.99"]) if server else st.just("2.0")
    with_comment = st.tuples(proto, soft, comment).map(lambda t: "SSH-%s-%s %s" % t)
    without = st.tuples(proto, soft).map(lambda t: "SSH-%s-%s" % t)
    return st.one_of(st.none(), with_comment, with_comment.map(lambda v: v), without)


def plan_step_st(kex_st):
    return st.one_of(
        st.none(),
        st.fixed_dictionaries(
            {"mode": st.sampled_from(["front", "front", "only"])},
            optional={"kex": kex_st, "hostalg": st.sampled_from(ALLKEYALGS), "sdrop": st.just(True)},
        ),
        st.fixed_dictionaries({"mode": st.just("front"), "hostalg": st.sampled_from(ALLKEYALGS)}),
    )


def honest_st(kex_st, max_rekeys=3):
    return st.fixed_dictionaries(
        {
            "kind": st.just("honest"),
            "kex": kex_st,
            "hostalg": st.sampled_from(ALLKEYALGS),
            "rekeys": st.lists(st.sampled_from(["c", "s"]), min_size=0, max_size=max_rekeys),
            "server": st.sampled_from(["paramiko", "paramiko", "ref-uncompressed", "ref-compressed", "ref-compressed", "ref-short", "ref-short", "ref-signpad"]),
            "ident": st.fixed_dictionaries({"c": ident_st(False), "s": ident_st(True)}),
            "plan": st.one_of(st.none(), st.lists(plan_step_st(kex_st), min_size=max_rekeys, max_size=max_rekeys)),
            "entry": st.sampled_from(ENTRIES),
        }
    )


IDENT_FLOOR = [
    {"s": "SSH-2.0-OpenSSH_9.6p1 Ubuntu-3ubuntu13.5"},
    {"c": "SSH-2.0-verif_1.0 build 42 (x86_64) - test"},
    {"c": "SSH-2.0-c+l.ient  two  spaces ", "s": "SSH-1.99-srv_0.1 x"},
    {"s": "SSH-2.0-NoComment_7.4"},
]


def plan_floor():
    """Deterministic plan sessions: every host key algorithm as the target of a change, both modes,
    either initiator, one and two re-exchanges, kex changed as well in some."""
    out = []
    for i, h in enumerate(ALLKEYALGS):
        h0 = ALLKEYALGS[(i + 2) % 7]
        out.append({"kind": "honest", "kex": CHEAPISH[i % len(CHEAPISH)], "hostalg": h0, "rekeys": ["c", "s"][i % 2 :][:1], "plan": [{"mode": "front", "hostalg": h}]})
    out.append({"kind": "honest", "kex": CHEAP[0], "hostalg": "rsa-sha2-512", "rekeys": ["s", "c"], "plan": [{"mode": "front", "hostalg": "rsa-sha2-256"}, {"mode": "front", "hostalg": "rsa-sha2-512"}]})
    out.append({"kind": "honest", "kex": CHEAP[1], "hostalg": "ecdsa-sha2-nistp256", "rekeys": ["c", "c"], "plan": [{"mode": "only", "hostalg": "ssh-ed25519", "kex": CHEAP[0]}, {"mode": "front", "kex": CHEAP[3]}]})
    out.append({"kind": "honest", "kex": CHEAP[0], "hostalg": "ssh-ed25519", "rekeys": ["s"], "plan": [{"mode": "front", "hostalg": "ecdsa-sha2-nistp384", "sdrop": True}], "ident": IDENT_FLOOR[0]})
    out.append({"kind": "honest", "kex": CHEAP[2], "hostalg": "ssh-rsa", "rekeys": ["c", "s"], "plan": [None, {"mode": "front", "hostalg": "rsa-sha2-256", "kex": CHEAP[1]}], "server": "ref-uncompressed"})
    return out


def _dispatch(ctx, case):
    if case["kind"] == "honest":
        return run_honest(ctx, case)
    return run_fault(ctx, case)


def fault_floor():
    """Deterministic part of the fault domain: every kex at k = 1 and k = 2, every alteration kind
    at k = 2 and k = 3 (and the kinds that only this file's later versions know at k = 1 too),
    kex / host key algorithm / initiators rotating."""
    floor = []
    for i, kex in enumerate(KEXES):
        f = dict({"kind": "flip", "field": ["sig", "k_s", "pub"][i % 3], "n": 7 + 13 * i}, **({"part": "blob"} if i % 3 == 0 else {}))
        floor.append({"kind": "fault", "kex": kex, "hostalg": ALLKEYALGS[(2 * i) % 7], "fault": f})
        f2 = dict({"kind": "flip", "field": ["pub", "sig", "k_s"][i % 3], "n": 11 + 17 * i}, **({"part": "blob"} if i % 3 == 1 else {}))
        floor.append({"kind": "fault", "kex": kex, "hostalg": ALLKEYALGS[(2 * i + 3) % 7], "fault": f2, "rekeys": ["c"] if i % 2 else ["s"]})
    for hostalg in ALLKEYALGS:
        floor.append({"kind": "fault", "kex": CHEAP[0], "hostalg": hostalg, "fault": {"kind": "swapkey"}})
    floor.append({"kind": "fault", "kex": CHEAP[1], "hostalg": "ssh-ed25519", "fault": {"kind": "replay"}})
    floor.append({"kind": "fault", "kex": "diffie-hellman-group-exchange-sha1", "hostalg": "rsa-sha2-256", "fault": {"kind": "gexgroup", "field": "p", "n": 1}})
    kinds = [
        {"kind": "flip", "field": "sig", "part": "blob", "n": 5},
        {"kind": "flip", "field": "sig", "part": "name", "n": 3},
        {"kind": "flip", "field": "k_s", "n": 101},
        {"kind": "flip", "field": "pub", "n": 77},
        {"kind": "pub", "n": 123456789, "seed": b"c06-floor"},
        {"kind": "sigalg", "name": "rsa-sha2-256"},
        {"kind": "sigalg", "name": "ssh-ed25519"},
        {"kind": "swapkey"},
        {"kind": "replay"},
        {"kind": "reenc", "field": "pub", "n": 0},
        {"kind": "reenc", "field": "pub", "n": 1},
        {"kind": "reenc", "field": "k_s", "n": 0},
        {"kind": "reenc", "field": "k_s", "n": 1},
    ] + [{"kind": "signer", "how": h, "n": 9} for h in SIGNER_HOWS]
    pats = {2: [["c"], ["s"]], 3: [["c", "s"], ["s", "c"], ["s", "s"], ["c", "c"]]}
    j = 0
    for f in kinds:
        ks = (1, 2, 3) if f["kind"] in ("reenc", "signer") else (2, 3)
        for k in ks:
            if k == 1 and f["kind"] == "reenc" and f["field"] == "pub":
                # one per kex family (the encodings differ by family)
                for kex in CHEAPISH:
                    floor.append({"kind": "fault", "kex": kex, "hostalg": ALLKEYALGS[j % 7], "fault": dict(f)})
                    j += 1
                continue
            c = {"kind": "fault", "kex": CHEAPISH[j % len(CHEAPISH)], "hostalg": ALLKEYALGS[(3 * j) % 7], "fault": dict(f)}
            if k > 1:
                c["rekeys"] = pats[k][j % len(pats[k])]
            floor.append(c)
            j += 1
    for k in (2, 3):
        floor.append({"kind": "fault", "kex": "diffie-hellman-group-exchange-sha256", "hostalg": ALLKEYALGS[k], "fault": {"kind": "gexgroup", "field": "pg"[k % 2], "n": k}, "rekeys": pats[k][k % 2]})
    # the API the client is entered through rotates over the sessions above ...
    for j, c in enumerate(floor):
        if ENTRIES[j % 3] != "start_client":
            c["entry"] = ENTRIES[j % 3]
    # ... every host key algorithm's swapkey (K_S replaced on the wire, signature left alone) also against a client that
    # was told which key to expect, and the whole server swapped for an impostor with a key of its own (consistent
    # exchange): every host key algorithm x another key of the same algorithm / a key of another type, kex rotating
    for i, hostalg in enumerate(ALLKEYALGS):
        floor.append({"kind": "fault", "kex": CHEAP[1], "hostalg": hostalg, "fault": {"kind": "swapkey"}, "entry": "connect-hostkey"})
        floor.append({"kind": "fault", "kex": CHEAPISH[i % len(CHEAPISH)], "hostalg": hostalg, "fault": {"kind": "impostor", "key": "same-type", "n": 0}})
        floor.append({"kind": "fault", "kex": CHEAPISH[(i + 3) % len(CHEAPISH)], "hostalg": hostalg, "fault": {"kind": "impostor", "key": "other-type", "n": i}})
    return floor


def entry_floor():
    """Honest sessions entered through Transport.connect(hostkey=<the server's key>, username, password) for every host
    key algorithm (0..2 re-exchanges), and through Transport.connect(username, password) for one per key type."""
    out = []
    for i, hostalg in enumerate(ALLKEYALGS):
        out.append({"kind": "honest", "kex": CHEAPISH[(i + 1) % len(CHEAPISH)], "hostalg": hostalg, "rekeys": [[], ["c"], ["s", "c"]][i % 3], "entry": "connect-hostkey"})
    for i, hostalg in enumerate(["rsa-sha2-256", "ecdsa-sha2-nistp384", "ssh-ed25519"]):
        out.append({"kind": "honest", "kex": CHEAP[i], "hostalg": hostalg, "rekeys": [["s"], [], ["c"]][i], "entry": "connect"})
    return out


def run(ctx):
    # (VERIF_BUDGET_SCALE: validation runs on an oversubscribed machine may stretch the wall-clock safety net; never part of a verdict)
    _bs = max(1.0, float(__import__("os").environ.get("VERIF_BUDGET_SCALE", "1") or 1))
    ctx.set_budget(85 * _bs, 840 * _bs)
    quick = ctx.quick
    # 1. coverage floor: every kex x rotating host key algorithm, honest with one rekey, and one
    #    fault per kex; thorough: full kex x hostalg product sharded over the workers
    combos = []
    if quick:
        for i, kex in enumerate(KEXES):
            combos.append((kex, ALLKEYALGS[i % 7], ["c"] if i % 2 else ["s"], "paramiko"))
            combos.append((kex, ALLKEYALGS[(i + 3) % 7], [], "paramiko"))
        for i, kex in enumerate(CURVES):
            combos.append((kex, ALLKEYALGS[(2 * i + 1) % 7], [["c"], ["s", "c"], []][i], "ref-compressed"))
            combos.append((kex, ALLKEYALGS[(2 * i + 4) % 7], [[], ["s"], ["c", "s"]][i], "ref-uncompressed"))
        # shared-secret shapes: every kex against a reference server that picks a "short" K (initial exchange and
        # one re-exchange), one method per family with a sign-padded K
        for i, kex in enumerate(KEXES):
            combos.append((kex, ALLKEYALGS[(i + 5) % 7], [["s"], ["c"], []][i % 3], "ref-short"))
        for i, kex in enumerate(CHEAP):
            combos.append((kex, ALLKEYALGS[(i + 1) % 7], [[], ["c"]][i % 2], "ref-signpad"))
    else:
        allc = [(k, h) for k in KEXES for h in ALLKEYALGS]
        for j, (k, h) in enumerate(allc):
            if j % ctx.nworkers == ctx.worker:
                combos.append((k, h, ["c", "s"][: 1 + j % 2], "paramiko"))
                if k in CURVES:
                    combos.append((k, h, ["s", "c"][: 1 + j % 2], ["ref-compressed", "ref-uncompressed"][j % 2]))
                combos.append((k, h, ["c", "s"][: j % 3], ["ref-short", "ref-short", "ref-signpad"][j % 3]))
    for j, (kex, hostalg, rk, server) in enumerate(combos):
        if ctx.out_of_time():
            break
        c = {"kind": "honest", "kex": kex, "hostalg": hostalg, "rekeys": rk, "server": server}
        if j % 3 == 1:  # identification strings are an input of H: every third floor session sends non-default ones
            c["ident"] = IDENT_FLOOR[(j // 3) % len(IDENT_FLOOR)]
        if j % 4 == 2:  # the API the client is entered through: every fourth floor session through a connect() variant
            c["entry"] = ENTRIES[1 + (j // 4) % 2]
        run_honest(ctx, c)
    for j, c in enumerate(entry_floor() + plan_floor()):
        if ctx.out_of_time():
            break
        if j % ctx.nworkers == ctx.worker:
            run_honest(ctx, c)
    for j, c in enumerate(fault_floor()):
        if ctx.out_of_time():
            break
        if j % ctx.nworkers == ctx.worker:
            run_fault(ctx, c)
    ctx.note("kex_x_hostalg_honest_floor", len(combos))
    # 2. hypothesis-drawn remainder; quick keeps to the cheap methods, thorough draws from all
    kex_st = st.sampled_from(CHEAPISH) if quick else st.one_of(st.sampled_from(CHEAPISH), st.sampled_from(KEXES))
    ctx.explore(fault_st(kex_st), lambda c: _dispatch(ctx, c), ctx.scale(205, 6000), shrink=False, seed_offset=0)
    ctx.explore(honest_st(kex_st, 3), lambda c: _dispatch(ctx, c), ctx.scale(40, 1000), shrink=False, seed_offset=1)


def replay(ctx, case):
    _dispatch(ctx, case)
