"""C32 - the SFTP check-file extension returns the right hashes for the requested ranges.

Engine: E5 (production SFTPServer._check_file behind a production SFTPClient / SFTPFile.check,
socketpair link).  A case = a served file (aperiodic content: SHAKE-256 stream of a generated seed,
so a block hashed at the wrong position gives a different digest) + a program on the file's handles:
either 1-4 queries (algorithm list, offset, length, block_size >= 256 or 0) on one read-only handle, or a *handle
history*: the file opened r, r+ or w+ (unbuffered SFTPFile, no prefetch) plus a second handle on the same
file, and 4-10 operations check / read(n) / seek / write(data) on either handle.  Offsets of checks and seeks
may be given relative to the handle's own past: ("end", k, d) = where the k-th most recent request on that
handle (read, write or check range) ended, plus d; ("pos", d) = the handle's current read/write position.
The served files are unbuffered on the server side (a second handle must see what the first one wrote).
Short-read plan (sftpenv fault plan, ("short", k)): SFTPHandle.read is documented as "read up to length bytes", so while a
check-file request is served the handle may legitimately hand out FEWER bytes than asked although more data follows
(pipe / socket / object-store backed files, a read-size cap): none | a cap of k bytes per read | every m-th read (by a hash
of offset and length) short by a random or a tiny amount.  A short read always returns >= 1 byte, an empty read still
means end of file.  The oracle does not change: the digests are hashlib over the real bytes.

Read-error plan (round 4; sftpenv fault plan, ("bad", position, action) | ("from", position, action)): SFTPHandle.read is documented
to return "the bytes read, or an error code": while a check-file request is served, a read that covers byte `position` of the file
(a bad sector) - or any read reaching at or beyond it (the rest of the file is unreadable: dropped mount, revoked permission) - fails,
either by returning an SFTP error code (NO_SUCH_FILE, PERMISSION_DENIED, FAILURE, OP_UNSUPPORTED) or by raising OSError (EIO, EACCES).
The position is generated relative to the file (fraction / absolute / near the end), so it falls before, inside and after the
requested ranges.  Oracle clause: when the unreadable position lies INSIDE the requested range the hashes of the range cannot be
computed - the reply must be an error (or, for a server that somehow got at the bytes, exactly the right digests); digests of a
readable prefix, fewer digests than blocks or an empty digest string are wrong answers.  When the position lies outside the range a
correct server never touches it and the ordinary oracle applies unchanged (an error reply is then a violation as before).

Oracle (hashlib over the very bytes the served file holds at the moment of the query: the harness keeps a
model of the file - initial bytes, emptied by a w+ open, patched by every write it issues; SFTPFile.write on an
unbuffered, non-pipelined file has reached the server when it returns, flush() is called all the same - and
the model is compared with the file on disk at the end of the case; what read() returns is not asserted here):
    end    = size if length == 0 or offset + length > size else offset + length
    reply == concat(H(content[p : min(p + block, end)]) for p = offset, offset+block, ... < end)
  * the statement quantifies over block sizes of at least 256: 1..255 are not generated.  Block size 0 is the documented "one hash
    of the entire segment" (SFTPFile.check's default): the block IS the requested segment - `length` bytes, or what follows the
    offset when length is 0 - so the reply must be the single hash of content[offset:end] whenever that block is at least 256 bytes
    long (in particular for a length >= 256 that runs past EOF, however few bytes are left before EOF).  When the segment is
    shorter than 256 bytes the block size is below 256 and any reply is accepted (counted: the server refuses these with
    "Block size too small", also check(alg) with all defaults on a file shorter than 256 bytes);
  * H = "the requested hash".  The algorithm field of the check-file extension is a comma separated list in the client's order of
    preference and the extension (draft-ietf-secsh-filexfer-extensions, "check-file") defines which hash such a request asks for:
    "the server MUST pick the first hash on the list that it supports".  SFTPFile.check() hands its `hash_algorithm` string through
    as that list and returns the digests only (the algorithm name in the reply is dropped), so its caller can interpret the result
    only under that rule.  Round 4 therefore judges lists by it: H = the FIRST supported name on the list (unsupported names before
    it are skipped); digests of a later listed algorithm are reported as digest|later-listed-algorithm-used.  Lists of 2-4 names
    with 1-2 supported ones in every order, unsupported names before / between / after, and a repeated name are generated;
  * empty range (offset at/after EOF): an empty digest string or an error reply are both accepted -
    but there must be a reply;
  * "answers promptly": decided without a clock.  The served handle counts the server's reads for the
    request; more than 1000 consecutive reads at/after EOF (none of which can ever return data - the file
    is static) or more than 20000 + 64 reads per 256 bytes of range is a livelock and is aborted inside
    the handle (the request is then answered with FAILURE by SFTPServer's catch-all; the abort is what is
    recorded).  A 20 s socket timeout on the client is only a backstop for stalls of another kind
    (re-tried twice before it is reported).
"""
import hashlib
import os
import shutil
import sys
import time
import traceback
import zlib

from hypothesis import strategies as st

from vlib import sftpenv

PROPERTY = "C32"
LEVEL = "exploration"
RULE = (
    "hypothesis-generated cases: served file of size {0,1,255..257,65535..65537,131071..131073,196608,262144,409600, random 0..409600} "
    "with aperiodic content; program = 1-4 check-file queries on one read-only handle, or (half of the cases) a handle history of 4-10 "
    "operations check/read(n)/seek/write(1..65536 bytes) on a handle opened r, r+ or w+ (unbuffered) and on a second handle on the same file, "
    "offsets also relative to the handle's past (end position of its k-th last request +-d, current position) and to the current size; "
    "short-read plan for the served handle while a check-file request is served (none | at most k bytes per read, k in 256..65535 | every "
    "m-th read, by hash of (offset, length), returns a random or a tiny part of what is available - never 0 bytes before EOF); "
    "read-error plan for the served handle while a check-file request is served (none | reads covering one generated byte position fail | "
    "every read reaching at or beyond a generated position fails; by SFTP error code or by OSError; position before / inside / after the "
    "requested range - inside: the reply must be an error, never digests of the readable part); "
    "queries via SFTPFile.check: algorithm in {md5, sha1, lists of 2-4 names with both supported ones in either order and "
    "unsupported names before / between / after them: the first supported name on the list is the requested hash}, offset/length from {0,1,255,256,257,65535,65536,65537,131072,size-1,size,size+1, size-600..size+2, random, 2^40}, block size >= 256 from "
    "{256,257,512,4096,65535,65536,65537,131072,size,size+1,random} or 0 (= one block: the requested segment; judged when that segment is >= 256 bytes, "
    "with lengths inside the file, zero and past EOF, also with fewer than 256 bytes left before EOF); oracle = hashlib per block over the bytes the file holds at that moment "
    "(model = initial bytes + the writes issued; checked against the disk at the end), range clipped at EOF when "
    "length is 0 or runs past it; promptness = server read-count/livelock guard. non-trivial = some block of the range is longer than 65536 bytes "
    "(spans the server's read chunk) or the requested length runs past EOF or there are >= 2 blocks with a partial last one, or a non-empty range is "
    "hashed on a handle that has already served a read/write or after the file was modified, or the served handle returned a short read "
    "before EOF while a non-empty range was hashed, or a read inside the hashed range failed; distinct by SHA-1 of the case"
)
THOROUGH_WORKERS = 16

BACKSTOP_S = 20.0
SUPPORTED = {"md5": hashlib.md5, "sha1": hashlib.sha1}

# ----------------------------------------------------------------------------- generators

_KB64 = 65536
_file_sizes = st.one_of(
    st.sampled_from([0, 1, 255, 256, 257, 1000, 65535, 65536, 65537, 131071, 131072, 131073, 196608, 200000, 262144, 409600]),
    st.integers(0, 409600),
    st.integers(65537, 409600),
    st.integers(0, 3000),
)
_algs = st.sampled_from(
    ["md5", "sha1", "md5", "sha1", "md5", "sha1", "md5,sha1", "sha1,md5", "sha256,md5", "bogus,sha1", "sha1,bogus"]
    + ["md5,sha1", "sha1,md5", "sha256,md5,sha1", "crc32,sha1,md5", "md5,sha256,sha1", "sha1,sha512,md5", "sha1,md5,bogus", "md5,md5,sha1", "sha256,sha1,crc32,md5"]
)

# numbers are generated relative to the file size where that is interesting: ("abs", n) | ("size", delta) | ("frac", per-mille)
_num = st.one_of(
    st.tuples(st.just("abs"), st.sampled_from([0, 1, 255, 256, 257, 65535, 65536, 65537, 131072])),
    st.tuples(st.just("abs"), st.integers(0, 500000)),
    st.tuples(st.just("abs"), st.integers(0, 2000)),
    st.tuples(st.just("size"), st.integers(-2, 2)),
    st.tuples(st.just("frac"), st.integers(0, 1000)),
)
_offset = st.one_of(
    _num,
    st.tuples(st.just("frac"), st.integers(0, 999)),
    st.tuples(st.just("frac"), st.integers(0, 300)),
    st.tuples(st.just("abs"), st.just(0)),
    st.tuples(st.just("abs"), st.integers(0, 300)),
    st.tuples(st.just("size"), st.integers(-600, 2)),  # in the last few hundred bytes of the file (less than one minimal block left)
)
# lengths additionally relative to what remains after the offset: ("rem", per-mille of the remainder) | ("rem+", bytes beyond EOF)
_length = st.one_of(
    _num,
    st.tuples(st.just("rem"), st.integers(1, 1000)),
    st.tuples(st.just("rem"), st.integers(1, 1000)),
    st.tuples(st.just("rem"), st.sampled_from([1000, 999, 500])),
    st.tuples(st.just("rem+"), st.one_of(st.integers(1, 300), st.integers(1, 200000))),
    st.tuples(st.just("abs"), st.just(0)),
    st.tuples(st.just("abs"), st.sampled_from([1 << 40, (1 << 32) + 5])),
)
_block = st.one_of(
    st.tuples(st.just("abs"), st.sampled_from([256, 257, 512, 1024, 4096, 32768, 65535, 65536, 65537, 131072, 200000])),
    st.tuples(st.just("abs"), st.integers(256, 500000)),
    st.tuples(st.just("abs"), st.integers(65537, 300000)),
    st.tuples(st.just("abs"), st.integers(256, 2000)),
    st.tuples(st.just("size"), st.integers(-1, 1)),
    st.tuples(st.just("frac"), st.integers(100, 1000)),
    st.tuples(st.just("frac"), st.integers(300, 1000)),
    # block size 0 = the documented "one hash of the entire segment": the block is the requested segment itself
    st.just(("whole", 0)),
    st.just(("whole", 0)).map(lambda v: v),
)
_query = st.tuples(_algs, _offset, _length, _block)



def _w(strategy, n):
    """``n`` distinct copies of a strategy: one_of() drops repeated occurrences of the same object (and flattens nested
    one_of()s), so weighting by repetition needs distinct objects."""
    return [strategy.map(lambda v: v) for _ in range(n)]


# ---- handle histories: operations on handle 0 (opened with the case's mode) or handle 1 (second handle on the same file)
_h = st.sampled_from([0, 0, 0, 0, 0, 0, 1])
# offsets relative to the handle's own past: ("end", k, d) = end of its k-th most recent request + d; ("pos", d) = current position + d
_rel = st.one_of(
    st.tuples(st.just("end"), st.integers(0, 3), st.sampled_from([0, 0, 0, 0, 0, 0, 1, -1, 256, -256])),
    st.tuples(st.just("pos"), st.sampled_from([0, 0, 0, 1, -1, 4096])),
)
_prev_end = st.tuples(st.just("end"), st.sampled_from([0, 0, 1, 1, 1, 2, 3]), st.just(0))
_hoffset = st.one_of(*(_w(_offset, 2) + _w(_rel, 1) + _w(_prev_end, 2)))
_nread = st.one_of(st.sampled_from([1, 255, 256, 4096, 32768, 32769, 65536, 100000]), st.integers(1, 70000), st.integers(1, 300))
_nwrite = st.one_of(st.sampled_from([1, 256, 4096, 32768, 32769, 65536]), st.integers(1, 40000), st.integers(1, 300), st.integers(1, 300))
_hcheck = st.tuples(st.just("check"), _h, _algs, _hoffset, _length, _block)
_hop = st.one_of(
    *(
        _w(_hcheck, 3)
        + _w(st.tuples(st.just("read"), _h, _nread), 2)
        + _w(st.tuples(st.just("seek"), _h, _hoffset), 1)
        + _w(st.tuples(st.just("write"), _h, _nwrite, st.integers(0, 255)), 2)
    )
)
# short-read plan of the served handle (applies while a check-file request is served): None | ("cap", k) | ("hash", m, salt, tiny)
_short_plan = st.one_of(
    st.tuples(st.just("cap"), st.sampled_from([256, 1000, 4096, 20000, 32768, 65535])),
    st.tuples(st.just("cap"), st.integers(256, 65535)),
    st.tuples(st.just("hash"), st.sampled_from([1, 1, 2, 3, 5]), st.integers(0, 1000), st.just(False)),
    st.tuples(st.just("hash"), st.sampled_from([3, 5, 10]), st.integers(0, 1000), st.just(True)),
)
_short = st.one_of(*([st.none()] + _w(st.none(), 2) + _w(_short_plan, 2)))
# read-error plan of the served handle (applies while a check-file request is served): None | (kind, position spec, action)
#   kind "bad": a read that covers the byte at `position` fails; kind "from": every read reaching at or beyond `position` fails
#   position spec: ("frac", per-mille of the current file size) | ("abs", n) | ("size", -k)   (clipped to the last byte of the file)
#   action: ("error", SFTP error code) | ("raise", errno)
_fault_pos = st.one_of(
    st.tuples(st.just("frac"), st.integers(0, 999)),
    st.tuples(st.just("frac"), st.integers(300, 999)),
    st.tuples(st.just("abs"), st.sampled_from([0, 1, 255, 256, 65535, 65536, 65537, 131072])),
    st.tuples(st.just("abs"), st.integers(0, 3000)),
    st.tuples(st.just("size"), st.sampled_from([-1, -2, -255, -256, -257, -1000, -65536, -65537])),
)
_fault_act = st.one_of(
    st.tuples(st.just("error"), st.sampled_from([4, 4, 3, 8, 2])),  # FAILURE PERMISSION_DENIED OP_UNSUPPORTED NO_SUCH_FILE
    st.tuples(st.just("error"), st.sampled_from([4, 3])),
    st.tuples(st.just("raise"), st.sampled_from([5, 13])),  # EIO EACCES
)
_fault_plan = st.tuples(st.sampled_from(["bad", "bad", "from"]), _fault_pos, _fault_act)
_fault = st.one_of(*(_w(st.none(), 3) + _w(_fault_plan, 1)))
_plain_case = st.fixed_dictionaries(
    {"size": _file_sizes, "seed": st.integers(0, 255), "mode": st.just("r"), "short": _short, "fault": _fault, "ops": st.lists(_query.map(lambda q: ("check", 0) + tuple(q)), min_size=1, max_size=4)}
)
_history_case = st.fixed_dictionaries(
    {
        "size": _file_sizes,
        "seed": st.integers(0, 255),
        "mode": st.sampled_from(["r", "r+", "r+", "r+", "r+", "w+"]),
        "short": _short,
        "fault": _fault,
        "ops": st.lists(_hop, min_size=4, max_size=10),
    }
)
case_st = st.one_of(*(_w(_plain_case, 1) + _w(_history_case, 2)))


def _resolve(n, size, floor=0):
    kind, v = n
    if kind == "abs":
        r = v
    elif kind == "size":
        r = size + v
    else:
        r = size * v // 1000
    return max(floor, r)


def _content(seed, size):
    return hashlib.shake_256(b"verif-c32-%d" % seed).digest(size) if size else b""


def _wdata(seed, n):
    """Bytes written by a history's write op (aperiodic, different from the file's own stream)."""
    return hashlib.shake_256(b"verif-c32-write-%d" % seed).digest(n)


def _blocks(size, o, l, b):
    end = size if (l == 0 or o + l > size) else o + l
    out = []
    p = o
    while p < end:
        q = min(p + b, end)
        out.append((p, q))
        p = q
    return out


# ----------------------------------------------------------------------------- fault plan = read accounting + livelock guard


class ReadGuard:
    """Read accounting + livelock guard + the case's short-read and read-error plans (active while a check-file request is served)."""

    def __init__(self, size, short=None):
        self.size = size
        self.kill = False
        self.short = short
        self.fault = None  # (kind, absolute position, action) for the request being served, see execute()
        self.n_fault = 0  # reads that failed by plan since begin()
        self.n_short = 0  # short reads (before EOF) handed out since begin()
        self.last_short = 0  # ... while the most recent check-file request was served
        self.begin(0)

    def begin(self, span, checking=False):
        self.reads = 0
        self.eof_run = 0
        self.limit = 20000 + 64 * (span // 256 + 1)
        self.aborted = None
        self.checking = checking
        self.n_short = 0
        self.n_fault = 0

    def _short(self, offset, length):
        sp = self.short
        avail = min(length, self.size - offset)
        if sp is None or not self.checking or avail <= 1:
            return None
        if sp[0] == "cap":
            k = sp[1]
            if k >= avail:
                return None
        else:
            _, m, salt, tiny = sp
            h = zlib.crc32(b"%d:%d:%d" % (offset, length, salt))
            if h % m:
                return None
            h2 = h // m
            k = 1 + h2 % (min(64, avail - 1) if tiny else (avail - 1))
        self.n_short += 1
        return ("short", k)

    def on_read(self, handle, n, offset, length):
        self.reads += 1
        if offset >= self.size:
            self.eof_run += 1
        else:
            self.eof_run = 0
        why = None
        if self.kill:
            why = "harness stop"
        elif self.eof_run > 1000:
            why = "livelock: %d consecutive reads at/after EOF (last: offset %d, length %d; file size %d)" % (self.eof_run, offset, length, self.size)
        elif self.reads > self.limit:
            why = "%d reads for one request (limit %d)" % (self.reads, self.limit)
        if why:
            if self.aborted is None:
                self.aborted = why
            raise sftpenv.HarnessAbortLoop(why)
        act = self._short(offset, length)
        if self.fault is not None and self.checking and length > 0:
            kind, pos, fact = self.fault
            n = min(length, act[1]) if act is not None else length  # what this read would hand out at most
            if (offset <= pos < offset + n) if kind == "bad" else (offset + n > pos):
                if act is not None:
                    self.n_short -= 1
                self.n_fault += 1
                return fact
        return act


# ----------------------------------------------------------------------------- execution

_counter = [0]
_scratch_dir = [None]


def scratch(ctx):
    """Directory for the served files: tmpfs when available (every case writes and removes a file of up to 400 KiB), else
    ctx.tmpdir().  Removed at interpreter exit."""
    if _scratch_dir[0] is None or not os.path.isdir(_scratch_dir[0]):
        import atexit
        import tempfile

        shm = "/dev/shm"
        if os.path.isdir(shm) and os.access(shm, os.W_OK):
            _scratch_dir[0] = tempfile.mkdtemp(prefix="verif-C32-", dir=shm)
            atexit.register(shutil.rmtree, _scratch_dir[0], True)
        else:
            _scratch_dir[0] = ctx.tmpdir()
    return _scratch_dir[0]


def _server_stack(env):
    frames = sys._current_frames()
    out = []
    for th in env.threads_alive():
        fr = frames.get(th.ident)
        if fr is not None:
            out.append("".join(traceback.format_stack(fr)[-4:]))
    return "\n".join(out)


def _one_query(ctx, jcase, env, guard, fh, content, q, qi, hsuffix="", hwhere="", b_sent=None, fault_in_range=False):
    """Returns 'ok' | 'known' | 'dead' (session unusable) | 'late' (backstop hit; caller re-tries).
    ``hsuffix``: root-cause refinement of digest buckets for queries on a handle with a history.
    ``b_sent``: the block size put on the wire when it differs from the effective one in ``q`` (0 = "the whole segment")."""
    from paramiko.ssh_exception import SSHException

    size = len(content)
    algs, o, l, b = q
    if b_sent is None:
        b_sent = b
    whole = b_sent == 0
    if whole:
        hsuffix += ":block-size-0"
    # block size 0 with a segment (the block) shorter than 256 bytes: not a "block size of at least 256 bytes" - any reply will do
    outside = whole and b < 256
    blocks = _blocks(size, o, l, max(b, 1))
    span = (blocks[-1][1] - o) if blocks else 0
    guard.begin(span, checking=True)
    exc = got = None
    t0 = time.time()
    try:
        got = fh.check(algs, o, l, b_sent)
    except (IOError, OSError, SSHException, EOFError) as e:
        exc = e
    elapsed = time.time() - t0
    n_short = guard.last_short = guard.n_short
    guard.checking = False
    if guard.fault is not None:
        hwhere += " [read-error plan: %s position %d fails with %r - %s the requested range; %d reads failed]" % (
            guard.fault[0],
            guard.fault[1],
            guard.fault[2],
            "INSIDE" if fault_in_range else "outside",
            guard.n_fault,
        )
    if n_short:
        hsuffix += ":short-reads"
        hwhere += " [served handle returned %d short reads before EOF, plan %r]" % (n_short, guard.short)
    where = "query %d: check(%r, offset=%d, length=%d, block_size=%d) on a %d-byte file%s" % (qi, algs, o, l, b_sent, size, hwhere)
    past_eof = l > 0 and o + l > size
    # ---- no prompt answer
    log_abort = [x for x in env.server_log if x[1] == "read-loop-abort"]
    if guard.aborted or log_abort:
        if past_eof:
            bucket = "length-runs-past-eof"
        elif blocks and max(q_ - p_ for p_, q_ in blocks) > _KB64:
            bucket = "block-longer-than-64KiB"
        elif l == 0:
            bucket = "length-zero"
        else:
            bucket = "range-inside-file"
        known = ctx.violation("no-answer", bucket, jcase, "%s: server never finishes the request: %s; client saw %r" % (where, guard.aborted or log_abort[-1], exc))
        del env.server_log[:]
        return "known" if known else "dead"
    if exc is not None and isinstance(exc, SSHException) and elapsed >= BACKSTOP_S - 1:
        return "late"
    if exc is not None and isinstance(exc, (SSHException, EOFError)):
        ctx.violation("session-lost", type(exc).__name__, jcase, "%s: %r; server log tail %r" % (where, exc, env.server_log[-3:]))
        return "dead"
    # ---- empty range: any reply will do
    if not blocks:
        if exc is None and got != b"":
            ctx.violation("digest", "empty-range-nonempty-reply" + hsuffix, jcase, "%s: range is empty, reply has %d bytes" % (where, len(got)))
        return "ok"
    if outside:
        ctx.count("block-size-0:segment-shorter-than-256:%s" % ("answered" if exc is None else "refused"))
        return "ok"
    names = [a for a in algs.split(",") if a in SUPPORTED]
    if not names:
        raise AssertionError("generator produced no supported algorithm")
    if fault_in_range:
        # the range holds a position that cannot be read: its hashes cannot be computed
        hsuffix += ":read-error-in-range"
        if exc is not None:
            ctx.count("read-error-in-range:error-reply")
            return "ok"
    if exc is not None:
        text = str(exc)
        return "known" if ctx.violation("error-reply", (text[:40] or type(exc).__name__) + hsuffix, jcase, "%s: %r" % (where, exc)) else "ok"
    exps = {a: b"".join(SUPPORTED[a](content[p:q]).digest() for p, q in blocks) for a in names}
    exp = exps[names[0]]  # the requested hash = the first supported name on the client's list
    if got == exp:
        if fault_in_range:
            ctx.count("read-error-in-range:right-digests-all-the-same")
        return "ok"
    if got in exps.values():
        used = [a for a in names if exps[a] == got][0]
        detail = "%s: the reply holds the %s digests of the range; the first supported name on the list is %s" % (where, used, names[0])
        return "known" if ctx.violation("digest", "later-listed-algorithm-used" + hsuffix, jcase, detail) else "ok"
    dlen = SUPPORTED[names[0]]().digest_size
    longest = max(q - p for p, q in blocks)
    if longest > _KB64:
        bucket = "block-longer-than-64KiB"
    elif len(got) != len(exp):
        bucket = "wrong-digest-count" if len(got) % dlen == 0 else "wrong-digest-length"
    else:
        i = next(k for k in range(len(blocks)) if got[k * dlen : (k + 1) * dlen] != exp[k * dlen : (k + 1) * dlen])
        p, q = blocks[i]
        if i == len(blocks) - 1 and q - p < b and len(blocks) > 1:
            bucket = "last-partial-block"
        elif i == 0:
            bucket = "first-block"
        else:
            bucket = "later-block"
    detail = "%s: %d blocks expected (longest %d bytes), reply %d bytes (expected %d): got %s... expected %s..." % (
        where,
        len(blocks),
        longest,
        len(got),
        len(exp),
        got[:20].hex(),
        exp[:20].hex(),
    )
    return "known" if ctx.violation("digest", bucket + hsuffix, jcase, detail) else "ok"


def _jsonable(x):
    return [_jsonable(y) for y in x] if isinstance(x, (tuple, list)) else x


def _classify_query(classes, size, o, l, b, algs):
    """Geometry classes of one query; returns whether the geometry alone makes it non-trivial."""
    nt = False
    blocks = _blocks(size, o, l, b)
    longest = max([q - p for p, q in blocks] or [0])
    if longest > _KB64:
        classes.add("block>64KiB")
        nt = True
    if l > 0 and o + l > size:
        classes.add("length-past-eof")
        nt = True
    if len(blocks) >= 2 and blocks[-1][1] - blocks[-1][0] < b:
        classes.add("partial-last-block")
        nt = True
    if l == 0:
        classes.add("length-zero")
    if not blocks:
        classes.add("empty-range")
    if len(blocks) >= 2:
        classes.add("multi-block")
    if "," in algs:
        classes.add("alg-list")
        names = algs.split(",")
        sup = [a for a in names if a in SUPPORTED]
        if len(set(sup)) > 1:
            classes.add("alg-list:two-supported:first=" + sup[0])
        if names[0] not in SUPPORTED:
            classes.add("alg-list:unsupported-name-first")
    return nt, blocks


class _HandleState:
    """Harness-side view of one open SFTPFile: position and where its past requests ended."""

    def __init__(self, fh, mode):
        self.fh = fh
        self.mode = mode
        self.pos = 0
        self.hist = []  # (kind, end offset) of the requests this handle has served, oldest first


def execute(ctx, case, _retry=0):
    from paramiko.ssh_exception import SSHException

    size, seed = case["size"], case["seed"]
    if "queries" in case:  # layout of the first generation of this check (committed replays): queries on one read-only handle
        mode = "r"
        ops = [["check", 0] + list(q) for q in case["queries"]]
        jcase = {"size": size, "seed": seed, "queries": _jsonable(case["queries"])}
    else:
        mode = case["mode"]
        ops = _jsonable(case["ops"])
        jcase = {"size": size, "seed": seed, "mode": mode, "ops": ops}
    short = _jsonable(case.get("short"))
    if short is not None:  # (cases of earlier generations of this check carry no plan)
        jcase["short"] = short
    fault = _jsonable(case.get("fault"))
    if fault is not None:
        jcase["fault"] = fault

    model = bytearray(_content(seed, size))
    nontrivial = False
    classes = set()
    classes.add("mode:" + mode)

    _counter[0] += 1
    base = os.path.join(scratch(ctx), "c%d" % _counter[0])
    root = os.path.join(base, "root")
    os.makedirs(root)
    fpath = os.path.join(root, "f")
    with open(fpath, "wb") as f:
        f.write(model)
    guard = ReadGuard(size, short)
    classes.add("short-plan:" + ("none" if short is None else short[0] + (":tiny" if short[0] == "hash" and short[3] else "")))
    classes.add("read-error-plan:" + ("none" if fault is None else "%s:%s" % (fault[0], "raises-OSError" if fault[2][0] == "raise" else "error-code-%d" % fault[2][1])))
    # unbuffered server-side files: a handle must see what was written through another handle
    env = sftpenv.SftpEnv(root, fault_plan=guard, loop_limit=10**12, handle_buffering=0)
    late = None
    handles = {}
    modified = set()  # handles through which the file has been modified
    trace = []
    try:
        env.client_chan.settimeout(BACKSTOP_S)
        handles[0] = _HandleState(env.client.open("/f", mode + "b", 0), mode)
        if "w" in mode:
            del model[:]
            guard.size = 0

        def handle(h):
            if h not in handles:
                m = "r" if mode == "r" else "r+"
                handles[h] = _HandleState(env.client.open("/f", m + "b", 0), m)
                classes.add("second-handle")
            return handles[h]

        def offset_of(spec, hs):
            if spec[0] == "end":
                k, d = spec[1], spec[2]
                base_ = hs.hist[-1 - k][1] if k < len(hs.hist) else hs.pos
                return max(0, base_ + d)
            if spec[0] == "pos":
                return max(0, hs.pos + spec[1])
            return _resolve(spec, len(model))

        qi = 0
        for op in ops:
            kind, h = op[0], op[1]
            hs = handle(h)
            cur = len(model)
            guard.begin(0)
            try:
                if kind == "seek":
                    hs.pos = offset_of(op[2], hs)
                    hs.fh.seek(hs.pos)
                    trace.append("h%d.seek(%d)" % (h, hs.pos))
                    continue
                if kind == "read":
                    data = hs.fh.read(op[2])
                    trace.append("h%d.read(%d)@%d->%d bytes" % (h, op[2], hs.pos, len(data)))
                    hs.pos += len(data)
                    hs.hist.append(("read", hs.pos))
                    classes.add("op:read")
                    continue
                if kind == "write":
                    if "+" not in hs.mode:
                        ctx.count("dropped:write-on-readonly-handle")
                        continue
                    data = _wdata(op[3], op[2])
                    hs.fh.write(data)
                    hs.fh.flush()
                    if hs.pos > len(model):
                        model.extend(bytes(hs.pos - len(model)))
                        classes.add("write:beyond-eof")
                    model[hs.pos : hs.pos + len(data)] = data
                    trace.append("h%d.write(%d bytes)@%d" % (h, len(data), hs.pos))
                    hs.pos += len(data)
                    hs.hist.append(("write", hs.pos))
                    guard.size = len(model)
                    modified.add(h)
                    classes.add("op:write")
                    continue
            except (IOError, OSError, SSHException, EOFError) as e:
                # the history could not be built; whether plain reads/writes work is not this property's business
                ctx.inconc("history-op-failed:%s:%s" % (kind, type(e).__name__))
                break
            # ---- check
            algs = op[2]
            o = offset_of(op[3], hs)
            if op[4][0] == "rem":
                l = max(0, cur - o) * op[4][1] // 1000
            elif op[4][0] == "rem+":
                l = max(0, cur - o) + op[4][1]
            else:
                l = _resolve(op[4], cur)
            if op[5][0] == "whole":
                # block size 0: one block = the requested segment (length bytes, or what follows the offset when length is 0)
                b_sent, b = 0, (l if l > 0 else max(0, cur - o))
                classes.add("block-size-0")
                classes.add("block-size-0:" + ("length-zero" if l == 0 else ("length-past-eof" if o + l > cur else "length-inside-file")))
                if 0 < cur - o < 256:
                    classes.add("block-size-0:less-than-256-bytes-before-eof")
            else:
                b_sent = b = _resolve(op[5], cur, 256)
            geo_nt, blocks = _classify_query(classes, cur, o, l, b, algs)
            nontrivial = nontrivial or geo_nt
            # history of this handle / of the file at the moment of the query
            kinds = [k for k, _ in hs.hist]
            ends = [e for _, e in hs.hist]
            hsuffix = hwhere = ""
            classes.add("check:" + ("fresh-handle" if not kinds else "after-" + kinds[-1]))
            if o in ends:
                classes.add("check:offset=previous-end")
                if o in ends[:-1]:
                    classes.add("check:offset=earlier-end,other-request-between")
                    first = ends.index(o)
                    if "write" in kinds[first + 1 :]:
                        classes.add("check:offset=earlier-end,write-between")
            if modified:
                classes.add("check:file-modified")
                if modified - {h}:
                    classes.add("check:file-modified-through-other-handle")
            if hs.mode != "r":
                classes.add("check:on-%s-handle" % hs.mode)
            if any(k != "check" for k in kinds) or modified:
                if blocks:
                    nontrivial = True
                hsuffix = ":after(%s)%s%s" % (";".join(kinds[-2:]) or "-", "@previous-end" if o in ends else "", ",file-modified" if modified else "")
                hwhere = " [mode %s, handle %d; %s]" % (mode, h, ", ".join(trace[-6:]))
            # read-error plan: where the unreadable position lies at this moment, and whether the requested range holds it
            fault_in_range = False
            guard.fault = None
            if fault is not None and cur > 0:
                fpos = min(cur - 1, _resolve(tuple(fault[1]), cur))
                guard.fault = (fault[0], fpos, tuple(fault[2]))
                if blocks:
                    end = blocks[-1][1]
                    fault_in_range = (o <= fpos < end) if fault[0] == "bad" else (end > fpos)
                if fault_in_range:
                    classes.add("check:read-error-inside-range")
                    classes.add("check:read-error-inside-range:" + ("first-block" if fpos < blocks[0][1] else ("last-block" if fpos >= blocks[-1][0] else "middle-block")))
                    nontrivial = True
                else:
                    classes.add("check:read-error-position-%s-range" % ("outside-empty" if not blocks else ("before" if fpos < o else "after")))
            r = _one_query(ctx, jcase, env, guard, hs.fh, bytes(model), (algs, o, l, b), qi, hsuffix, hwhere, b_sent, fault_in_range)
            guard.fault = None
            trace.append("h%d.check(%d,%d,%d)" % (h, o, l, b))
            qi += 1
            if blocks:
                hs.hist.append(("check", blocks[-1][1]))
            if guard.last_short and blocks:
                classes.add("check:short-server-reads-before-eof")
                nontrivial = True
            if r == "late":
                late = (qi - 1, (algs, o, l, b), _server_stack(env))
                break
            if r == "dead":
                break
        else:
            # the model the digests were judged against is what the disk holds (harness self-check)
            if modified:
                for hs in handles.values():
                    hs.fh.flush()
                with open(fpath, "rb") as f:
                    disk = f.read()
                if disk != bytes(model):
                    ctx.inconc("model-differs-from-served-file")
        if late is None:
            for hs in handles.values():
                try:
                    hs.fh.close()
                except Exception:
                    pass
    finally:
        guard.kill = True
        env.close()
        alive = env.threads_alive()
        shutil.rmtree(base, ignore_errors=True)
        if _retry == 0:
            ctx.case(jcase, nontrivial, sorted(classes))
    if alive:
        raise RuntimeError("sftpenv server thread did not stop: %s" % _server_stack(env))
    if late is not None:
        # time-based verdict: re-try the same case twice (single process) before believing it
        if _retry < 2:
            ctx.count("backstop-timeout-retried")
            return execute(ctx, case, _retry + 1)
        qi, q, stack = late
        ctx.violation("no-answer", "stall-without-reads", jcase, "query %d %r: no reply within %.0f s in 3 runs; server thread at:\n%s" % (qi, q, BACKSTOP_S, stack))


def _explore_in_slices(ctx, strategy, body, total, shrink, slice_size=400):
    """ctx.explore in slices (own seed offset each), so that after a budget hit the run ends within one
    slice instead of letting hypothesis generate thousands of cases that are skipped."""
    done = k = 0
    while done < total and not ctx.out_of_time():
        n = min(slice_size, total - done)
        ctx.explore(strategy, body, n, shrink=shrink, seed_offset=k)
        done += n
        k += 1


def run(ctx):
    ctx.set_budget(70, 850)
    _explore_in_slices(ctx, case_st, lambda c: execute(ctx, c), ctx.scale(1500, 30000), shrink=True, slice_size=1500)


def replay(ctx, case):
    execute(ctx, case)
