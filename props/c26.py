"""C26 - BufferedPipe is a lossless FIFO with correct close/timeout rules.

Engine: vlib.sched (deterministic baton scheduler, cooperative Lock/Condition replacing
``BufferedPipe._lock/_cv``, virtual clock patched into ``paramiko.buffered_pipe.time``).

Domain: <= 3 tasks x <= 4 operations from feed(1-6 bytes, globally distinct byte values),
read(n>=1, timeout in {None, 0, 0.5, 2}), empty(), close(), read_ready(), len(), sleep(d)
(passage of time); task roles: mixed / pure consumer / pure producer / "life after close" (<=2 ops, close,
1-5 further ops incl. feeds after close, reads with every timeout kind on the closed pipe - drained or
not -, empty, a second close, observers) / post-close ops only; schedule = generated preemption list (quick) or all schedules with
<= k preemptions of every 2-task program over a small alphabet (thorough).

Oracle: linearisation = order of each operation's *last* acquisition of the pipe lock
(every operation does its effect inside one lock-hold segment; a waiting read in its last
one).  A sequential model (bytes buffer + closed flag) is run in that order:
  * data returned by read/empty must be a non-empty prefix (<= n for read) of the model
    buffer -> together with the final "remaining buffer == model buffer" check this is
    concat(read+emptied)+remaining == concat(fed) in order;
  * read returns b"" only if the model is closed and drained;
  * PipeTimeout only for timed reads and only if the model buffer is empty at that point;
  * a read that finds the model closed and drained and never parked on the condition returns b"" (it must
    not raise PipeTimeout: "once closed and drained a read returns empty"); data fed after close is part of
    the stream like any other (the pipe accepts it): it must come back through read/empty, in order;
  * read_ready()/len() agree with the model;
  * deadlock only if every unfinished task sits in read(timeout=None) and the model is
    open and empty (otherwise: lost wake-up);  step budget exceeded = does not terminate.
"""
from hypothesis import strategies as st

from vlib import sched as S
from vlib.core import HarnessError

PROPERTY = "C26"
LEVEL = "exploration"
THOROUGH_WORKERS = 16
RULE = (
    "programs of 1-3 tasks (role mixed / pure consumer / pure producer x 1-4 ops; role life-after-close: <=2 ops, close, then 1-5 of feed / "
    "read with timeout None,0,0.5,2 / empty / close / observers on the closed pipe; role post-close ops only) over feed 1-6 distinct bytes / "
    "read(n,timeout in None,0,0.5,2) / empty / close / read_ready / len / sleep, run on the real BufferedPipe under the deterministic scheduler with a generated "
    "preemption list (<=4 preemptions + forced picks, lock-level and optionally line-level switch points) and, in "
    "thorough, depth-first enumeration of all schedules with <=3 preemptions for every 2-task program with <=3 / <=2 ops "
    "over a 7-op alphabet; non-trivial = >=2 tasks performed pipe operations and a waiting reader was woken "
    "(by feed, close or a fired timeout); distinct by SHA-1 of (program, schedule)"
)

TIMEOUTS = [None, 0.0, 0.5, 2.0]

op_st = st.one_of(
    st.tuples(st.just("feed"), st.integers(1, 6)),
    st.tuples(st.just("read"), st.integers(1, 8), st.sampled_from(TIMEOUTS)),
    st.tuples(st.just("read"), st.integers(1, 8), st.sampled_from(TIMEOUTS)),
    st.tuples(st.just("empty")),
    st.tuples(st.just("close")),
    st.tuples(st.just("ready")),
    st.tuples(st.just("len")),
    st.tuples(st.just("sleep"), st.sampled_from([0.25, 1.0, 3.0])),
)

# task roles: mixed (any op), pure consumer (read / empty only), pure producer (feed / close / passage of time).  Several
# consumers sharing what one producer feeds is the situation in which a woken reader finds the data already taken.
consumer_op = st.one_of(
    st.tuples(st.just("read"), st.integers(1, 8), st.sampled_from([None, None, 0.5, 2.0, 0.0])),
    st.tuples(st.just("read"), st.integers(1, 8), st.sampled_from([None, None, 0.5, 2.0, 0.0])),
    st.tuples(st.just("empty")),
)
producer_op = st.one_of(
    st.tuples(st.just("feed"), st.integers(1, 6)),
    st.tuples(st.just("feed"), st.integers(1, 6)),
    st.tuples(st.just("close")),
    st.tuples(st.just("sleep"), st.sampled_from([0.25, 1.0, 3.0])),
)
# "life after close": a task that closes the pipe in the middle of its history and goes on using it - feeds that arrive after
# close (the pipe accepts them), reads with every kind of timeout on the closed pipe (drained or not, drained by an earlier
# read or never filled), empty(), observers, a second close.  The object carries state across these calls.
pre_close_op = st.one_of(
    st.tuples(st.just("feed"), st.integers(1, 6)),
    st.tuples(st.just("feed"), st.integers(1, 6)).map(lambda v: v),
    st.tuples(st.just("read"), st.integers(1, 8), st.sampled_from([0.0, 0.5, 2.0, None])),
    st.tuples(st.just("empty")),
)
post_close_op = st.one_of(
    st.tuples(st.just("feed"), st.integers(1, 6)),
    st.tuples(st.just("read"), st.integers(1, 8), st.sampled_from(TIMEOUTS)),
    st.tuples(st.just("read"), st.integers(1, 8), st.sampled_from(TIMEOUTS)).map(lambda v: v),
    st.tuples(st.just("read"), st.integers(1, 8), st.sampled_from(TIMEOUTS)).map(lambda v: (v[0], v[1], v[2])),
    st.tuples(st.just("empty")),
    st.tuples(st.just("close")),
    st.tuples(st.just("ready")),
    st.tuples(st.just("len")),
)
lifecycle_task = st.tuples(st.lists(pre_close_op, max_size=2), st.lists(post_close_op, min_size=1, max_size=5)).map(
    lambda t: list(t[0]) + [("close",)] + list(t[1])
)
task_st = st.one_of(
    st.lists(op_st, min_size=1, max_size=4),
    st.lists(op_st, min_size=1, max_size=4).map(lambda v: v),
    st.lists(consumer_op, min_size=1, max_size=3),
    st.lists(producer_op, min_size=1, max_size=3),
    lifecycle_task,
    st.lists(post_close_op, min_size=1, max_size=4),
)

case_st = st.fixed_dictionaries(
    {
        "tasks": st.lists(task_st, min_size=1, max_size=3),
        "sched": S.schedule_strategy(max_pre=4, max_gap=40, max_forced=12),
        "trace": st.booleans(),
    }
)

LOCK = "pipe._lock"


def _payloads(tasks):
    """feed payloads: globally distinct byte values 1,2,3.. in task-major order."""
    out = {}
    nxt = 1
    for ti, ops in enumerate(tasks):
        for oi, op in enumerate(ops):
            if op[0] == "feed":
                out[(ti, oi)] = bytes(range(nxt, nxt + op[1]))
                nxt += op[1]
    return out


def run_program(tasks, strategy, trace):
    """Execute; returns (result, records, pipe). records[ti] = list of dicts per started op."""
    from paramiko import buffered_pipe as BP

    s = S.Scheduler(strategy, trace_files=({BP.__file__: None} if trace else None), max_steps=6000)
    p = BP.BufferedPipe()
    got = S.coopify(s, p, prefix="pipe.")
    if sorted(got) != ["_cv", "_lock"]:
        raise HarnessError("BufferedPipe primitives changed: %r" % (got,))
    pay = _payloads(tasks)
    records = [[] for _ in tasks]

    def mk(ti, ops):
        def body():
            for oi, op in enumerate(ops):
                rec = {"op": op, "start": len(s.log), "end": None, "out": None, "t": ti, "i": oi}
                records[ti].append(rec)
                kind = op[0]
                try:
                    if kind == "feed":
                        rec["data"] = pay[(ti, oi)]
                        p.feed(rec["data"])
                        rec["out"] = ("ok",)
                    elif kind == "read":
                        try:
                            rec["out"] = ("data", p.read(op[1], op[2]))
                        except BP.PipeTimeout:
                            rec["out"] = ("timeout",)
                    elif kind == "empty":
                        rec["out"] = ("data", p.empty())
                    elif kind == "close":
                        p.close()
                        rec["out"] = ("ok",)
                    elif kind == "ready":
                        rec["out"] = ("val", p.read_ready())
                    elif kind == "len":
                        rec["out"] = ("val", len(p))
                    elif kind == "sleep":
                        s.sleep(op[1])
                        rec["out"] = ("ok",)
                    else:
                        raise HarnessError("bad op %r" % (op,))
                except S.HarnessAbort:
                    raise
                except HarnessError:
                    raise
                except BaseException as e:
                    rec["out"] = ("raised", type(e).__name__, repr(e))
                rec["end"] = len(s.log)
            return None

        return body

    for ti, ops in enumerate(tasks):
        s.spawn("t%d" % ti, mk(ti, ops))
    with S.patch_time(s, BP):
        res = s.run()
    for name, info in res.tasks.items():
        if info.exc is not None:
            if isinstance(info.exc, HarnessError):
                raise info.exc
            raise HarnessError("task %s died: %s" % (name, info.tb))
    return res, records, p


def _lin_point(log, rec, tname):
    end = rec["end"] if rec["end"] is not None else len(log)
    for i in range(end - 1, rec["start"] - 1, -1):
        ev = log[i]
        if ev[0] == "acq" and ev[1] == tname and ev[2] == LOCK:
            return i
    return None


def _opname(op):
    if op[0] == "read":
        return "read(timeout=%s)" % ("None" if op[2] is None else ("0" if op[2] == 0 else ">0"))
    return op[0]


def judge(res, records, pipe):
    """Returns (violations [(clause, bucket, detail)], classes set, nontrivial)."""
    log = res.log
    viol = []
    classes = set()
    done = []
    pending = []
    for ti, recs in enumerate(records):
        for rec in recs:
            if rec["op"][0] == "sleep":
                continue
            if rec["out"] is None:
                pending.append(rec)
                continue
            lp = _lin_point(log, rec, "t%d" % ti)
            if rec["out"][0] == "raised":
                viol.append(("unexpected-exception", "%s:%s" % (_opname(rec["op"]), rec["out"][1]), "task %d op %d %r" % (ti, rec["i"], rec["out"])))
                continue
            if lp is None:
                # the operation took no pipe lock at all (never the case in the unchanged code): whatever it did happened
                # before it returned - linearise it at its return instead of giving up (a harness error would hide what
                # the sequential model has to say about it)
                if rec["op"][0] in ("ready", "len"):
                    # an observer that reads without the lock may see the middle of somebody's critical section: its value
                    # has no single place in the lock order, and the statement does not ask for one
                    classes.add("observer-without-pipe-lock(not-judged)")
                    continue
                lp = rec["end"] - 0.5
                classes.add("op-without-pipe-lock(linearised-at-return)")
            done.append((lp, rec))
    done.sort(key=lambda x: x[0])
    buf = b""
    closed = False
    late = False  # something was fed after close
    for lp, rec in done:
        op = rec["op"]
        out = rec["out"]
        kind = op[0]
        where = "t%d.%d %s" % (rec["t"], rec["i"], list(op))
        if kind == "feed":
            buf += rec["data"]
            if closed:
                classes.add("feed-after-close")
                late = True
        elif kind == "close":
            if closed:
                classes.add("close-again")
            closed = True
        elif kind in ("read", "empty"):
            if closed:
                classes.add("%s-after-close:%s" % (_opname(op), "drained" if not buf else "data-buffered"))
            if out[0] == "timeout":
                classes.add("pipe-timeout")
                if op[2] is None:
                    viol.append(("timeout-raised", "untimed-read", where))
                elif len(buf) > 0:
                    how = "timeout=0" if op[2] == 0 else ("after-wait" if _wake_kind(log, rec) != "none" else "without-waiting")
                    viol.append(("timeout-with-data", how, "%s raised PipeTimeout while %d bytes were buffered" % (where, len(buf))))
                elif closed and not _waited(log, rec):
                    # close rule: a read that finds the pipe closed and drained reports end-of-stream (b"") at once; only a read
                    # that was already waiting when the pipe was closed may still see its own deadline first
                    viol.append(("closed-drained-read", "timeout-instead-of-eof:%s" % _opname(op), "%s raised PipeTimeout on a closed, drained pipe without having waited" % where))
                continue
            d = out[1]
            if not isinstance(d, bytes):
                viol.append(("result-type", kind, "%s returned %r" % (where, d)))
                continue
            if kind == "read":
                if len(d) == 0:
                    if len(buf) > 0:
                        viol.append(("empty-read", "data-buffered", "%s returned b'' with %d bytes buffered" % (where, len(buf))))
                    elif not closed:
                        viol.append(("empty-read", "open", "%s returned b'' on an open pipe" % where))
                    else:
                        classes.add("read-eof")
                    continue
                if len(d) > op[1]:
                    viol.append(("read-size", "more-than-nbytes", "%s returned %d bytes" % (where, len(d))))
            if closed and late and len(d) > 0 and buf[: len(d)] == d:
                classes.add("data-read-back-after-late-feed")
            if buf[: len(d)] != d:
                bucket = "invented" if not buf else "reordered-or-lost"
                viol.append(("fifo", "%s:%s" % (kind, bucket), "%s returned %s, model buffer %s" % (where, d.hex(), buf.hex())))
                # resynchronise on what is left to avoid cascades
                buf = bytes(x for x in buf if x not in d)
            else:
                buf = buf[len(d):]
            if kind == "empty" and len(d) == 0:
                classes.add("empty-on-empty")
        elif kind == "ready":
            if bool(out[1]) != (len(buf) > 0):
                viol.append(("observer", "read_ready", "%s returned %r, model has %d bytes" % (where, out[1], len(buf))))
        elif kind == "len":
            if out[1] != len(buf):
                viol.append(("observer", "len", "%s returned %r, model has %d bytes" % (where, out[1], len(buf))))
    try:
        remaining = bytes(pipe._buffer)
    except Exception as e:  # the buffer is no longer a byte container: nothing the model can be compared with
        viol.append(("fifo", "final-buffer-unreadable", "bytes(pipe._buffer) raised %r" % (e,)))
        remaining = buf
    if remaining != buf and not any(v[0] == "fifo" for v in viol):
        viol.append(("fifo", "final-buffer", "remaining buffer %s, model %s" % (remaining.hex(), buf.hex())))
    flag = getattr(pipe, "_closed", None)  # observation only: absent -> the read/timeout clauses above carry the close rules
    if flag is not None and bool(flag) != closed:
        viol.append(("close", "flag", "pipe._closed=%r model=%r" % (flag, closed)))
    # termination
    if res.outcome == "deadlock":
        classes.add("deadlock")
        for rec in pending:
            op = rec["op"]
            if not (op[0] == "read" and op[2] is None):
                viol.append(("deadlock", "stuck-in-%s" % _opname(op), "waits=%r" % (res.waits,)))
            elif len(buf) > 0:
                viol.append(("deadlock", "reader-stuck-with-data", "read(None) blocked with %d bytes buffered; waits=%r" % (len(buf), res.waits)))
            elif closed:
                viol.append(("deadlock", "reader-stuck-on-closed", "read(None) blocked on a closed pipe; waits=%r" % (res.waits,)))
            else:
                classes.add("legit-blocked-reader")
        if not pending:
            raise HarnessError("deadlock without a pending operation: %r" % (res.waits,))
    elif res.outcome == "budget":
        viol.append(("no-termination", "step-budget", "more than %d yield points; waits=%r" % (res.steps, res.waits)))
    elif res.outcome != "ok":
        raise HarnessError("scheduler outcome %r" % res.outcome)
    # classes / non-trivial
    woken = [ev for ev in log if ev[0] == "woken"]
    by_notify = sum(1 for ev in woken if ev[3])
    by_timeout = sum(1 for ev in woken if not ev[3])
    if by_notify:
        classes.add("waiter-woken-by-notify")
    if by_timeout:
        classes.add("waiter-woken-by-timeout")
    if _notified_for_nothing(log):
        # the two-consumer situation: a reader was notified (feed/close) but somebody else (another reader, empty())
        # had taken the data before it got the lock back, so it had to wait again / time out / see EOF
        classes.add("notified-reader-found-buffer-empty")
    readers = sum(1 for recs in records if any(r["op"][0] in ("read", "empty") for r in recs))
    feeders = sum(1 for recs in records if any(r["op"][0] == "feed" for r in recs))
    if readers >= 2 and feeders >= 1:
        classes.add("consumers>=2+feeder")
    touching = sum(1 for recs in records if any(r["op"][0] != "sleep" for r in recs))
    nontrivial = touching >= 2 and bool(woken)
    # a reader that was notified, and the clock moved before it re-acquired the lock
    if _clock_moved_after_notify(log):
        classes.add("clock-advanced-between-notify-and-reacquire")
    if res.switched_in(lambda tag: tag[0] == "line" and tag[2] == "read"):
        classes.add("preempted-inside-read")
    if res.switched_in(lambda tag: tag[0] in ("acquire", "release")):
        classes.add("preempted-at-lock-op")
    classes.add("tasks=%d" % len(records))
    return viol, classes, nontrivial


def _wake_kind(log, rec):
    end = rec["end"] if rec["end"] is not None else len(log)
    name = "t%d" % rec["t"]
    for i in range(end - 1, rec["start"] - 1, -1):
        ev = log[i]
        if ev[0] == "woken" and ev[1] == name:
            return "notify" if ev[3] else "timer"
    return "none"


def _waited(log, rec):
    """The operation parked on the pipe's condition at least once."""
    end = rec["end"] if rec["end"] is not None else len(log)
    name = "t%d" % rec["t"]
    return any(ev[0] == "wait" and ev[1] == name for ev in log[rec["start"] : end])


def _notified_for_nothing(log):
    """A task was woken by a notify and, having re-acquired the pipe lock, waited again on the condition (the
    data it was woken for was gone) - judged on the lock/condition events only."""
    state = {}
    for ev in log:
        if ev[0] == "woken":
            state[ev[1]] = "notified" if ev[3] else None
        elif ev[0] == "wait" and state.get(ev[1]) == "notified":
            return True
        elif ev[0] == "rel" and ev[2] == LOCK:
            state[ev[1]] = None
    return False


def _clock_moved_after_notify(log):
    notified = set()
    for ev in log:
        if ev[0] == "woken" and ev[3]:
            notified.add(ev[1])
        elif ev[0] == "acq" and ev[1] in notified:
            notified.discard(ev[1])
        elif ev[0] == "timeout" and notified:
            return True
    return False


def execute(ctx, case, strategy=None):
    tasks = [[tuple(op) for op in t] for t in case["tasks"]]
    strat = strategy if strategy is not None else S.strategy_from_case(case["sched"])
    res, records, pipe = run_program(tasks, strat, bool(case.get("trace")))
    viol, classes, nontrivial = judge(res, records, pipe)
    ctx.case(case, nontrivial, sorted(classes))
    for clause, bucket, detail in viol:
        ctx.violation(clause, bucket, case, detail + " | outcomes=%r" % ([[r["out"] for r in recs] for recs in records],))
    return res


# ----------------------------------------------------------------------------- thorough: bounded-preemption enumeration

ALPHABET = [
    ("feed", 2),
    ("read", 1, None),
    ("read", 4, 0.5),
    ("read", 4, 2.0),
    ("read", 1, 0.0),
    ("empty",),
    ("close",),
]


def _seqs(max_ops):
    seqs = []

    def rec(prefix):
        if prefix:
            seqs.append(list(prefix))
        if len(prefix) < max_ops:
            for a in ALPHABET:
                rec(prefix + [a])

    rec([])
    return seqs


def _programs(max_a, max_b):
    """All 2-task programs {A, B} with len(A) <= max_a, len(B) <= max_b (max_b <= max_a), each
    unordered pair once."""
    sa = _seqs(max_a)
    sb = _seqs(max_b)
    index = {repr(x): i for i, x in enumerate(sa)}
    progs = []
    for i, a in enumerate(sa):
        for b in sb:
            if len(a) <= max_b and index[repr(b)] < i:
                continue  # the mirrored pair is enumerated elsewhere
            progs.append([a, b])
    return progs


def run_dfs(ctx, programs, k, limit_per_program, count_schedules):
    complete = True
    for prog in programs:
        if ctx.out_of_time():
            complete = False
            break

        def one(strategy, prog=prog):
            case = {"tasks": prog, "sched": {"dfs": None}, "trace": False}
            res, records, pipe = run_program([[tuple(op) for op in t] for t in prog], strategy, False)
            case["sched"] = {"dfs": [t[2] for t in strategy.trace]}
            viol, classes, nontrivial = judge(res, records, pipe)
            ctx.case(case, nontrivial, sorted(classes) + ["dfs-schedule"])
            for clause, bucket, detail in viol:
                ctx.violation(clause, bucket, case, detail)
            return None

        gen = S.enumerate_schedules(one, k, limit=limit_per_program)
        n = 0
        while True:
            try:
                next(gen)
                n += 1
            except StopIteration as e:
                if not e.value:
                    complete = False
                    ctx.inconc("dfs-program-truncated")
                break
        ctx.count(count_schedules, n)
        ctx.count("dfs-programs")
    return complete


def run(ctx):
    ctx.set_budget(60, 840)
    ctx.assume("virtual clock: time advances only when the scheduler fires the earliest pending timeout; a notified waiter may be delayed arbitrarily before re-acquiring the lock")
    ctx.explore(case_st, lambda c: execute(ctx, c), ctx.scale(4000, 40000))
    if ctx.tier == "thorough":
        progs = _programs(3, 2)
        mine = progs[ctx.worker :: ctx.nworkers]
        ok = run_dfs(ctx, mine, 3, 200000, "dfs-schedules-k3")
        ctx.exhaustive = bool(ok)
        ctx.note(
            "dfs_domain",
            "all %d unordered 2-task programs with <=3 and <=2 ops over the %d-op alphabet, every schedule with <=3 preemptions, lock-level switch points"
            % (len(progs), len(ALPHABET)),
        )
    else:
        # a small slice of the enumeration so that the DFS path is exercised in quick too
        progs = _programs(2, 2)
        step = max(1, len(progs) // 12)
        run_dfs(ctx, progs[(ctx.seed % step) :: step][:12], 2, 400, "dfs-schedules-k2")


def replay(ctx, case):
    execute(ctx, case)
