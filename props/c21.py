"""C21 - channel byte streams arrive intact, in order and on the right stream; combine_stderr
(also switched on mid-transfer) moves stderr into stdout without loss; the exit status sent is the one
reported.

Engine E3: two production transports on the in-memory link (cipher, MAC, compression drawn; the
link's recv fragmentation drawn). 1-8 session channels are open at the same time; local and remote
channel ids are made to differ by 0-3 refused server->client opens before (each consumes a server-side
id only). Per channel: direction, independent payloads for stdout and stderr (0..512 KiB, expanded
from a drawn seed), a cyclic (stream, chunk size) send pattern executed by one sender thread with
sendall / sendall_stderr, then send_exit_status (server->client channels) and shutdown_write; two
reader threads with their own cyclic read-size patterns; combine_stderr none / before the transfer /
switched on by the main thread once half of the channel's bytes were read.
Per-direction limits (round 3): the server transport's default window / maximum packet size (what the server end advertises) and the
window / maximum packet size the client asks for per channel in open_session are drawn independently (packet 4096..2^20, window
32768..2 MiB), so the two directions of a channel have different maximum packet sizes and windows, and writes larger than the smaller
limit travel towards the end that advertised the larger one (classes max-packet:*).
Size regime "jumbo" (round 4, a quarter of the channels): the receiving end advertises a maximum packet size above 256 KiB (300000 /
512 KiB / 1 MiB; for client->server channels through the server transport's default) and a window that holds such a message, one
stream carries 256 KiB .. 512 KiB and the send pattern starts with a single write of 256 KiB .. 512 KiB: chunk sizes go up to the
whole payload, so single CHANNEL_DATA / EXTENDED_DATA messages of more than 256 KiB travel (with and without compression, across
rekeys; classes message-size:*, write-size:*).
0-2 renegotiate_keys()
calls (either side, one at a time: a client round trip under the new keys follows each, so that BOTH sides are through before
the next one starts) while the transfers run. Channels are only closed after the
rekeys have finished (the transports are shut down at the end of the case), which keeps the
transport-thread-reply findings of C11 out of this check.

Oracle per channel:
  no combining    recv stream == stdout bytes sent; recv_stderr stream == stderr bytes sent
  combine (start) recv stream == the sender's calls concatenated in call order (= wire order of
                  the channel); recv_stderr stream empty
  combine (mid)   payload bytes are tagged per stream (high bit): stdout-tagged bytes of the recv stream ==
                  stdout sent; (recv_stderr stream) ++ (stderr-tagged bytes of the recv stream) == stderr sent,
                  i.e. what was buffered moved over, in order, nothing lost or duplicated
  exit status     recv_exit_status() == the value passed to send_exit_status
E4 complement "e4combine" (vlib.sched + vlib.chanbench): the real Channel on a fake transport; a transport task
feeds DATA / EXTENDED_DATA(1) through the real handlers, an application task calls set_combine_stderr(True); the
interleaving (lock operations and every source line of set_combine_stderr / _feed_extended / _feed) is a generated,
deterministic schedule; optional reader tasks. Same combine (mid) oracle.
Family "handler" (data produced on the transport thread): a harness ServerInterface whose check_channel_exec /
shell / subsystem / env / pty / window-change handler writes a generated script to the channel from inside the
handler - i.e. on the server's transport thread, as one-shot "commands" answered straight from the callback do:
2-8 sendall / sendall_stderr chunks, optionally send_exit_status, then nothing / shutdown_write / close - on 1-2
channels, with the client's request (a) not near any re-exchange, (b) crossing a re-exchange started by the server
(forced with the held link as in props/c11.py: the requests wait on the link, the server's renegotiate_keys() puts
its KEXINIT on the wire, the client's KEXINIT queues up behind the requests, then everything is released: the handler
runs between the server's KEXINIT and NEWKEYS and everything it writes is held back until NEWKEYS), (c) followed on
the link by a KEXINIT of the client, (d) racing an unforced server re-exchange. After the exchange and a sentinel
round trip the client application reads both streams with generated sizes. Oracle: the no-combining / combine (start)
stream oracles above (combine (start): the recv stream is the handler's calls in call order) and the exit status.
Bytes that never arrive: no byte moves anywhere for 20 s while all readers are blocked in recv, in three
independent runs of the same case (handler family: the requests / the re-exchange / the sentinel do not finish
within 20 s, three times).
"""
import hashlib
import itertools
import socket
import threading
import time

from hypothesis import strategies as st

from vlib import chanbench as CB
from vlib import peers
from vlib import sched as S

PROPERTY = "C21"
LEVEL = "exploration"
RULE = (
    "1-8 concurrent channels x direction x per-stream payload 0..512 KiB (seeded) x send chunk pattern (1..100000) x read size "
    "patterns x combine_stderr none/start/mid (stderr being read)/mid-unread (stderr not read before the switch) x exit status 0..2^32-1 x 0-2 renegotiate_keys during transfer x compression on/off x "
    "cipher x MAC x link fragmentation x 0-3 id offset between the two sides x server-end default window {2 MiB,32768,100000} / max packet "
    "{32768,4096,8192,65536} x per-channel client-end window {2 MiB,32768,65536} / max packet {32768,4096,5000,65536,2^20} (different limits per "
    "direction) x size regime normal|jumbo (1 in 4 channels: receiving end's max packet 300000|2^19|2^20, window >= 600000, one stream of 256..512 KiB, "
    "first write 262144|262145|300000|400000|524288 bytes = single messages above 256 KiB); non-trivial = >= 2 channels or a rekey or a mid-transfer "
    "combine; distinct by the whole case. E4 e4combine: <= 5 DATA/EXTENDED_DATA feeds || set_combine_stderr(True) || optional readers under "
    "the deterministic scheduler (line-level switch points), non-trivial = >= 2 stderr feeds. handler: 1-2 channels x request kind "
    "exec|shell|subsystem|env|pty|window-change whose server-side handler writes 2-8 stdout/stderr chunks (1..40000 bytes), exit status "
    "(or none) and nothing|shutdown_write|close from inside the callback (transport thread) x re-exchange none | started by the server and "
    "crossed by the request (forced with the held link) | client KEXINIT right behind the request | unforced server re-exchange x "
    "combine_stderr none|start x read sizes; non-trivial = a handler wrote >= 2 messages to one channel"
)

TO = 30.0
STALL = 20.0
CIPHERS = ["aes128-ctr", "aes256-ctr", "aes128-cbc", "3des-cbc", "aes128-gcm@openssh.com", "aes256-gcm@openssh.com"]
MACS = ["hmac-sha2-256", "hmac-sha2-512", "hmac-sha2-256-etm@openssh.com", "hmac-sha1"]
LOW = bytes(range(128))
HIGH = bytes(range(128, 256))
_T = {0: bytes((b & 0x7F) for b in range(256)), 1: bytes((b | 0x80) for b in range(256))}


def payload(seed, stream, n, tagged):
    raw = hashlib.shake_128(b"verif-c21-%d-%d" % (seed, stream)).digest(n) if n else b""
    return raw.translate(_T[stream]) if tagged else raw


def plan_chunks(n_out, n_err, pattern):
    left = [n_out, n_err]
    out = []
    i = 0
    while left[0] > 0 or left[1] > 0:
        k, size = pattern[i % len(pattern)]
        i += 1
        if left[k] <= 0:
            k = 1 - k
        size = max(1, min(size, left[k]))
        out.append((k, size))
        left[k] -= size
    return out


class Chan:
    def __init__(self, idx, spec):
        self.idx = idx
        self.spec = spec
        self.tagged = spec["combine"] != "none"
        self.data = [payload(spec["seed"], 0, spec["out"], self.tagged), payload(spec["seed"], 1, spec["err"], self.tagged)]
        self.chunks = plan_chunks(spec["out"], spec["err"], spec["pattern"])
        self.total = spec["out"] + spec["err"]
        self.tx = 0
        self.rx = [0, 0]
        self.got = [[], []]
        self.res = {}
        self.combined = not spec["combine"].startswith("mid")
        self.go_err = threading.Event()
        if spec["combine"] != "mid-unread":
            self.go_err.set()
        self.schan = self.rchan = None
        self.small_window = False

    def sender(self):
        pos = [0, 0]
        try:
            for k, size in self.chunks:
                piece = self.data[k][pos[k] : pos[k] + size]
                pos[k] += size
                (self.schan.sendall if k == 0 else self.schan.sendall_stderr)(piece)
                self.tx += size
            if self.spec["dir"] == "s2c":
                self.schan.send_exit_status(self.spec["status"])
            self.schan.shutdown_write()
            self.res["sender"] = "done"
        except Exception as e:
            self.res["sender"] = "error: %r" % (e,)

    def reader(self, k):
        f = self.rchan.recv if k == 0 else self.rchan.recv_stderr
        sizes = self.spec["reads"] if k == 0 else self.spec["ereads"]
        i = 0
        try:
            if k == 1:
                self.go_err.wait()  # "mid-unread": the application has not touched stderr before it switches combining on
            while True:
                b = f(sizes[i % len(sizes)])
                i += 1
                if not b:
                    break
                self.got[k].append(b)
                self.rx[k] += len(b)
            self.res[k] = "eof"
        except Exception as e:
            self.res[k] = "error: %r" % (e,)


def _limit_classes(case):
    """Per channel: how the two directions' maximum packet sizes relate, and whether writes bigger than the smaller limit travel
    towards the end that advertised the bigger one."""
    out = []
    srv_p = max(4096, case.get("srv_p") or 32768)
    for c in case["chans"]:
        cli_p = max(4096, c.get("cp") or 32768)
        if cli_p == srv_p:
            out.append("max-packet:same-both-directions")
            continue
        out.append("max-packet:%s-end-advertises-less" % ("client" if cli_p < srv_p else "server"))
        small = min(cli_p, srv_p)
        to_big_end = (c["dir"] == "c2s") == (cli_p < srv_p)  # receiver is the end with the bigger limit
        if to_big_end and (c["out"] + c["err"]) > small and any(size > small for _, size in c["pattern"]):
            out.append("max-packet:writes-above-the-smaller-limit-towards-the-end-with-the-bigger-one")
        if (c.get("cw") or 2097152) != (case.get("srv_w") or 2097152):
            out.append("window:differs-per-direction")
    return out


def _message_classes(case):
    """Size regime: the largest single CHANNEL_DATA / EXTENDED_DATA message a channel's plan produces = the largest write, limited
    by what the receiving end advertised (maximum packet size - 64, window)."""
    out = []
    srv_p = max(4096, case.get("srv_p") or 32768)
    for c in case["chans"]:
        rcv_p = max(4096, c.get("cp") or 32768) if c["dir"] == "s2c" else srv_p
        rcv_w = max(32768, (c.get("cw") if c["dir"] == "s2c" else case.get("srv_w")) or 2097152)
        if rcv_p > 262144:
            out.append("max-packet:receiving-end-advertises-more-than-256KiB")
        writes = [size for _, size in plan_chunks(c["out"], c["err"], c["pattern"])]
        biggest = min(max(writes), rcv_p - 64, rcv_w) if writes else 0
        if max(writes or [0]) > 262144:
            out.append("write-size:single-write-above-256KiB")
        if biggest > 262144:
            out.append("message-size:single-message-above-256KiB" + (":compressed" if case["compress"] else ""))
        elif biggest > 32768:
            out.append("message-size:single-message-32KiB..256KiB")
    return out


def run_case(ctx, case):
    nontrivial = len(case["chans"]) >= 2 or bool(case["rekeys"]) or any(c["combine"].startswith("mid") for c in case["chans"])
    classes = ["chans=%d" % len(case["chans"]), "rekeys=%d" % len(case["rekeys"]), "compress=%s" % case["compress"], "cipher=" + case["cipher"], "mac=" + case["mac"]]
    classes += sorted(set("combine=" + c["combine"] for c in case["chans"])) + sorted(set("dir=" + c["dir"] for c in case["chans"]))
    classes += sorted(set(_limit_classes(case))) + sorted(set(_message_classes(case)))
    ctx.case(case, nontrivial, classes)
    v = run_once(ctx, case)
    if v is None:
        return
    if v[0] == "stalled":
        # "never arrives" needs three independent stalls of STALL seconds each
        details = [v[2]]
        for _ in range(2):
            v2 = run_once(ctx, case)
            if v2 is None or v2[0] != "stalled":
                ctx.inconc("stall-not-reproduced")
                ctx.note("last_unreproduced_stall", v[2][:1500])
                v = v2
                break
            details.append(v2[2])
        else:
            ctx.violation("streams-arrive", "stalled:rekeys=%d" % min(1, len(case["rekeys"])), case, " || ".join(details)[:3800])
            return
        if v is None:
            return
    if v[0] == "transfer-completes" and v[1].startswith("thread-error"):
        # a thread of the transfer failed (sender raised / reader error): whether that happens can depend on thread timing and
        # machine load, so - like every time/thread-dependent verdict - it needs two confirming re-runs in fresh sessions
        details = [v[2]]
        for _ in range(2):
            v2 = run_once(ctx, case)
            if v2 is None or not (v2[0] == "transfer-completes" and v2[1].startswith("thread-error")):
                ctx.inconc("thread-error-not-reproduced")
                ctx.note("last_unreproduced_thread_error", v[2][:1500])
                v = v2
                break
            details.append(v2[2])
        else:
            ctx.violation(v[0], v[1], case, " || ".join(details)[:3800])
            return
        if v is None:
            return
        if v[0] == "stalled":  # a different time-based verdict in the re-run: not confirmed either
            ctx.inconc("stall-not-reproduced")
            return
    ctx.violation(v[0], v[1], case, v[2])


def run_once(ctx, case):
    """None = all oracles passed; else (clause, bucket, detail); clause "stalled" = no progress for STALL s."""
    # the two ends' limits for what each RECEIVES are independent (RFC 4254: every side advertises its own window and maximum
    # packet size): the server transport's defaults, and what the client asks for per channel in open_session
    srv_kw = {}
    if case.get("srv_w") is not None:
        srv_kw["default_window_size"] = case["srv_w"]
    if case.get("srv_p") is not None:
        srv_kw["default_max_packet_size"] = case["srv_p"]
    link, tc, ts = peers.make_pair(server_kw=srv_kw or None)
    threads = []
    try:
        for t in (tc, ts):
            t.use_compression(case["compress"])
        tc.get_security_options().ciphers = [case["cipher"]]
        tc.get_security_options().digests = [case["mac"]]
        ce, se = peers.start_both(tc, ts, peers.OpenServer())
        if ce or se:
            raise peers.core.HarnessError("C21 harness: handshake failed %r %r" % (ce, se))
        tc.auth_password("u", "pw")
        # One client-initiated round trip before the server side sends anything by itself: with delayed
        # compression (zlib@openssh.com) the server's transport thread switches its compressor on only after it
        # has sent USERAUTH_SUCCESS, and a packet sent by another server thread in between goes out uncompressed
        # to a client that already inflates (session dies: "incorrect header check"). That start-up race is
        # not this property's subject; the reply below comes from the server's transport thread, i.e. after the switch.
        if tc.global_request("verif-sync@verif", wait=True) is None:
            raise peers.core.HarnessError("C21 harness: sync global request refused / session died: %r" % (tc.get_exception(),))
        if case["frag"]:
            link.ab.frag = itertools.cycle(case["frag"])
            link.ba.frag = itertools.cycle(case["frag"][::-1])
        for _ in range(case["id_offset"]):
            try:
                ts.open_channel("session", timeout=TO)  # a client refuses it; the server-side id is used up
                raise peers.core.HarnessError("C21 harness: client accepted a server-opened session channel")
            except peers.paramiko.ChannelException:
                pass
        chans = []
        for i, spec in enumerate(case["chans"]):
            ch = Chan(i, spec)
            c = tc.open_session(window_size=spec.get("cw"), max_packet_size=spec.get("cp"), timeout=TO)
            s = ts.accept(TO)
            if s is None:
                raise peers.core.HarnessError("C21 harness: accept() returned nothing")
            ch.schan, ch.rchan = (s, c) if spec["dir"] == "s2c" else (c, s)
            # window of the receiving end; when it cannot hold the whole transfer, unread stderr can fill it up
            ch.small_window = ((spec.get("cw") if spec["dir"] == "s2c" else case.get("srv_w")) or 2097152) < ch.total
            if spec["combine"] == "start":
                ch.rchan.set_combine_stderr(True)
            chans.append(ch)
        if case["id_offset"] and chans:
            ctx.count("ids-differ" if chans[0].schan.get_id() != chans[0].rchan.get_id() else "ids-equal")
        for ch in chans:
            threads += [threading.Thread(target=ch.sender, daemon=True), threading.Thread(target=ch.reader, args=(0,), daemon=True), threading.Thread(target=ch.reader, args=(1,), daemon=True)]
        for t in threads:
            t.start()

        rekeys = list(case["rekeys"])
        rk = {"th": None, "err": None, "done": 0}
        grand = sum(ch.total for ch in chans)

        def do_rekey(side):
            try:
                (tc if side == "c" else ts).renegotiate_keys()
                # "one at a time" for BOTH sides: renegotiate_keys() returns when the caller's side has switched keys; the other
                # side may still be waiting for the caller's NEWKEYS.  A renegotiate_keys() issued there in that window makes it
                # send two KEXINITs and ends the session (a re-exchange defect, C11's subject - reported there; deterministic demo
                # /tmp/c11-renegotiate-while-peer-exchange-finishing.py), which under load showed up here as senders failing
                # with "Socket is closed".  A client round trip under the new keys is answered only after both sides are through.
                if tc.global_request("verif-sync@verif", wait=True) is None:
                    raise peers.paramiko.SSHException("barrier round trip after renegotiate_keys failed: client %r server %r" % (tc.get_exception(), ts.get_exception()))
                rk["done"] += 1
            except Exception as e:
                rk["err"] = repr(e)

        last, last_t = None, time.time()
        stalled = False
        while True:
            alive = any(t.is_alive() for t in threads)
            rekey_running = rk["th"] is not None and rk["th"].is_alive()
            if not alive and not rekey_running and not rekeys:
                break
            moved = sum(ch.rx[0] + ch.rx[1] for ch in chans)
            # next rekey once its share of the traffic has gone through (or the transfer is over)
            if rekeys and not rekey_running and not rk["err"]:
                n_done = len(case["rekeys"]) - len(rekeys)
                if moved >= grand * (n_done + 1) // (len(case["rekeys"]) + 1) or not alive:
                    rk["th"] = threading.Thread(target=do_rekey, args=(rekeys.pop(0),), daemon=True)
                    rk["th"].start()
            for ch in chans:
                if ch.combined:
                    continue
                if ch.spec["combine"] == "mid":
                    due = ch.rx[0] + ch.rx[1] >= ch.total // 2
                else:  # mid-unread: stderr sent so far sits in the buffer
                    due = ch.tx >= (ch.total + 1) // 2 or "sender" in ch.res
                    if not due and ch.small_window:
                        # an application that leaves stderr unread until half of the transfer has been SENT stops being a
                        # reading receiver once the unread stderr data fills the window (the sender cannot get to the half):
                        # with a window smaller than the transfer the switch happens as soon as stderr data is waiting
                        due = ch.rchan.recv_stderr_ready()
                if due:
                    ch.rchan.set_combine_stderr(True)
                    ch.combined = True
                    ch.go_err.set()
            cur = (moved, sum(ch.tx for ch in chans), rk["done"], alive)
            now = time.time()
            if cur != last:
                last, last_t = cur, now
            elif now - last_t > STALL:
                stalled = True
                break
            time.sleep(0.01)
        if rk["err"]:
            return ("rekey-during-transfer", "renegotiate_keys-raised", rk["err"])
        if stalled:
            return ("stalled", "", "no byte moved for %.0f s: (read, sent, rekeys done, threads alive)=%r per channel %r" % (STALL, last, [(ch.tx, ch.rx, ch.res) for ch in chans]))
        for ch in chans:
            tag = "chan%d/%d:%s:combine=%s" % (ch.idx, len(chans), ch.spec["dir"], ch.spec["combine"])
            if ch.res.get("sender") != "done" or ch.res.get(0) != "eof" or ch.res.get(1) != "eof":
                return (
                    "transfer-completes",
                    "thread-error:" + str(ch.res.get("sender"))[:30],
                    "%s: %r; client transport active=%s exception=%r; server transport active=%s exception=%r; rekeys done %d of %d; all channels %r"
                    % (tag, ch.res, tc.is_active(), tc.get_exception(), ts.is_active(), ts.get_exception(), rk["done"], len(case["rekeys"]), [(c.tx, c.rx, c.res) for c in chans]),
                )
            if not ch.combined:
                ch.rchan.set_combine_stderr(True)
                ch.combined = True
            # data moved to stdout by a late set_combine_stderr after the stdout reader met EOF
            ch.rchan.settimeout(0.0)
            for k, f in ((0, ch.rchan.recv), (1, ch.rchan.recv_stderr)):
                while True:
                    try:
                        b = f(1 << 20)
                    except socket.timeout:
                        break
                    if not b:
                        break
                    ch.got[k].append(b)
            out = b"".join(ch.got[0])
            err = b"".join(ch.got[1])
            comb = ch.spec["combine"]
            bad = None
            if comb == "none":
                if out != ch.data[0]:
                    bad = ("stdout-differs", "stdout: read %d sent %d equal prefix %d" % (len(out), len(ch.data[0]), _eqprefix(out, ch.data[0])))
                elif err != ch.data[1]:
                    bad = ("stderr-differs", "stderr: read %d sent %d equal prefix %d" % (len(err), len(ch.data[1]), _eqprefix(err, ch.data[1])))
            elif comb == "start":
                pos = [0, 0]
                exp = []
                for k, size in ch.chunks:
                    exp.append(ch.data[k][pos[k] : pos[k] + size])
                    pos[k] += size
                exp = b"".join(exp)
                if err:
                    bad = ("combine-start:stderr-not-empty", "%d bytes on recv_stderr" % len(err))
                elif out != exp:
                    bad = ("combine-start:not-wire-order", "combined: read %d expected %d equal prefix %d" % (len(out), len(exp), _eqprefix(out, exp)))
            else:
                bad = judge_mid(ch.data, out, err)
            if bad:
                return ("streams-intact", bad[0], "%s: %s" % (tag, bad[1]))
            if ch.spec["dir"] == "s2c":
                end = time.time() + TO
                while not ch.rchan.exit_status_ready() and time.time() < end:
                    time.sleep(0.005)
                if not ch.rchan.exit_status_ready():
                    return ("exit-status", "never-arrived", tag)
                got = ch.rchan.recv_exit_status()
                if got != ch.spec["status"]:
                    return ("exit-status", "differs:%s" % ("negative" if got < 0 else "other"), "%s: sent %d reported %d" % (tag, ch.spec["status"], got))
        return None
    finally:
        for ch in locals().get("chans", []):
            ch.go_err.set()
        peers.shutdown(tc, ts)
        for t in threads:
            t.join(TO)


def sorted_differs(a, b):
    from collections import Counter

    return len(a) != len(b) or Counter(a) != Counter(b)


def _eqprefix(a, b):
    n = min(len(a), len(b))
    lo, hi = 0, n
    while lo < hi:
        mid = (lo + hi + 1) // 2
        if a[:mid] == b[:mid]:
            lo = mid
        else:
            hi = mid - 1
    return lo



# ----------------------------------------------------------------------------- E4: set_combine_stderr against arriving data


def judge_mid(data, out, err):
    """Combining switched on mid-way. `err` = everything read from recv_stderr, `out` = everything read from recv."""
    out_low = out.translate(None, HIGH)
    out_high = out.translate(None, LOW)
    if err.translate(None, HIGH):
        return ("combine-mid:stdout-bytes-on-stderr", "%d" % len(err.translate(None, HIGH)))
    if out_low != data[0]:
        return ("combine-mid:stdout-differs", "stdout part: read %d sent %d equal prefix %d" % (len(out_low), len(data[0]), _eqprefix(out_low, data[0])))
    if err + out_high == data[1]:
        return None
    what = "stderr: %d via recv_stderr + %d via recv, sent %d" % (len(err), len(out_high), len(data[1]))
    if sorted_differs(err + out_high, data[1]):
        return ("combine-mid:stderr-lost-or-duplicated", what)
    p = len(err)
    if data[1][:p] != err:
        # recv_stderr delivered bytes that were sent *after* bytes that went to the stdout stream
        return ("combine-mid:later-stderr-data-left-on-stderr", what + "; recv_stderr stream is not a prefix of what was sent (equal prefix %d)" % _eqprefix(err, data[1]))
    return ("combine-mid:stderr-reordered-in-stdout", what + "; the stderr bytes inside the recv stream are out of order (equal prefix %d of %d)" % (_eqprefix(out_high, data[1][p:]), len(out_high)))


def run_e4combine(ctx, case):
    """Real Channel on a fake transport under the deterministic scheduler: a transport task feeds DATA /
    EXTENDED_DATA(1) messages through the real handlers and ends with EOF, an application task calls
    set_combine_stderr(True) at a scheduled moment (switch points: every lock operation and every source line
    of set_combine_stderr / _feed_extended / _feed), optional reader tasks drain stdout / stderr."""
    import paramiko.channel as PC

    tf = {PC.__file__: {"set_combine_stderr", "_feed_extended", "_feed"}}
    sch = S.Scheduler(S.strategy_from_case(case["sched"]), trace_files=tf, max_steps=60000)
    ft = CB.FakeTransport(sch)
    chan = CB.make_channel(sch, ft, chanid=1, remote_chanid=7)
    feeds = [tuple(f) for f in case["feeds"]]
    data = [payload(7, 0, sum(n for k, n in feeds if k == 0), True), payload(7, 1, sum(n for k, n in feeds if k == 1), True)]
    got = [[], []]

    def transport():
        pos = [0, 0]
        for k, n in feeds:
            piece = data[k][pos[k] : pos[k] + n]
            pos[k] += n
            if k == 0:
                ft.deliver(CB.MSG_CHANNEL_DATA, 1, piece)
            else:
                ft.deliver(CB.MSG_CHANNEL_EXTENDED_DATA, 1, 1, piece)
        ft.deliver(CB.MSG_CHANNEL_EOF, 1)

    def reader(k, sizes):
        f = chan.recv if k == 0 else chan.recv_stderr

        def body():
            i = 0
            while True:
                b = f(sizes[i % len(sizes)])
                i += 1
                if not b:
                    return
                got[k].append(b)

        return body

    sch.spawn("transport", transport)
    sch.spawn("combiner", lambda: chan.set_combine_stderr(True))
    if case["read_out"]:
        sch.spawn("reader-out", reader(0, case["reads"]))
    if case["read_err"]:
        sch.spawn("reader-err", reader(1, case["reads"]))
    with S.patch_time(sch, *CB.chan_time_modules()):
        res = sch.run()
    for name, info in res.tasks.items():
        if info.exc is not None:
            raise peers.core.HarnessError("C21 e4combine: task %s raised %s" % (name, info.tb))
    n_err_feeds = sum(1 for k, _ in feeds if k == 1)
    ctx.case(case, n_err_feeds >= 2, ["e4combine", "e4combine:outcome=" + str(res.outcome)] + (["e4combine:preempted-at-channel.py-line"] if res.switched_in(lambda t: t[0] == "line") else []))
    if res.outcome != "ok":
        ctx.violation("streams-arrive", "e4combine:%s" % res.outcome, case, "waits %r" % (res.waits,))
        return
    # whatever the (finished or absent) readers left behind; both pipes are at EOF, reads cannot block
    chan.settimeout(0.0)
    for k, f in ((0, chan.recv), (1, chan.recv_stderr)):
        while True:
            try:
                b = f(1 << 20)
            except socket.timeout:
                break
            if not b:
                break
            got[k].append(b)
    bad = judge_mid(data, b"".join(got[0]), b"".join(got[1]))
    if bad:
        ctx.violation("streams-intact", bad[0], case, "e4combine: %s; feeds %r" % (bad[1], feeds))


e4combine_case = st.fixed_dictionaries(
    {
        "fam": st.just("e4combine"),
        "feeds": st.lists(st.tuples(st.sampled_from([0, 1, 1]), st.integers(1, 40)), min_size=1, max_size=5),
        "read_out": st.booleans(),
        "read_err": st.booleans(),
        "reads": st.lists(st.sampled_from([1, 7, 1000]), min_size=1, max_size=2),
        "sched": S.schedule_strategy(max_pre=4, max_gap=40, max_forced=10),
    }
)

# ----------------------------------------------------------------------------- data written on the transport thread

HREQ = ["exec", "shell", "subsystem", "env", "pty", "window-change"]
HTO = 20.0


class HandlerServer(peers.OpenServer):
    """Accepts everything; the handler of the request kind a channel's plan names writes the plan's script to the
    channel from inside the callback (= on the server's transport thread) and returns True."""

    def __init__(self):
        peers.OpenServer.__init__(self)
        self.plans = {}  # server-side channel id -> plan dict (filled by the harness before the request is sent)
        self.transport = None

    def _handle(self, channel, kind):
        plan = self.plans.get(channel.get_id())
        if plan is None or plan["req"] != kind or "result" in plan:
            return True
        plan["result"] = "running"
        # is an exchange started by this side in flight right now (user traffic gated)?
        plan["in_kex"] = not self.transport.clear_to_send.is_set()
        try:
            pos = [0, 0]
            for k, size in plan["script"]:
                piece = plan["data"][k][pos[k] : pos[k] + size]
                pos[k] += size
                (channel.sendall if k == 0 else channel.sendall_stderr)(piece)
            if plan["status"] is not None:
                channel.send_exit_status(plan["status"])
            if plan["end"] == "eof":
                channel.shutdown_write()
            elif plan["end"] == "close":
                channel.close()
            plan["result"] = "done"
        except Exception as e:  # judged by the oracle (the handler's writes are documented channel operations)
            plan["result"] = "error: %r" % (e,)
        return True

    def check_channel_exec_request(self, channel, command):
        return self._handle(channel, "exec")

    def check_channel_shell_request(self, channel):
        return self._handle(channel, "shell")

    def check_channel_subsystem_request(self, channel, name):
        return self._handle(channel, "subsystem")

    def check_channel_env_request(self, channel, name, value):
        return self._handle(channel, "env")

    def check_channel_pty_request(self, channel, term, width, height, pixelwidth, pixelheight, modes):
        return self._handle(channel, "pty")

    def check_channel_window_change_request(self, channel, width, height, pixelwidth, pixelheight):
        return self._handle(channel, "window-change")


def _client_request(chan, kind):
    if kind == "exec":
        chan.exec_command("report")
    elif kind == "shell":
        chan.invoke_shell()
    elif kind == "subsystem":
        chan.invoke_subsystem("verif")
    elif kind == "env":
        chan.set_environment_variable("A", "b")
    elif kind == "pty":
        chan.get_pty()
    else:
        chan.resize_pty(100, 40)


def run_handler_case(ctx, case):
    n_msgs = max(len(c["script"]) + (1 if c["status"] is not None else 0) + (0 if c["end"] == "none" else 1) for c in case["chans"])
    classes = ["handler", "handler:rekey=" + case["rekey"], "handler:chans=%d" % len(case["chans"])]
    classes += sorted(set("handler:req=" + c["req"] for c in case["chans"])) + sorted(set("handler:end=" + c["end"] for c in case["chans"]))
    classes += sorted(set("handler:combine=" + c["combine"] for c in case["chans"]))
    info = {}
    v = run_handler_once(case, info)
    if v is not None and v[0] == "stalled":
        details = [v[2]]
        for _ in range(2):
            v2 = run_handler_once(case, {})
            if v2 is None or v2[0] != "stalled":
                ctx.inconc("handler:stall-not-reproduced")
                ctx.note("last_unreproduced_handler_stall", v[2][:1500])
                v = v2
                break
            details.append(v2[2])
        else:
            v = ("streams-arrive", "handler:stalled:rekey=" + case["rekey"], " || ".join(details)[:3800])
    if info.get("in_kex"):
        classes.append("handler:wrote-while-own-exchange-in-flight")
        if info.get("in_kex_msgs", 0) >= 2:
            classes.append("handler:>=2-messages-held-back-until-NEWKEYS")
    elif case["rekey"] == "server-crossing" and v is None:
        ctx.inconc("handler:forced-crossing-not-achieved")
    ctx.case(case, n_msgs >= 2, classes)
    if v is not None:
        ctx.violation(v[0], v[1], case, v[2])


def run_handler_once(case, info):
    """None = all oracles passed; else (clause, bucket, detail); clause "stalled" = something did not finish in HTO s."""
    server_obj = HandlerServer()
    link, tc, ts = peers.make_pair()
    server_obj.transport = ts
    threads = []
    mode = case["rekey"]
    try:
        ce, se = peers.start_both(tc, ts, server_obj)
        if ce or se:
            raise peers.core.HarnessError("C21 harness: handshake failed %r %r" % (ce, se))
        tc.auth_password("u", "pw")
        if tc.global_request("verif-sync@verif", wait=True) is None:
            raise peers.core.HarnessError("C21 harness: sync global request refused / session died: %r" % (tc.get_exception(),))
        plans = []
        for i, spec in enumerate(case["chans"]):
            c = tc.open_session(timeout=TO)
            sc = ts.accept(TO)
            if sc is None:
                raise peers.core.HarnessError("C21 harness: accept() returned nothing")
            tagged = spec["combine"] != "none"
            script = [tuple(x) for x in spec["script"]]
            plan = {
                "req": spec["req"], "script": script, "status": spec["status"], "end": spec["end"], "cchan": c, "schan": sc,
                "data": [payload(spec["seed"], 0, sum(n for k, n in script if k == 0), tagged), payload(spec["seed"], 1, sum(n for k, n in script if k == 1), tagged)],
            }
            if spec["combine"] == "start":
                c.set_combine_stderr(True)
            plans.append(plan)
            server_obj.plans[sc.get_id()] = plan
        if not link.wait_quiescent(TO):
            raise peers.core.HarnessError("C21 harness: link not quiescent after setup")
        res = {}

        def bg(name, fn):
            def w():
                try:
                    fn()
                    res[name] = "ok"
                except Exception as e:  # outcome, judged below
                    res[name] = "exc %r" % (e,)

            th = threading.Thread(target=w, daemon=True, name="c21-" + name)
            threads.append(th)
            th.start()

        c2s = link.ab
        forced = mode in ("server-crossing", "client-behind")
        if forced:
            c2s.set_hold(True)
        if mode == "server-racing":
            bg("rekey", ts.renegotiate_keys)
        for i, plan in enumerate(plans):
            bg("req%d" % i, lambda plan=plan: _client_request(plan["cchan"], plan["req"]))
        if forced:
            if not c2s.wait_pending(len(plans), TO):
                raise peers.core.HarnessError("C21 harness: requests not pending on the held link")
            # the KEXINIT of the client (its own, or its answer to the server's) queues up behind the requests
            bg("rekey", ts.renegotiate_keys if mode == "server-crossing" else tc.renegotiate_keys)
            if not c2s.wait_pending(len(plans) + 1, TO):
                raise peers.core.HarnessError("C21 harness: client KEXINIT not pending behind the requests")
            c2s.set_hold(False)
        end = time.time() + HTO
        for th in threads:
            th.join(max(0.0, end - time.time()))
        hung = [th.name for th in threads if th.is_alive()]
        if hung:
            return ("stalled", "", "still running after %.0f s: %r; results %r; plans %r" % (HTO, hung, res, [p.get("result") for p in plans]))
        if res.get("rekey", "ok") != "ok":
            return ("rekey-during-transfer", "handler:renegotiate_keys-raised", res["rekey"])
        # sentinel round trip: the reply leaves the server's transport thread after everything the handlers wrote
        sync = {}
        th = threading.Thread(target=lambda: sync.setdefault("r", tc.global_request("verif-sync@verif", wait=True)), daemon=True)
        threads.append(th)
        th.start()
        th.join(HTO)
        if th.is_alive():
            return ("stalled", "", "sentinel global request not answered within %.0f s; plans %r" % (HTO, [p.get("result") for p in plans]))
        if sync.get("r") is None:
            return ("transfer-completes", "handler:session-died", "sentinel refused / session died: client %r server %r" % (tc.get_exception(), ts.get_exception()))
        for i, (spec, plan) in enumerate(zip(case["chans"], plans)):
            tag = "handler chan%d/%d:req=%s:end=%s:combine=%s:rekey=%s" % (i, len(plans), spec["req"], spec["end"], spec["combine"], mode)
            if plan.get("result") != "done":
                return ("transfer-completes", "handler:write-failed:" + str(plan.get("result"))[:30], "%s: handler outcome %r" % (tag, plan.get("result")))
            rq = res.get("req%d" % i)
            if rq != "ok" and not (spec["end"] == "close" and "Channel closed" in str(rq)):
                # a reply-wanting request on a channel the handler closed may legitimately fail with "Channel closed."
                return ("transfer-completes", "handler:request-failed", "%s: client request %r" % (tag, rq))
            if plan.get("in_kex"):
                info["in_kex"] = True
                info["in_kex_msgs"] = max(info.get("in_kex_msgs", 0), len(plan["script"]) + (1 if spec["status"] is not None else 0) + (0 if spec["end"] == "none" else 1))
            c = plan["cchan"]
            c.settimeout(0.0)
            got = [[], []]
            for k, f, sizes in ((0, c.recv, spec["reads"]), (1, c.recv_stderr, spec["ereads"])):
                j = 0
                while True:
                    try:
                        b = f(sizes[j % len(sizes)])
                    except socket.timeout:
                        break
                    j += 1
                    if not b:
                        break
                    got[k].append(b)
            out, err = b"".join(got[0]), b"".join(got[1])
            data = plan["data"]
            bad = None
            if spec["combine"] == "none":
                if out != data[0]:
                    bad = ("stdout-differs", "stdout: read %d sent %d equal prefix %d" % (len(out), len(data[0]), _eqprefix(out, data[0])))
                elif err != data[1]:
                    bad = ("stderr-differs", "stderr: read %d sent %d equal prefix %d" % (len(err), len(data[1]), _eqprefix(err, data[1])))
            else:
                pos = [0, 0]
                exp = []
                for k, size in plan["script"]:
                    exp.append(data[k][pos[k] : pos[k] + size])
                    pos[k] += size
                exp = b"".join(exp)
                if err:
                    bad = ("combine-start:stderr-not-empty", "%d bytes on recv_stderr" % len(err))
                elif out != exp:
                    bad = ("combine-start:not-wire-order", "combined: read %d expected %d equal prefix %d" % (len(out), len(exp), _eqprefix(out, exp)))
            if bad:
                return ("streams-intact", "handler:" + bad[0], "%s: %s; script %r" % (tag, bad[1], plan["script"]))
            if spec["status"] is not None:
                if not c.exit_status_ready():
                    return ("exit-status", "handler:never-arrived", tag)
                st_got = c.recv_exit_status()
                if st_got != spec["status"]:
                    return ("exit-status", "handler:differs:%s" % ("negative" if st_got < 0 else "other"), "%s: sent %d reported %d" % (tag, spec["status"], st_got))
        return None
    finally:
        link.ab.set_hold(False)
        peers.shutdown(tc, ts)
        for t in threads:
            t.join(TO)


h_chunk = st.tuples(st.integers(0, 1), st.one_of(st.sampled_from([1, 100, 4032, 32704, 32768, 40000]), st.integers(1, 2000), st.integers(1, 2000)))
h_chan = st.fixed_dictionaries(
    {
        "req": st.sampled_from(HREQ),
        "seed": st.integers(0, 1 << 30),
        "script": st.lists(h_chunk, min_size=2, max_size=8),
        "status": st.one_of(st.none(), st.sampled_from([0, 1, 255, 256, 0x7FFFFFFF, 0x80000000, 0xFFFFFFFF]), st.integers(0, 0xFFFFFFFF)),
        "end": st.sampled_from(["none", "eof", "close"]),
        "combine": st.sampled_from(["none", "none", "start"]),
        "reads": st.lists(st.one_of(st.sampled_from([1, 7, 4096, 32768, 65536, 1 << 22]), st.integers(1, 70000)), min_size=1, max_size=3).filter(lambda l: sum(l) >= 64 * len(l)),
        "ereads": st.lists(st.one_of(st.sampled_from([1, 7, 4096, 32768, 65536, 1 << 22]), st.integers(1, 70000)), min_size=1, max_size=3).filter(lambda l: sum(l) >= 64 * len(l)),
    }
)
handler_case = st.fixed_dictionaries(
    {
        "fam": st.just("handler"),
        "chans": st.lists(h_chan, min_size=1, max_size=2),
        "rekey": st.sampled_from(["none", "server-crossing", "server-crossing", "client-behind", "server-racing"]),
    }
)

# ----------------------------------------------------------------------------- strategies

chunk_sizes = st.one_of(st.sampled_from([1, 100, 4032, 32704, 32768, 100000]), st.integers(1, 100000))
read_sizes = st.one_of(st.sampled_from([1, 7, 4096, 32768, 65536, 1 << 22]), st.integers(1, 70000))
sizes = st.one_of(st.sampled_from([0, 1, 32768, 524288]), st.integers(0, 524288), st.integers(0, 40000))


def chan_specs(cap):
    def build(d, seed, n_out, n_err, pattern, reads, ereads, combine, status, cw, cp, regime, j_packet, j_stream, j_size, j_chunk, j_window):
        pattern = list(pattern)
        jumbo = regime == "jumbo"
        if jumbo:
            # "jumbo" size regime: the receiving end advertises a maximum packet size above 256 KiB (and a window that can hold
            # such a message), one stream carries more than 256 KiB and the send pattern contains a single write above 256 KiB
            # (chunk sizes go up to the whole payload), i.e. single CHANNEL_DATA / EXTENDED_DATA messages of 256 KiB .. 512 KiB
            cp, cw = j_packet, j_window
            if j_stream == 0:
                n_out = max(n_out, j_size)
            else:
                n_err = max(n_err, j_size)
            pattern.insert(0, (j_stream, j_chunk))
            reads = list(reads) + [65536]
            ereads = list(ereads) + [65536]
        mean_c = sum(s for _, s in pattern) / len(pattern)
        lim = int(min(cap, 1500 * mean_c, 3000 * (sum(reads) / len(reads)), 3000 * (sum(ereads) / len(ereads))))
        spec = {"dir": d, "seed": seed, "out": min(n_out, lim), "err": min(n_err, lim), "pattern": pattern, "reads": reads, "ereads": ereads, "combine": combine, "status": status, "cw": cw, "cp": cp}
        if jumbo:
            spec["jumbo"] = True
        return spec

    return st.builds(
        build,
        st.sampled_from(["s2c", "s2c", "c2s"]),
        st.integers(0, 1 << 30),
        sizes,
        sizes,
        st.lists(st.tuples(st.integers(0, 1), chunk_sizes), min_size=1, max_size=5),
        st.lists(read_sizes, min_size=1, max_size=3),
        st.lists(read_sizes, min_size=1, max_size=3),
        st.sampled_from(["none", "none", "start", "mid", "mid-unread"]),
        st.one_of(st.sampled_from([0, 1, 255, 256, 0x7FFFFFFF, 0x80000000, 0xFFFFFFFF]), st.integers(0, 0xFFFFFFFF)),
        st.sampled_from(CLI_WINDOWS),
        st.sampled_from(CLI_PACKETS),
        st.sampled_from(["normal", "normal", "normal", "jumbo"]),
        st.sampled_from(JUMBO_PACKETS),
        st.integers(0, 1),
        st.one_of(st.sampled_from([300000, 524288]), st.integers(JUMBO + 1, 524288)),
        st.sampled_from(JUMBO_CHUNKS),
        st.sampled_from([None, 1 << 21, 600000]),
    )


# what the client asks for per channel (open_session(window_size=, max_packet_size=); None = transport default 2 MiB / 32768) and the
# server transport's defaults (what the server end advertises for every channel): the two directions of a channel get different limits
CLI_WINDOWS = [None, None, None, 32768, 65536, 1 << 21]
CLI_PACKETS = [None, None, 4096, 4096, 5000, 32768, 65536, 1 << 20]
SRV_WINDOWS = [None, None, 32768, 100000]
SRV_PACKETS = [None, None, 4096, 8192, 65536, 65536]
# size regime "jumbo" (round 4): maximum packet sizes above 256 KiB on the receiving end and single writes of 256 KiB .. 512 KiB
JUMBO = 262144
JUMBO_PACKETS = [300000, 1 << 19, 1 << 20, 1 << 20]
JUMBO_CHUNKS = [JUMBO, JUMBO + 1, 300000, 400000, 524288]


def case_strategy(total_cap):
    def build(chans, rekeys, compress, cipher, mac, frag, id_offset, srv_w, srv_p, j_srv_p):
        # keep the whole case under total_cap bytes
        per = max(1, total_cap // max(1, len(chans)))
        for c in chans:
            c["out"] = min(c["out"], per)
            c["err"] = min(c["err"], per)
        if any(c.get("jumbo") and c["dir"] == "c2s" for c in chans):
            # the receiving end of a client->server channel is the server: its transport-wide defaults are the limits it advertises
            srv_p, srv_w = j_srv_p, None
        return {"chans": chans, "rekeys": rekeys, "compress": compress, "cipher": cipher, "mac": mac, "frag": frag, "id_offset": id_offset, "srv_w": srv_w, "srv_p": srv_p}

    return st.builds(
        build,
        st.lists(chan_specs(524288), min_size=1, max_size=8),
        st.lists(st.sampled_from(["c", "s"]), max_size=2),
        st.booleans(),
        st.sampled_from(CIPHERS),
        st.sampled_from(MACS),
        st.one_of(st.just([]), st.lists(st.sampled_from([16, 100, 1000, 4096, 40000]), min_size=1, max_size=4)),
        st.integers(0, 3),
        st.sampled_from(SRV_WINDOWS),
        st.sampled_from(SRV_PACKETS),
        st.sampled_from(JUMBO_PACKETS),
    )


def run(ctx):
    ctx.set_budget(85, 800)
    ctx.assume("channels are closed only after all re-exchanges have finished (C11's findings are excluded by construction)")
    ctx.exclude("channel close / want_reply requests during a re-exchange (C11 findings)")
    ctx.exclude("server-side send racing the server's own delayed-compression switch right after USERAUTH_SUCCESS")
    ctx.exclude("renegotiate_keys() on one side while the other side's re-exchange is still unfinished there (C11's subject): a round-trip barrier follows every rekey")
    cap = (3 << 19) if ctx.quick else (3 << 20)
    ctx.explore(case_strategy(cap), lambda c: run_case(ctx, c), ctx.scale(45, 320), shrink=False)
    # E4 (deterministic, shrinking on): set_combine_stderr(True) interleaved with arriving data at lock / line level
    ctx.explore(e4combine_case, lambda c: run_e4combine(ctx, c), ctx.scale(600, 6000), seed_offset=1)
    # data written by server application callbacks on the transport thread, with / without a re-exchange in flight
    ctx.explore(handler_case, lambda c: run_handler_case(ctx, c), ctx.scale(150, 1000), shrink=False, seed_offset=2)


def replay(ctx, case):
    case = dict(case)
    if case.get("fam") == "e4combine":
        run_e4combine(ctx, case)
        return
    if case.get("fam") == "handler":
        run_handler_case(ctx, case)
        return
    case["chans"] = [dict(c, pattern=[tuple(p) for p in c["pattern"]]) for c in case["chans"]]
    run_case(ctx, case)
