"""C14 - a server grants authentication only with its own approval and valid proof.

Tested side: server-mode Transport (+ RecordingServer whose check_auth_* results are generated
per case). Driver: raw puppet client sending hand-built USERAUTH messages (vlib.authkit: refssh
encoders, signatures made with `cryptography`, never paramiko's PKey/Message).

Program = <= 12 steps in arbitrary order over none / password (plain and change-request form) /
publickey (every pool key type x algorithm, plain keys and OpenSSH certificates of them built by the
harness, RSA with rsa-sha2-512/-256/ssh-rsa declared; probe, valid signature, or a signature with
exactly one ingredient wrong: session id of another real session, session id omitted / empty, user,
service, algorithm (replaced by EVERY alternative name: the other algorithms of the family, the key
type inside the blob, certificate suffix added / removed, near miss, empty), key blob (sibling key; for
a certificate the plain blob of the same key), method name, signed by another key, truncated, bit
flipped, missing)
/ keyboard-interactive with 0-2 query rounds / INFO_RESPONSE at arbitrary points /
gssapi-with-mic and gssapi-keyex against a stub GSS context / unknown method names.

Multi-message exchanges are program building blocks of their own: a keyboard-interactive exchange
= the request (application answers with an InteractiveQuery, or a verdict at once) followed by 0-3
INFO_RESPONSE rounds whose application results are generated per round (a further query, or
FAILED / PARTIAL / SUCCESSFUL), with 0-2 OTHER steps (any kind: other methods, probes, another
exchange, a gssapi-with-mic exchange that is then abandoned) interleaved before every round.
The two-step publickey exchange is a building block too: the unsigned query for a key, 0-1 other steps,
the signed request for the same key and algorithm (valid or forged). The application's answer to a
publickey request can be dictated PER CALL ("r"), so it may change between query and signed request
(FAILED / PARTIAL / SUCCESSFUL x FAILED / PARTIAL / SUCCESSFUL are enumerated).
Every request step names the session's user or (generated) one of the other users.

User names are what a RAW client writes into the user-name field: text (ASCII, empty, non-ASCII, mixed case) or bytes that are
NOT valid UTF-8 (stray 0xff, Latin-1, overlong form, CESU-8 surrogate) and the valid UTF-8 name a lossy decoder turns such
bytes into. The "user" forgery of a publickey request signs EVERY alternative form of the name on the wire (byte appended,
another user, lossy decodings replace / ignore, lower / upper case, Unicode normal forms NFD / NFC, cut at the first
undecodable byte, whitespace / NUL appended, empty). Every method x every such name with an approving application is
enumerated in each run.

Application policy besides the verdicts: what get_allowed_auths() answers - the full list, the empty list, one method, several -
fixed or SHRINKING (the application drops a method from its list once its check for it answered PARTIALLY_SUCCESSFUL, so a
partial verdict can coincide with "no methods left"). Every method x {PARTIAL, FAILED} x {empty list, only this method, only
this method and shrinking} and a two-factor application using up its list are enumerated in each run.

Callback verdicts: every check_auth_* result is generated from FAILED / PARTIAL / SUCCESSFUL AND (about one draw in 6-8)
from values OUTSIDE the three documented constants - what a callback returns that falls off its end or is sloppy:
None, 3, -1, "0", "", "success", (0,), 0.5 (nothing that compares equal to a constant: no 0 / False / True / 2.0).
Such a verdict is not "the application's check returned success": a grant on it is a violation
(bucket <method>:callback-result-outside-documented-constants-treated-as-success). Every method x every such value is
also enumerated in each run (focused_cases).

Oracle, after every step: "granted" (USERAUTH_SUCCESS among the replies, or any of
Transport.is_authenticated(), AuthHandler.authenticated, Transport.authenticated true) implies
 (1) the application callback responsible for this (user, method) was invoked during this step
     and returned AUTH_SUCCESSFUL (the harness knows the generated policy);
 (2) publickey: the request carried a signature that the independent verifier accepts over
     string(session id of THIS session) || 50 || user || "ssh-connection" || "publickey" || TRUE || algorithm || key;
     gssapi: the stub's MIC check passed;
 (3) a probe (no signature) is never granted;
 (4) the granted identity is the approved one: Transport.get_username() equals the username the
     approving callback was asked about (for an INFO_RESPONSE: the username given to the
     check_auth_interactive call that opened the exchange being answered);
 (5) "for that username": the name the approving callback was asked about (and get_username()) is the name that stood ON
     THE WIRE in the granted request (for an INFO_RESPONSE: in the request that opened the exchange) under a lossless
     decoding (strict UTF-8 or surrogateescape) - an approval obtained for a replaced / dropped / folded form of the name is
     an approval for another user (bucket <method>:application-asked-about-a-name-that-is-not-the-name-on-the-wire); the
     signed data of (2) always contains the bytes on the wire.
Nothing else is asserted (a crash or disconnect without a grant satisfies the statement).
"""
from hypothesis import strategies as st

from vlib import authkit as A
from vlib import core, peers
from vlib import refssh as R

PROPERTY = "C14"
LEVEL = "exploration"
THOROUGH_WORKERS = 16
RULE = (
    "hypothesis-generated request programs (1..12 steps, arbitrary order) against a live server-mode Transport with a "
    "generated callback policy (each check_auth_* -> FAILED/PARTIAL/SUCCESSFUL or, one draw in 6-8, a value outside the documented "
    "constants: None, 3, -1, '0', '', 'success', (0,), 0.5 - per password, per key, per call, per interactive round; every method x every "
    "such value is also enumerated; a grant on such a verdict is a violation); "
    "programs are built from single requests and from whole keyboard-interactive exchanges (request + 0..3 INFO_RESPONSE rounds, the "
    "application's answer generated per round: further InteractiveQuery / FAILED / PARTIAL / SUCCESSFUL) with 0..2 other steps of any "
    "kind interleaved before each round; every request names the session's user or a generated other user; user-name alphabet of the raw "
    "requests: 5 text names (ASCII, empty, non-ASCII, mixed case) + 5 byte strings (4 not valid UTF-8: stray 0xff, Latin-1, overlong, "
    "CESU-8 surrogate; 1 the U+FFFD name a lossy decoder makes of them) - a grant must be approved for, and signed over, the name on the "
    "wire (lossless decoding), every method x every such name against an approving application is enumerated; the changed-user forgery "
    "enumerates every alternative form of the name (byte appended, another user, lossy decoding replace/ignore, lower/upper case, NFD/NFC, cut "
    "at the undecodable byte, whitespace/NUL appended, empty); application policy also covers get_allowed_auths(): full list / empty / one "
    "method / several, fixed or shrinking after each PARTIAL verdict (9 lists x 2; every method x PARTIAL/FAILED x {empty, only this method, "
    "only this method shrinking} enumerated, so a partial verdict coincides with 'no methods left'); "
    "publickey steps over 9 pool keys + 4 harness-built OpenSSH certificates x their algorithms (RSA: rsa-sha2-512/-256/ssh-rsa, with and "
    "without certificate suffix) x 16 signature variants (valid + 15 single-ingredient forgeries incl. a signature made for another real "
    "session; the changed-algorithm forgery enumerates every alternative name: other algorithm of the family, key type of the blob, "
    "certificate suffix toggled, near miss, empty); the two-step exchange (query answered PK_OK, 0..1 other steps, signed request for the "
    "same key) is a block of its own with the application's publickey answer generated per call, so that it can change between query and "
    "signed request (all 9 result pairs x valid/forged proof enumerated); GSS methods against a stub context whose MIC check passes/raises as generated; "
    "non-trivial = the program contains a forged/probe/replayed publickey request, or a step whose responsible callback returns "
    "non-success, or a failing GSS proof; a grant must also be for the user the approving callback was asked about "
    "(get_username()); distinct by (policy, steps)"
)

RES = {"F": peers.AUTH_FAILED, "P": peers.AUTH_PARTIALLY_SUCCESSFUL, "S": peers.AUTH_SUCCESSFUL}
# Verdicts OUTSIDE the three documented constants (a callback falling off its end returns None; a sloppy one returns
# some other int / a string / a tuple / a float). None of them compares equal to a documented constant (so no 0 / False /
# 0.0 = AUTH_SUCCESSFUL, no True = AUTH_PARTIALLY_SUCCESSFUL, no 2.0): the application's check did NOT return success.
ODD = {"X:None": None, "X:3": 3, "X:-1": -1, "X:'0'": "0", "X:''": "", "X:'success'": "success", "X:(0,)": (0,), "X:0.5": 0.5}
ODDS = sorted(ODD)
RES.update(ODD)


def is_odd(verdict):
    return verdict in ODD


# ---- user names. A raw client writes BYTES into the user-name field: besides ordinary names (ASCII, empty, non-ASCII UTF-8,
# mixed case) the alphabet holds names that are NOT valid UTF-8 (a stray 0xff, Latin-1, an overlong form, a CESU-8 surrogate)
# and the valid UTF-8 name that a lossy decoder turns the first of them into (U+FFFD inside).
STR_USERS = ["alice", "", "böb", "root", "Alice"]
RAW_USERS = [b"al\xffice", b"b\xf6b", b"\xc0\xaf", b"root\xed\xa0\x80", b"al\xef\xbf\xbdice"]
# ---- what the application's get_allowed_auths() returns (None: the full list). "shrink": the application removes a method from
# its list once its check for that method answered PARTIALLY_SUCCESSFUL (a multi-factor server ticking off factors).
FULL_ALLOWED = "password,publickey,keyboard-interactive,gssapi-with-mic,gssapi-keyex,none"
ALLOWED = [None, "", "password", "publickey", "keyboard-interactive", "none", "password,publickey", "publickey,keyboard-interactive", "gssapi-with-mic,gssapi-keyex"]
METHOD_OF_CB = {
    "check_auth_none": "none",
    "check_auth_password": "password",
    "check_auth_publickey": "publickey",
    "check_auth_interactive": "keyboard-interactive",
    "check_auth_interactive_response": "keyboard-interactive",
    "check_auth_gssapi_with_mic": "gssapi-with-mic",
    "check_auth_gssapi_keyex": "gssapi-keyex",
}


def wire_name(u):
    """The bytes of the user-name field of a request naming `u` (str: its UTF-8 form; bytes: as they are)."""
    return u if isinstance(u, bytes) else u.encode("utf-8")


def is_utf8(b):
    try:
        b.decode("utf-8")
        return True
    except UnicodeDecodeError:
        return False


def names_wire(s, u):
    """Is `s` (the str an application callback / get_username() shows) the name `u` that stood on the wire? Any LOSSLESS
    decoding counts (strict UTF-8, or surrogateescape for undecodable bytes); a replaced / dropped / folded byte does not."""
    if not isinstance(s, str):
        return False
    try:
        return s.encode("utf-8", "surrogateescape") == wire_name(u)
    except UnicodeError:
        return False


def user_alternatives(ub):
    """Every other name that could stand in the user field of the signed data for a request naming `ub`:
    [(kind, bytes)], all different from ub and from each other. Index 0 is the appended byte."""
    import unicodedata

    cands = [("appended-byte", ub + b"x"), ("another-user", b"alice" if ub == b"root" else b"root")]
    cands.append(("lossy-decoding:replace", ub.decode("utf-8", "replace").encode("utf-8")))
    cands.append(("lossy-decoding:ignore", ub.decode("utf-8", "ignore").encode("utf-8")))
    cands += [("lower-cased", ub.lower()), ("upper-cased", ub.upper())]
    try:
        txt = ub.decode("utf-8")
        cands += [("unicode-normal-form:NFD", unicodedata.normalize("NFD", txt).encode("utf-8")), ("unicode-normal-form:NFC", unicodedata.normalize("NFC", txt).encode("utf-8"))]
    except UnicodeDecodeError as e:
        cands.append(("cut-at-the-first-undecodable-byte", ub[: e.start]))
    cands += [("whitespace-appended", ub + b" "), ("nul-appended", ub + b"\x00"), ("empty", b"")]
    out = []
    for kind, b in cands:
        if b != ub and b not in [x for _, x in out]:
            out.append((kind, b))
    return out


PK_VARIANTS = [
    "probe",
    "valid",
    "sid-other",
    "sid-omitted",
    "sid-empty",
    "user",
    "service",
    "algo",
    "key",
    "signer",
    "method",
    "trunc",
    "bitflip",
    "nosig",
    "emptysig",
    "sigalg",
]
PLAINKEYS = sorted(A.KEY_ALGOS)
CERTKEYS = sorted(A.CERT_KEY_ALGOS)
KEYNAMES = PLAINKEYS + CERTKEYS
# a second blob for the "key field changed" forgery: another key of the type; for a certificate the plain blob of the SAME key
SIBLING = dict(A.SIBLING, **{c: A.base_key(c) for c in CERTKEYS})


def sig_algo(algo):
    """Algorithm name inside the signature blob: the declared one without the certificate suffix."""
    return algo.replace(A.CERT_SUFFIX, "")


def algo_alternatives(key, algo):
    """Every other name that could stand in the algorithm field of the signed data: the other algorithms of the
    key's family, the same names with / without the certificate suffix, the key TYPE inside the blob, near misses."""
    fam = list(A.key_algos(key))
    base = [sig_algo(a) for a in fam]
    out = []
    for a in fam + base + [a + A.CERT_SUFFIX for a in base] + [R.Reader(A.pub_blob(key)).string().decode(), algo + "x", ""]:
        if a != algo and a not in out:
            out.append(a)
    return out


# ----------------------------------------------------------------------------- generator

odd = st.sampled_from(ODDS)


def _or_odd(base, n):
    """`base`, but one draw in n is a verdict outside the documented constants."""
    return st.integers(0, n - 1).flatmap(lambda k: odd if k == 0 else base)


res = _or_odd(st.sampled_from(["F", "P", "S", "S"]), 6)
# the session's user: an ordinary name; one draw in 8 a raw byte string (4 of the 5 are not valid UTF-8)
users = st.integers(0, 7).flatmap(lambda k: st.sampled_from(RAW_USERS) if k == 0 else st.sampled_from(STR_USERS))
# what get_allowed_auths() answers: the full list (half of the cases) or a generated other list incl. the empty one; shrinking or not
allowed_st = st.integers(0, 1).flatmap(lambda k: st.none() if k == 0 else st.sampled_from(ALLOWED[1:]))


@st.composite
def policies(draw):
    return {
        "none": draw(_or_odd(st.sampled_from(["F", "F", "F", "P", "S"]), 6)),
        "password": {"good": draw(res), "bad": draw(_or_odd(st.sampled_from(["F", "F", "P", "S"]), 6))},
        "pk": dict([("default", draw(res))] + [(k, draw(res)) for k in draw(st.lists(st.sampled_from(PLAINKEYS), max_size=3, unique=True))]),
        "kbd": draw(_or_odd(st.sampled_from(["F", "P", "S", "query", "query"]), 7)),
        "rounds": draw(st.lists(_or_odd(st.sampled_from(["F", "P", "S", "query"]), 7), max_size=3)),
        "gssmic": draw(res),
        "keyex": draw(res),
        "allowed": draw(allowed_st),
        "shrink": draw(st.sampled_from([False, False, True])),
    }


pk_r = _or_odd(st.sampled_from([None, None, None, "F", "P", "S"]), 8)


def _pk(key, algo, v, alt=None, r=None, ualt=None):
    """"alt": which alternative name the "algo" forgery writes into the signed data; "ualt": which alternative user name
    the "user" forgery writes there (absent: the name with a byte appended); "r": the application's
    answer to exactly this message (absent: the case-wide policy for the key decides)."""
    stp = {"k": "pk", "key": key, "algo": algo, "v": v}
    if v == "algo" and alt is not None:
        stp["alt"] = alt
    if v == "user" and ualt:
        stp["ualt"] = ualt
    if r is not None:
        stp["r"] = r
    return stp


@st.composite
def pk_step(draw):
    key = draw(st.sampled_from(KEYNAMES))
    algo = draw(st.sampled_from(A.key_algos(key)))
    v = draw(st.sampled_from(PK_VARIANTS + ["valid", "probe", "algo", "user"]))
    return _pk(key, algo, v, draw(st.integers(0, 9)), draw(pk_r), draw(st.integers(0, 11)))


tok = st.one_of(st.binary(min_size=1, max_size=8), st.none(), st.just("raise"))
gss_step = st.fixed_dictionaries(
    {
        "k": st.just("gssmic"),
        "mech_ok": st.sampled_from([True, True, True, False]),
        "oids": st.sampled_from([1, 1, 1, 1, 2]),
        "tokens": st.lists(tok, min_size=0, max_size=2).filter(lambda l: l.count("raise") <= 1),
        "mic_ok": st.sampled_from([True, True, False]),
        "abort": st.sampled_from([None, None, None, "response", "token"]),
    }
)
step = st.one_of(
    st.just({"k": "none"}),
    st.fixed_dictionaries({"k": st.just("password"), "pw": st.sampled_from(["good", "bad"]), "change": st.sampled_from([False, False, False, True])}),
    pk_step(),
    pk_step(),
    st.fixed_dictionaries({"k": st.just("kbd"), "sub": st.sampled_from(["", "pam"])}),
    st.fixed_dictionaries({"k": st.just("resp"), "n": st.integers(0, 2)}),
    gss_step,
    st.fixed_dictionaries({"k": st.just("keyex"), "ctx": st.sampled_from([True, True, True, False]), "mic_ok": st.sampled_from([True, True, False])}),
    st.fixed_dictionaries({"k": st.just("other"), "method": st.sampled_from(["hostbased", "publickey2", "PASSWORD", ""])}),
)

USERS = STR_USERS + RAW_USERS
QRES = ["F", "P", "S", "query"]


@st.composite
def kbd_exchange(draw, min_rounds=0):
    """One keyboard-interactive exchange as a flat list of steps: the request (result "query" when
    rounds follow), then per round 0-2 interleaved steps of any kind (each naming, with probability
    ~1/3, a generated user instead of the session's) and the INFO_RESPONSE with its generated result."""
    nrounds = draw(st.integers(min_rounds, 3))
    first = "query" if nrounds else draw(_or_odd(st.sampled_from(["F", "P", "S", "query"]), 6))
    out = [{"k": "kbd", "sub": draw(st.sampled_from(["", "pam"])), "r": first}]
    for j in range(nrounds):
        for stp in draw(st.lists(step, max_size=2)):
            u = draw(st.sampled_from([None] * 10 + USERS))
            out.append(dict(stp, u=u) if u is not None and stp["k"] != "resp" else stp)
        r = "query" if j < nrounds - 1 else draw(_or_odd(st.sampled_from(["F", "P", "S", "S", "query"]), 6))
        out.append({"k": "resp", "n": draw(st.integers(0, 2)), "r": r})
    return out


@st.composite
def pk_twostep(draw):
    """The two-step publickey exchange of RFC 4252 section 7 as one block: the unsigned query for a key, 0-1 other
    steps, then the signed request for the same key and algorithm (valid or any forgery variant). The application's
    answer is generated PER CALL (absent = the case-wide policy), so it may differ between query and signed request."""
    key = draw(st.sampled_from(KEYNAMES))
    algo = draw(st.sampled_from(A.key_algos(key)))
    r1 = draw(_or_odd(st.sampled_from(["P", "S", "P", "S", "F", None]), 7))
    r2 = draw(_or_odd(st.sampled_from(["F", "P", "S", "P", "S", None]), 7))
    v = draw(st.sampled_from(["valid"] * 6 + [x for x in PK_VARIANTS if x != "probe"]))
    between = draw(st.lists(step, max_size=1)) if draw(st.integers(0, 3)) == 0 else []
    return [_pk(key, algo, "probe", r=r1)] + between + [_pk(key, algo, v, draw(st.integers(0, 9)), r2, draw(st.integers(0, 11)))]


@st.composite
def case_strategy(draw, exchange_centred=False):
    """exchange_centred: 0-2 single steps, one or two multi-message exchanges (multi-round keyboard-interactive with
    interleaved steps, or publickey query + signed request), 0-2 single steps; otherwise an arbitrary sequence of
    all kinds of block."""
    user = draw(users)
    single = step.map(lambda x: [x])
    if exchange_centred:
        xch = st.one_of(kbd_exchange(min_rounds=1), kbd_exchange(min_rounds=1).map(lambda x: x), pk_twostep())
        blocks = draw(st.lists(single, max_size=2)) + draw(st.lists(xch, min_size=1, max_size=2)) + draw(st.lists(single, max_size=2))
    else:
        blocks = draw(st.lists(st.one_of(single, single.map(lambda x: x), single.map(lambda x: x), kbd_exchange(), pk_twostep()), min_size=1, max_size=9))
    steps = []
    for b in blocks:
        for stp in b:
            if "u" not in stp and stp["k"] != "resp":
                # any request may name another user (the first evaluated name is what the server pins)
                u = draw(st.sampled_from([None] * 30 + USERS))
                if u is not None:
                    stp = dict(stp, u=u)
            if stp.get("u") == user:
                stp = {k: v for k, v in stp.items() if k != "u"}
            steps.append(stp)
    return {"user": user, "gss": draw(st.sampled_from([True, True, False])), "policy": draw(policies()), "steps": steps[:16]}


case_st = case_strategy()
exchange_st = case_strategy(exchange_centred=True)


# ----------------------------------------------------------------------------- execution


def make_policy(case, cur=None):
    """`cur` (dict) is filled by execute(): cur["step"] = the step being driven. A kbd / resp step
    carrying "r" dictates the application's answer for exactly that message; otherwise the
    case-wide policy ("kbd", and "rounds" indexed by the number of responses judged so far) applies."""
    from paramiko.server import InteractiveQuery

    pol = case["policy"]
    cur = cur if cur is not None else {}
    state = {"round": 0}

    def q():
        return InteractiveQuery("verif", "answer", ("Password: ", False))

    def planned(kind):
        stp = cur.get("step")
        return stp.get("r") if stp is not None and stp.get("k") == kind else None

    ticked = set()  # methods whose check answered PARTIALLY_SUCCESSFUL so far (a shrinking list drops them)

    def tick(cb, v):
        if type(v) is int and v == peers.AUTH_PARTIALLY_SUCCESSFUL:
            ticked.add(METHOD_OF_CB[cb])
        return v

    def pk(user, blob):
        name = A.blob_key_name(blob)
        return tick("check_auth_publickey", RES[planned("pk") or pol["pk"].get(name, pol["pk"]["default"])])

    def kbd(user, sub):
        r = planned("kbd") or pol["kbd"]
        return q() if r == "query" else tick("check_auth_interactive", RES[r])

    def rounds(responses):
        i = state["round"]
        state["round"] += 1
        r = planned("resp") or (pol["rounds"][i] if i < len(pol["rounds"]) else "F")
        return q() if r == "query" else tick("check_auth_interactive_response", RES[r])

    def allowed(username):
        lst = pol.get("allowed")
        lst = FULL_ALLOWED if lst is None else lst
        if pol.get("shrink"):
            lst = ",".join(m for m in lst.split(",") if m and m not in ticked)
        return lst

    return {
        "check_auth_none": lambda u: tick("check_auth_none", RES[pol["none"]]),
        "check_auth_password": lambda u, p: tick("check_auth_password", RES[pol["password"].get(p, "F")]),
        "check_auth_publickey": pk,
        "check_auth_interactive": kbd,
        "check_auth_interactive_response": rounds,
        "check_auth_gssapi_with_mic": lambda u, g: tick("check_auth_gssapi_with_mic", RES[pol["gssmic"]]),
        "check_auth_gssapi_keyex": lambda u, g: tick("check_auth_gssapi_keyex", RES[pol["keyex"]]),
        "enable_auth_gssapi": bool(case["gss"]),
        "get_allowed_auths": allowed,
    }


def build_pk(sid, user, stp):
    """-> (request payload, proof_valid) ; the validity is decided by the independent verifier."""
    key, algo, v = stp["key"], stp["algo"].encode(), stp["v"]
    kb = A.pub_blob(key)  # certificate keys: the certificate blob (it is what the request carries and what is signed)
    ub = wire_name(user)
    if v == "probe":
        return A.req_pk_probe(ub, algo, kb), False
    d = dict(sid=sid, user=ub, service=A.CONN, algo=algo, keyblob=kb, method=b"publickey", omit_sid=False)
    signer, sigalgo = key, sig_algo(stp["algo"]).encode()
    if v == "sid-other":
        d["sid"] = A.donor_sid()
    elif v == "sid-omitted":
        d["omit_sid"] = True
    elif v == "sid-empty":
        d["sid"] = b""
    elif v == "user":
        alts = user_alternatives(ub)
        d["user"] = alts[stp.get("ualt", 0) % len(alts)][1]
    elif v == "service":
        d["service"] = b"ssh-userauth"
    elif v == "algo":
        alts = algo_alternatives(key, stp["algo"])
        d["algo"] = alts[stp.get("alt", 0) % len(alts)].encode()
    elif v == "key":
        d["keyblob"] = A.pub_blob(SIBLING.get(key, "ed25519"))
    elif v == "signer":
        signer = A.SIBLING.get(A.base_key(key))
        if signer is None:  # no second key on that curve: sign with the right key over flipped data instead
            signer = key
            d["user"] = ub + b"\x00"
    elif v == "method":
        d["method"] = b"password"
    elif v == "sigalg":
        others = [sig_algo(a) for a in A.key_algos(key) if sig_algo(a).encode() != sigalgo]
        if others:
            sigalgo = others[-1].encode()
    sig = A.sign(signer, sigalgo, A.session_blob(**d))
    if v == "trunc":
        sig = sig[:-1]
    elif v == "bitflip":
        sig = sig[:-1] + bytes([sig[-1] ^ 1])
    elif v == "nosig":
        sig = None
    elif v == "emptysig":
        sig = b""
    good = A.session_blob(sid, ub, A.CONN, algo, kb)
    vk = A.plain_blob(key)  # the public key the proof must verify under (inside the certificate for certificate keys)
    valid = sig is not None and A.ref_verify(vk, good, sig)
    if v == "trunc" and not valid and A.ref_verify(vk, good, sig + b"\x00"):
        # the dropped byte was 0x00: paramiko's Message reader zero-fills short reads, so what the
        # server decodes IS the untruncated valid signature. That leniency is a wire-decoding matter
        # (C38/C39), not a proof accepted without the key: treated as a valid proof here.
        valid = True
    return A.req_pk_signed(ub, algo, kb, sig), valid


def alt_kind(stp):
    """Evidence class of an "algo" forgery: what the name written into the signed data is, relative to the declared one."""
    key, algo = stp["key"], stp["algo"]
    alts = algo_alternatives(key, algo)
    alt = alts[stp.get("alt", 0) % len(alts)]
    if alt == "":
        return "empty"
    if alt == algo + "x":
        return "near-miss"
    if alt == R.Reader(A.pub_blob(key)).string().decode():
        return "key-type-of-the-blob"
    if sig_algo(alt) == sig_algo(algo):
        return "certificate-suffix-toggled"
    return "other-algorithm-of-the-family"


REQUEST_KINDS = ("none", "password", "pk", "kbd", "gssmic", "keyex", "other")


def granted_user(server):
    """Transport.get_username() - while a GssapiWithMicAuthHandler is installed that call raises
    (the handler has no get_username); the delegate's view is used then."""
    try:
        return server.get_username()
    except AttributeError:
        ah = server.auth_handler
        return getattr(getattr(ah, "_delegate", ah), "auth_username", None)


def execute(ctx, case, classes):
    """Runs the program. Returns dict(violation=(clause, bucket, detail)|None, at=index of the last
    executed step, why='granted'|'dead'|'end', nontrivial=bool). Reports nothing itself."""
    user = case["user"]
    pol = case["policy"]
    steps = case["steps"]
    stub = A.GssStub({})
    out = {"violation": None, "at": -1, "why": "end", "nontrivial": False}
    cur = {}
    srv = peers.RecordingServer(make_policy(case, cur), allowed="password,publickey,keyboard-interactive,gssapi-with-mic,gssapi-keyex,none")
    kx = None  # the open keyboard-interactive exchange: user, rounds judged, steps interleaved so far
    kbd_wire = None  # the name on the wire of the last keyboard-interactive request the application was asked about
    al = pol.get("allowed")
    classes.add("allowed-auths:" + ("full-list" if al is None else "empty" if al == "" else "only:" + al if "," not in al else "several") + (":shrinking" if pol.get("shrink") else ""))
    pkok = None  # ((key, algo), callback verdict) of the last publickey query answered with PK_OK
    first_user = None
    with A.gss_installed(stub):
        s = A.ServerSession(srv=srv)
        try:
            for i, stp in enumerate(steps):
                out["at"] = i
                cur["step"] = stp
                k = stp["k"]
                u = stp.get("u", user)
                n0 = s.ncalls()
                proof_ok = True
                probe = False
                nxt = steps[i + 1]["k"] if i + 1 < len(steps) else None
                if k != "resp":
                    classes.add("user-name-on-the-wire:" + ("text" if not isinstance(u, bytes) else "raw-bytes:valid-utf8" if is_utf8(u) else "raw-bytes:not-utf8") + (":first-request" if first_user is None else ""))
                    if first_user is None:
                        first_user = u
                    elif wire_name(u) != wire_name(first_user):
                        classes.add("request-names-another-user")
                        classes.add("other-user:" + k)
                        if kx is not None:
                            classes.add("other-user-inside-kbd-exchange")
                # ---- which callback is responsible, and what does the policy say
                if k == "none" or k == "other" or (k in ("gssmic", "keyex") and not case["gss"]):
                    cb, verdict = "check_auth_none", pol["none"]
                elif k == "password":
                    cb, verdict = ("check_auth_password", pol["password"][stp["pw"]]) if not stp["change"] else (None, "F")
                elif k == "pk":
                    cb, verdict = "check_auth_publickey", stp.get("r") or pol["pk"].get(A.base_key(stp["key"]), pol["pk"]["default"])
                elif k == "kbd":
                    cb, verdict = "check_auth_interactive", stp.get("r") or pol["kbd"]
                elif k == "resp":
                    cb = "check_auth_interactive_response"
                    resp_i = sum(1 for c in s.calls_since(0) if c[0] == cb)
                    verdict = stp.get("r") or (pol["rounds"][resp_i] if resp_i < len(pol["rounds"]) else "F")
                elif k == "gssmic":
                    cb, verdict = "check_auth_gssapi_with_mic", pol["gssmic"]
                    proof_ok = stp["mic_ok"]
                else:
                    cb, verdict = "check_auth_gssapi_keyex", pol["keyex"]
                    proof_ok = stp["mic_ok"] and stp["ctx"]
                # ---- drive
                if k == "none":
                    r = s.exchange(A.req_none(u))
                elif k == "other":
                    r = s.exchange(A.req_other(u, stp["method"]))
                elif k == "password":
                    r = s.exchange(A.req_password(u, stp["pw"], new_password="new" if stp["change"] else None))
                elif k == "pk":
                    payload, proof_ok = build_pk(s.sid, u, stp)
                    probe = stp["v"] == "probe"
                    classes.add("pk:" + stp["v"])
                    classes.add("pkalgo:" + stp["algo"])
                    if stp["v"] == "user":
                        alts_ = user_alternatives(wire_name(u))
                        classes.add("pk:user-field-signed-as:" + alts_[stp.get("ualt", 0) % len(alts_)][0])
                    if stp["v"] == "algo":
                        classes.add("pk:algo-field-signed-as:%s:declared=%s" % (alt_kind(stp), sig_algo(stp["algo"]) + ("+cert" if A.is_cert(stp["key"]) else "")))
                    r = s.exchange(payload)
                    # ---- the two-step exchange: query answered with PK_OK, then the signed request for the same key
                    same = (stp["key"], stp["algo"])
                    if probe:
                        pkok = (same, verdict) if 60 in [t for t, _ in r.replies] else None
                        if pkok:
                            classes.add("pk-query-answered-PK_OK:callback=" + verdict)
                    elif pkok is not None and pkok[0] == same:
                        classes.add("pk-two-step:query=%s,signed=%s:%s" % (pkok[1], verdict, "valid-proof" if proof_ok else "forged-proof"))
                        if pkok[1] != verdict:
                            classes.add("pk-two-step:callback-result-changed-between-query-and-signed-request")
                        if i and steps[i - 1] is not None and not (steps[i - 1].get("k") == "pk" and steps[i - 1].get("v") == "probe"):
                            classes.add("pk-two-step:with-interleaved-step")
                        pkok = None
                elif k == "kbd":
                    r = s.exchange(A.req_kbdint(u, stp["sub"]))
                elif k == "resp":
                    r = s.exchange(A.info_response(["x"] * stp["n"]))
                elif k == "keyex":
                    s.server.kexgss_ctxt = A.GssStub({"mic_ok": stp["mic_ok"]}) if stp["ctx"] else None
                    r = s.exchange(A.req_gss_keyex(u, b"mic-token"))
                    if case["gss"] and not stp["ctx"]:
                        classes.add("keyex-without-context")
                else:  # gssmic
                    r = drive_gssmic(s, stub, u, stp, case["gss"], nxt, classes)
                replies, dead = r.replies, r.dead
                calls = s.calls_since(n0)
                granted = 52 in [t for t, _ in replies] or s.authed()
                # the responsible callback was invoked - about the name that stands on the wire / about some name
                invoked = cb is not None and any(c[0] == cb and (cb == "check_auth_interactive_response" or names_wire(c[1][0], u)) for c in calls)
                invoked_any = cb is not None and any(c[0] == cb for c in calls)
                if k == "kbd" and invoked_any:
                    kbd_wire = u
                for t_, p_ in replies:
                    if t_ == 51:
                        try:
                            left, partial = A.parse_failure(p_)
                        except R.RefError:
                            continue
                        left = [m for m in left if m]
                        if partial:
                            classes.add("partial-success-answer:methods-left=" + ("none" if not left else "1" if len(left) == 1 else "several"))
                        elif not left:
                            classes.add("failure-answer:methods-left=none")
                if verdict != "S" or not proof_ok or probe:
                    out["nontrivial"] = True
                classes.add("step:" + k)
                if is_odd(verdict) and invoked:
                    # the responsible callback really answered this message with a value outside the documented constants
                    classes.add("callback-verdict-outside-documented-constants")
                    classes.add("undocumented-verdict:%s:%s" % (cb, verdict))
                    classes.add("undocumented-verdict-answered-with:" + ",".join(A.reply_kinds(replies)[:2]))
                # ---- bookkeeping of the keyboard-interactive exchange (evidence classes only)
                asked = [c[1][0] for c in s.calls_since(0) if c[0] == "check_auth_interactive"]
                got_query = k in ("kbd", "resp") and 60 in [t for t, _ in replies]
                if k == "resp":
                    if kx is None:
                        classes.add("info-response-without-open-exchange")
                    else:
                        kx["rounds"] += 1
                        if not got_query:  # the exchange got its final answer
                            classes.add("kbd-exchange:rounds=%d" % kx["rounds"])
                            if kx["between"]:
                                classes.add("kbd-exchange:interleaved-steps=%d" % min(kx["between"], 3))
                                classes.add("kbd-exchange-with-interleaved-requests:" + ("granted" if granted else "not-granted"))
                            kx = None
                else:
                    if kx is not None:
                        kx["between"] += 1
                    if k == "kbd":
                        if got_query:
                            kx = {"rounds": 0, "between": 0}
                        else:
                            classes.add("kbd-exchange:rounds=0")
                if granted:
                    classes.add("granted:" + k)
                    out["why"] = "granted"
                    method = {"pk": "publickey", "kbd": "keyboard-interactive", "resp": "keyboard-interactive", "gssmic": "gssapi-with-mic", "keyex": "gssapi-keyex"}.get(k, k)
                    who = granted_user(s.server)
                    approved_user = (asked[-1] if asked else None) if k == "resp" else u
                    detail = "step %d %r (user %r): replies %s, callbacks during the step %r, policy verdict %r, proof_ok=%s, get_username()=%r" % (i, stp, u, A.reply_kinds(replies), [(c[0],) + tuple(c[1][:1]) for c in calls], verdict, proof_ok, who)
                    if probe:
                        out["violation"] = ("probe-granted", "publickey:probe", detail)
                    elif not invoked and invoked_any:
                        out["violation"] = ("granted-for-another-user", "%s:application-asked-about-a-name-that-is-not-the-name-on-the-wire" % method, detail + "; name on the wire %r" % wire_name(u))
                    elif not invoked:
                        out["violation"] = ("granted-without-approval", "%s:callback-not-invoked" % method, detail)
                    elif is_odd(verdict):
                        # fail-open mapping of the verdict: anything that is not one of the refusing constants counts as success
                        out["violation"] = ("granted-without-approval", "%s:callback-result-outside-documented-constants-treated-as-success" % method, detail)
                    elif verdict != "S":
                        out["violation"] = ("granted-without-approval", "%s:callback-result-ignored" % method, detail)
                    elif not proof_ok:
                        b = "publickey:" + stp["v"] if k == "pk" else method + ":mic-rejected"
                        out["violation"] = ("granted-without-valid-proof", b, detail)
                    elif k == "resp" and kbd_wire is not None and asked and not names_wire(asked[-1], kbd_wire):
                        out["violation"] = ("granted-for-another-user", "%s:application-asked-about-a-name-that-is-not-the-name-on-the-wire" % method, detail + "; the exchange was opened by a request naming %r, check_auth_interactive was asked about %r" % (wire_name(kbd_wire), asked[-1]))
                    elif approved_user is not None and not names_wire(who, approved_user):
                        out["violation"] = (
                            "granted-for-another-user",
                            "%s:get_username-differs-from-approved-user" % method,
                            detail + "; the application approved %r (users its callbacks were asked about: %r)" % (approved_user, sorted(set(c[1][0] for c in s.calls_since(0) if c[0].startswith("check_auth_") and c[1] and isinstance(c[1][0], str)))),
                        )
                    else:
                        classes.add("legitimate-grant")
                        if k == "resp":
                            classes.add("legitimate-grant:after-%d-rounds" % (sum(1 for c in s.calls_since(0) if c[0] == "check_auth_interactive_response")))
                    return out
                elif verdict == "S" and proof_ok and not probe and not dead and k != "gssmic":
                    # approving callback + valid proof but no grant: not part of the statement, only counted
                    classes.add("approved-but-not-granted:" + k)
                if dead:
                    classes.add("ended:" + k)
                    if k != "resp" and wire_name(u) != wire_name(first_user):
                        classes.add("ended:request-for-another-user")
                    out["why"] = "dead"
                    return out
            return out
        finally:
            s.close()


def run_case(ctx, case, record=True):
    """Execute + report. A violating multi-step program is re-run reduced to the offending step
    (then to the prefix ending there) so that the stored replay is minimal."""
    classes = set()
    res = execute(ctx, case, classes)
    if record:
        ctx.case(case, res["nontrivial"], sorted(classes))
    v = res["violation"]
    if v is None:
        return res
    best = case
    i = res["at"]
    if len(case["steps"]) > 1 and not ctx.replaying:
        for cand_steps in ([case["steps"][i]], case["steps"][: i + 1]):
            if len(cand_steps) == len(best["steps"]):
                continue
            cand = dict(case, steps=cand_steps)
            r2 = execute(ctx, cand, set())
            if r2["violation"] is not None and r2["violation"][:2] == v[:2]:
                best, v = cand, r2["violation"]
                break
    ctx.violation(v[0], v[1], best, v[2])
    return res


def drive_gssmic(s, stub, user, stp, gss_enabled, nxt, classes=None):
    """Runs one gssapi-with-mic exchange; returns a Step holding every reply of the exchange."""
    stub.plan = {"mech_ok": stp["mech_ok"], "mic_ok": stp["mic_ok"]}
    stub._tok = list(stp["tokens"])
    oids = (A.KRB5_OID,) * stp["oids"]
    if not gss_enabled:
        return s.exchange(A.req_gss_mic(user, oids))
    replies = []
    r = s.exchange(A.req_gss_mic(user, oids), sentinel=False, expect=1)
    replies += r.replies
    if r.dead or [t for t, _ in r.replies] != [60] or stp["oids"] > 1 or not stp["mech_ok"]:
        # the server disconnected (or is about to): synchronise on the end of the session
        r2 = s.exchange(None)
        return A.Step(replies + r2.replies, r2.dead or r.dead)
    can_abort = nxt in REQUEST_KINDS
    if stp["abort"] == "response" and can_abort:
        if classes is not None:
            classes.add("gss-exchange-abandoned-after:response")
        return A.Step(replies, False)
    for t in stp["tokens"]:
        r = s.exchange(A.gss_token(b"client-token"), sentinel=False, expect=0 if t is None else 1)
        replies += r.replies
        if t == "raise" or r.dead:
            r2 = s.exchange(None)
            return A.Step(replies + r2.replies, True if r2.dead else r.dead)
    if stp["abort"] == "token" and can_abort and stp["tokens"]:
        if classes is not None:
            classes.add("gss-exchange-abandoned-after:token")
        return A.Step(replies, False)
    r = s.exchange(A.gss_mic(b"mic-token"))
    return A.Step(replies + r.replies, r.dead)


BASE_POLICY = {"none": "F", "password": {"good": "S", "bad": "F"}, "pk": {"default": "S"}, "kbd": "query", "rounds": ["S"], "gssmic": "S", "keyex": "S"}


def focused_cases(quick):
    """Finite sub-domain enumerated in every run: every signature variant for every key type /
    algorithm against an approving callback (two sessions per key/algorithm, each ending with a
    valid request as control), every GSS outcome combination against every callback verdict, every
    simple method against every verdict. (quick: 5 key/algorithm pairs; thorough: all 12.)"""
    out = []

    def pol(**kw):
        p = core.from_json(core.to_json(BASE_POLICY))
        p.update(kw)
        return p

    keys_ = ("ed25519", "ecdsa256", "rsa2048", "rsa2048-cert") if quick else ("ed25519", "ecdsa256", "ecdsa384", "ecdsa521", "rsa2048", "rsa1024") + tuple(CERTKEYS)
    forged = [v for v in PK_VARIANTS if v not in ("valid", "sigalg", "algo")]
    for key in keys_:
        for algo in A.key_algos(key):
            # the "algorithm field changed" forgery with every alternative name
            algo_forgeries = [_pk(key, algo, "algo", alt=j) for j in range(len(algo_alternatives(key, algo)))]
            parts = [[_pk(key, algo, v) for v in forged[:8]], [_pk(key, algo, v) for v in forged[8:] + ["sigalg"]]]
            parts += [algo_forgeries[j : j + 8] for j in range(0, len(algo_forgeries), 8)]
            for part in parts:
                out.append({"user": "alice", "gss": False, "policy": pol(), "steps": part + [_pk(key, algo, "valid")]})
    # the two-step exchange (query, then signed request for the same key) under every pair of per-call callback
    # results, with a valid proof and with a forged one (quick: 3 key/algorithm pairs; thorough: all)
    two = [("ed25519", "ssh-ed25519"), ("rsa2048", "rsa-sha2-512"), ("rsa2048-cert", "rsa-sha2-256" + A.CERT_SUFFIX)] if quick else [(k, a) for k in KEYNAMES for a in A.key_algos(k)]
    for n, (key, algo) in enumerate(two):
        for r1 in ("F", "P", "S"):
            for r2 in ("F", "P", "S"):
                for v in ("valid", "sid-other", "algo", "bitflip", "user", "signer")[: 6 if not quick else 4 if n == 0 else 2]:
                    steps = [_pk(key, algo, "probe", r=r1), _pk(key, algo, v, alt=n, r=r2)]
                    out.append({"user": "alice", "gss": False, "policy": pol(pk={"default": "F"}), "steps": steps})
    for verdict in ("F", "P", "S"):
        for mic_ok in (True, False):
            for tokens in ([b"srv-token"], [None], [b"srv-token", None], [], ["raise"]):
                stp = {"k": "gssmic", "mech_ok": True, "oids": 1, "tokens": tokens, "mic_ok": mic_ok, "abort": None}
                out.append({"user": "alice", "gss": True, "policy": pol(gssmic=verdict), "steps": [stp]})
            for ctxt in (True, False):
                out.append({"user": "alice", "gss": True, "policy": pol(keyex=verdict), "steps": [{"k": "keyex", "ctx": ctxt, "mic_ok": mic_ok}]})
        out.append({"user": "alice", "gss": True, "policy": pol(none=verdict), "steps": [{"k": "none"}, {"k": "other", "method": "hostbased"}]})
        out.append({"user": "alice", "gss": False, "policy": pol(none=verdict), "steps": [{"k": "keyex", "ctx": True, "mic_ok": True}]})
        out.append({"user": "alice", "gss": True, "policy": pol(password={"good": verdict, "bad": "F"}), "steps": [{"k": "password", "pw": "good", "change": True}, {"k": "password", "pw": "good", "change": False}]})
        out.append({"user": "alice", "gss": True, "policy": pol(kbd=verdict), "steps": [{"k": "kbd", "sub": ""}]})
        for first in ("query", "P", "F"):
            out.append({"user": "alice", "gss": True, "policy": pol(kbd=first, rounds=["query", verdict]), "steps": [{"k": "kbd", "sub": ""}, {"k": "resp", "n": 1}, {"k": "resp", "n": 1}]})
            out.append({"user": "alice", "gss": True, "policy": pol(kbd=first, rounds=[verdict]), "steps": [{"k": "resp", "n": 0}]})
    # every method whose callback answers with a verdict OUTSIDE the documented constants (each of the 8 values; the proof,
    # where the method has one, is valid): none / unknown method, password, publickey (signed at once, and query + signed
    # request), keyboard-interactive (answered at once / after a query round), gssapi-with-mic, gssapi-keyex
    # (quick: every value x every method, one shape each; thorough: also the per-call forms and both GSS token shapes)
    for x in ODDS:
        out.append({"user": "alice", "gss": True, "policy": pol(none=x), "steps": [{"k": "none"}, {"k": "other", "method": "hostbased"}]})
        out.append({"user": "alice", "gss": True, "policy": pol(password={"good": x, "bad": x}), "steps": [{"k": "password", "pw": "bad", "change": False}, {"k": "password", "pw": "good", "change": False}]})
        out.append({"user": "alice", "gss": False, "policy": pol(pk={"default": x}), "steps": [_pk("ed25519", "ssh-ed25519", "valid"), _pk("rsa2048", "rsa-sha2-256", "probe"), _pk("rsa2048", "rsa-sha2-256", "valid")]})
        out.append({"user": "alice", "gss": True, "policy": pol(kbd=x), "steps": [{"k": "kbd", "sub": ""}]})
        out.append({"user": "alice", "gss": True, "policy": pol(kbd="query", rounds=[x]), "steps": [{"k": "kbd", "sub": ""}, {"k": "resp", "n": 1}]})
        out.append({"user": "alice", "gss": True, "policy": pol(gssmic=x), "steps": [{"k": "gssmic", "mech_ok": True, "oids": 1, "tokens": [b"srv-token"], "mic_ok": True, "abort": None}]})
        out.append({"user": "alice", "gss": True, "policy": pol(keyex=x), "steps": [{"k": "keyex", "ctx": True, "mic_ok": True}]})
        if not quick:
            out.append({"user": "alice", "gss": False, "policy": pol(none=x), "steps": [{"k": "keyex", "ctx": True, "mic_ok": True}]})
            out.append({"user": "alice", "gss": True, "policy": pol(gssmic=x), "steps": [{"k": "gssmic", "mech_ok": True, "oids": 1, "tokens": [None], "mic_ok": True, "abort": None}]})
            out.append({"user": "alice", "gss": True, "policy": pol(kbd="query", rounds=["query", x]), "steps": [{"k": "kbd", "sub": ""}, {"k": "resp", "n": 1}, {"k": "resp", "n": 1}]})
            for r1 in ("F", "P", "S", x):
                for r2 in ("F", "P", "S", x):
                    if x in (r1, r2):
                        out.append({"user": "alice", "gss": False, "policy": pol(pk={"default": "F"}), "steps": [_pk("ed25519", "ssh-ed25519", "probe", r=r1), _pk("ed25519", "ssh-ed25519", "valid", r=r2)]})
    # keyboard-interactive exchanges (1 and 2 rounds) with every kind of request interleaved before the
    # final round, naming the same user or another one, against every final verdict
    between = [
        {"k": "none"},
        {"k": "password", "pw": "bad", "change": False},
        {"k": "password", "pw": "good", "change": True},
        {"k": "pk", "key": "ed25519", "algo": "ssh-ed25519", "v": "probe"},
        {"k": "pk", "key": "ed25519", "algo": "ssh-ed25519", "v": "sid-other"},
        {"k": "kbd", "sub": "", "r": "F"},
        {"k": "other", "method": "hostbased"},
        {"k": "keyex", "ctx": True, "mic_ok": True},
        {"k": "gssmic", "mech_ok": True, "oids": 1, "tokens": [b"srv-token"], "mic_ok": True, "abort": "response"},
    ]
    for verdict in ("F", "P", "S"):
        for x in between:
            for who in (None, "mallory"):
                xs = dict(x, u=who) if who else x
                for nrounds in (1, 2):
                    steps = [{"k": "kbd", "sub": "", "r": "query"}]
                    if nrounds == 2:
                        steps.append({"k": "resp", "n": 1, "r": "query"})
                    steps += [xs, {"k": "none"}, {"k": "resp", "n": 1, "r": verdict}]
                    out.append({"user": "alice", "gss": True, "policy": pol(keyex="F", pk={"default": "P"}), "steps": steps})
    # ---- the application's list of methods that can continue (get_allowed_auths): empty / only the method just tried / that
    # list shrinking once the method answered PARTIAL - against the non-success verdicts, for every method; and a two-factor
    # application whose list is used up by two PARTIAL verdicts
    gssm = {"k": "gssmic", "mech_ok": True, "oids": 1, "tokens": [b"srv-token"], "mic_ok": True, "abort": None}
    by_method = [
        ("none", lambda v: dict(none=v), [{"k": "none"}]),
        ("password", lambda v: dict(password={"good": v, "bad": "F"}), [{"k": "password", "pw": "good", "change": False}]),
        ("publickey", lambda v: dict(pk={"default": v}), [_pk("ed25519", "ssh-ed25519", "valid")]),
        ("keyboard-interactive", lambda v: dict(kbd=v), [{"k": "kbd", "sub": ""}]),
        ("keyboard-interactive", lambda v: dict(kbd="query", rounds=[v]), [{"k": "kbd", "sub": ""}, {"k": "resp", "n": 1}]),
        ("gssapi-with-mic", lambda v: dict(gssmic=v), [gssm]),
        ("gssapi-keyex", lambda v: dict(keyex=v), [{"k": "keyex", "ctx": True, "mic_ok": True}]),
    ]
    for method, kw, steps in by_method:
        for v in ("P", "F"):
            for allowed, shrink in (("", False), (method, False), (method, True)):
                out.append({"user": "alice", "gss": True, "policy": pol(allowed=allowed, shrink=shrink, **kw(v)), "steps": steps})
    for second in ("P", "S", "F"):
        out.append({"user": "alice", "gss": False, "policy": pol(allowed="password,publickey", shrink=True, password={"good": "P", "bad": "F"}, pk={"default": second}), "steps": [{"k": "password", "pw": "good", "change": False}, _pk("ed25519", "ssh-ed25519", "valid")]})
    # ---- user names of a raw client (bytes that are not valid UTF-8, the name a lossy decoder makes of them, mixed case,
    # non-ASCII): every method with an APPROVING application and a valid proof, and the publickey request whose signature
    # was made over every alternative form of the name (lossy decodings, case, normal forms, cut, padded, empty)
    for name in RAW_USERS + ["Alice", "böb"]:
        singles = [
            (dict(), [{"k": "password", "pw": "good", "change": False}]),
            (dict(none="S"), [{"k": "none"}]),
            (dict(kbd="S"), [{"k": "kbd", "sub": ""}]),
            (dict(), [{"k": "kbd", "sub": ""}, {"k": "resp", "n": 1}]),
            (dict(), [gssm]),
            (dict(), [{"k": "keyex", "ctx": True, "mic_ok": True}]),
            (dict(), [_pk("ed25519", "ssh-ed25519", "valid")]),
        ]
        for kw, steps in singles:
            out.append({"user": name, "gss": True, "policy": pol(**kw), "steps": steps})
        forged = [_pk("ed25519", "ssh-ed25519", "user", ualt=j) for j in range(len(user_alternatives(wire_name(name))))]
        for j in range(0, len(forged), 8):
            out.append({"user": name, "gss": False, "policy": pol(), "steps": forged[j : j + 8] + [_pk("rsa2048", "rsa-sha2-256", "valid")]})
    return out


def run(ctx):
    ctx.set_budget(75, 780)
    ctx.assume("an unknown method name (and a GSS method while enable_auth_gssapi() is false) is decided by check_auth_none, as the code documents by falling through to it")
    ctx.assume("GSS-API itself is a stub (no GSS library installed): only paramiko's use of the MIC verdict and of the application callback is exercised")
    ctx.assume("a signature string cut short by a 0x00 byte decodes (Message zero-fills short reads) to the valid signature and is treated as such")
    focus = [c for i, c in enumerate(focused_cases(ctx.quick)) if i % ctx.nworkers == ctx.worker]
    done = 0
    while focus and not ctx.out_of_time():
        c = focus.pop(0)
        res = run_case(ctx, c)
        done += 1
        # a forged request that ended the session hides the steps behind it: run them separately
        if res["why"] == "dead" and res["violation"] is None and res["at"] + 1 < len(c["steps"]):
            focus.insert(0, dict(c, steps=c["steps"][res["at"] + 1 :]))
    ctx.note("focused_cases_enumerated", done)
    ctx.explore(case_st, lambda c: run_case(ctx, c), ctx.scale(200, 2600), shrink=False)
    ctx.explore(exchange_st, lambda c: run_case(ctx, c), ctx.scale(200, 1800), shrink=False, seed_offset=1)
    if ctx.classes.get("legitimate-grant", 0) == 0 and not ctx.budget_hit and not ctx.unknown and not ctx.known_hits:
        raise core.HarnessError("no approving+valid request was ever granted: the harness would be vacuous")


def replay(ctx, case):
    run_case(ctx, case)
