"""C15 - unauthenticated clients cannot reach connection-layer services.

Tested side: server-mode Transport + RecordingServer. A raw puppet client runs a generated
program: failing / partially succeeding / pending authentication attempts interleaved with
connection-layer messages of every type 80..100 (well-formed payloads built with the reference
encoders for every request kind, truncated ones, and random bytes; channel ids 0..3 and random).
Afterwards (if the session survived) it authenticates for real and repeats connection-layer
requests as control.
Key re-exchanges are part of the program alphabet ("rekey" items): a complete re-key started by the SERVER
(Transport.renegotiate_keys of the tested side) or by the client, with 0..3 generated connection-layer messages written by
the client INSIDE the exchange window - at the moment the peer's KEXINIT arrives, i.e. for a server-started exchange between
the server's KEXINIT and the client's own (RFC 4253 7.1 "messages in flight"), for a client-started one behind the client's
KEXINIT (a protocol error the server may answer by ending the session). Replies the server holds back until NEWKEYS are
collected after the exchange and judged by the same clauses.
The application object is a dimension too: the ServerInterface handed to start_server is drawn from flavours an application
may legitimately be (plain; defines __len__ -> 0 / __bool__ -> False, i.e. falsy; an empty dict subclass; __eq__ answering
True / False to everything; __len__ > 0): "a server" in the statement is decided by how the transport was started, never by
what the application object looks like.

Oracle while no USERAUTH_SUCCESS has been sent (checked after every message, ordering by the
UNIMPLEMENTED sentinel of vlib.authkit, no sleeps):
 * the application callback log contains no check_channel_*, check_port_forward_request,
   cancel_port_forward_request, check_global_request entry;
 * no channel exists or was ever allocated (Transport._channels, channels_seen, server_accepts;
   accept(0) is None at the end of the phase);
 * nothing the server sends accepts anything: no REQUEST_SUCCESS, CHANNEL_OPEN_CONFIRMATION,
   CHANNEL_SUCCESS, nor any channel traffic (types 90, 93..99);
 * a well-formed GLOBAL_REQUEST(want_reply) is answered by REQUEST_FAILURE and a well-formed
   CHANNEL_OPEN by CHANNEL_OPEN_FAILURE for the sender's channel number - or the session ends.
A session that dies (including the known pre-auth crash on types 81/82/91/92, which is C38's
finding) satisfies the statement: nothing was delivered.
Control after authentication: tcpip-forward, session open and a shell request DO reach the
application (guards against a vacuous pass).
Besides the generated programs, quick enumerates: every type 80..100 right after a failed and after a partial attempt; every
type 80..100 inside the window of a server-started and of a client-started re-key after a failed attempt; GLOBAL_REQUEST and
CHANNEL_OPEN after a failed attempt for every application-object flavour.
"""
from hypothesis import strategies as st

from vlib import authkit as A
from vlib import core, peers
from vlib import refssh as R

PROPERTY = "C15"
LEVEL = "exploration"
THOROUGH_WORKERS = 16
RULE = (
    "hypothesis-generated pre-authentication programs (1..14 items) mixing auth attempts that never succeed (none, password, "
    "publickey probe, forged publickey signature, keyboard-interactive query + responses; callback verdicts FAILED/PARTIAL generated) "
    "with messages of every type 80..100 (structured payloads for every global-request / channel-open / channel-request kind, "
    "channel ids 0..3 and random, truncations, random bytes) and with complete key re-exchanges (started by the server or by the client, "
    "0..3 generated connection-layer messages written by the client inside the exchange window = when the peer's KEXINIT arrives); the "
    "application object handed to start_server is drawn from 7 flavours (plain, falsy via __len__ / __bool__, empty dict subclass, __eq__ "
    "always True / always False, truthy __len__); quick additionally enumerates every type 80..100 once after a failed and "
    "once after a partial authentication, once inside a server-started and once inside a client-started re-key window, and types 80/90 "
    "for every application flavour; followed by a real authentication and control requests; non-trivial = at least one "
    "connection-layer message sent after a failed or partial authentication attempt; distinct by (application flavour, policy, program)"
)

FORBIDDEN_CB = ("check_channel", "check_port_forward_request", "cancel_port_forward_request", "check_global_request")
FORBIDDEN_REPLY = frozenset([81, 90, 91, 93, 94, 95, 96, 97, 98, 99])
RES = {"F": peers.AUTH_FAILED, "P": peers.AUTH_PARTIALLY_SUCCESSFUL, "S": peers.AUTH_SUCCESSFUL}
USER = "alice"

# ----------------------------------------------------------------------------- payload generators

chan_ids = st.one_of(st.integers(0, 3), st.integers(0, 0xFFFFFFFF))
small = st.binary(max_size=24)
names = st.text(alphabet="abcdefghijklmnopqrstuvwxyz-@.0123456789", min_size=1, max_size=16).map(lambda s: s.encode())
ports = st.integers(0, 65535)


def _b(*parts):
    return b"".join(parts)


global_req = st.one_of(
    st.builds(lambda n, w, a, p: _b(R.string(n), R.boolean(w), R.string(a), R.u32(p)), st.sampled_from([b"tcpip-forward", b"cancel-tcpip-forward"]), st.booleans(), st.sampled_from([b"", b"127.0.0.1", b"0.0.0.0"]), ports),
    st.builds(lambda n, w, rest: _b(R.string(n), R.boolean(w), rest), st.one_of(st.sampled_from([b"keepalive@openssh.com", b"hostkeys-00@openssh.com", b"no-more-sessions@openssh.com"]), names), st.booleans(), small),
)
chan_open = st.one_of(
    st.builds(lambda k, s, rest: _b(R.string(k), R.u32(s), R.u32(2097152), R.u32(32768), rest), st.one_of(st.sampled_from([b"session", b"auth-agent@openssh.com"]), names), chan_ids, st.sampled_from([b"", b"\x00"])),
    st.builds(
        lambda k, s, h, p: _b(R.string(k), R.u32(s), R.u32(2097152), R.u32(32768), R.string(h), R.u32(p), R.string(b"10.0.0.1"), R.u32(4321)),
        st.sampled_from([b"direct-tcpip", b"forwarded-tcpip"]),
        chan_ids,
        st.sampled_from([b"localhost", b"example.org"]),
        ports,
    ),
    st.builds(lambda s, p: _b(R.string(b"x11"), R.u32(s), R.u32(2097152), R.u32(32768), R.string(b"10.0.0.1"), R.u32(p)), chan_ids, ports),
)
chan_request = st.one_of(
    st.builds(lambda c, w: _b(R.u32(c), R.string(b"shell"), R.boolean(w)), chan_ids, st.booleans()),
    st.builds(lambda c, w, cmd: _b(R.u32(c), R.string(b"exec"), R.boolean(w), R.string(cmd)), chan_ids, st.booleans(), st.sampled_from([b"id", b"cat /etc/shadow"])),
    st.builds(lambda c, w, n: _b(R.u32(c), R.string(b"subsystem"), R.boolean(w), R.string(n)), chan_ids, st.booleans(), st.sampled_from([b"sftp", b"netconf"])),
    st.builds(lambda c, w: _b(R.u32(c), R.string(b"pty-req"), R.boolean(w), R.string(b"vt100"), R.u32(80), R.u32(24), R.u32(0), R.u32(0), R.string(b"")), chan_ids, st.booleans()),
    st.builds(lambda c, w: _b(R.u32(c), R.string(b"env"), R.boolean(w), R.string(b"LANG"), R.string(b"C")), chan_ids, st.booleans()),
    st.builds(lambda c, w: _b(R.u32(c), R.string(b"x11-req"), R.boolean(w), R.boolean(False), R.string(b"MIT-MAGIC-COOKIE-1"), R.string(b"00"), R.u32(0)), chan_ids, st.booleans()),
    st.builds(lambda c, w, n: _b(R.u32(c), R.string(n), R.boolean(w)), chan_ids, st.booleans(), st.one_of(st.sampled_from([b"auth-agent-req@openssh.com", b"window-change", b"signal", b"exit-status"]), names)),
)


def structured(t):
    if t == 80:
        return global_req
    if t == 81:
        return st.one_of(st.just(b""), ports.map(R.u32), small)
    if t == 90:
        return chan_open
    if t == 91:
        return st.builds(lambda r, s: _b(R.u32(r), R.u32(s), R.u32(2097152), R.u32(32768)), chan_ids, chan_ids)
    if t == 92:
        return st.builds(lambda r: _b(R.u32(r), R.u32(1), R.string(b"no"), R.string(b"")), chan_ids)
    if t == 93:
        return st.builds(lambda c, n: _b(R.u32(c), R.u32(n)), chan_ids, st.integers(0, 0xFFFFFFFF))
    if t == 94:
        return st.builds(lambda c, d: _b(R.u32(c), R.string(d)), chan_ids, small)
    if t == 95:
        return st.builds(lambda c, d: _b(R.u32(c), R.u32(1), R.string(d)), chan_ids, small)
    if t == 98:
        return chan_request
    if t in (96, 97, 99, 100):
        return chan_ids.map(R.u32)
    return st.one_of(st.just(b""), small)  # 82 and the unassigned 83..89


@st.composite
def msg_item(draw, types=tuple(range(80, 101))):
    t = draw(st.sampled_from(types))
    kind = draw(st.sampled_from(["wf", "wf", "wf", "trunc", "rand"]))
    if kind == "rand":
        p = draw(st.binary(max_size=40))
    else:
        p = draw(structured(t))
        if kind == "trunc" and p:
            p = p[: draw(st.integers(0, len(p) - 1))]
    return {"k": "msg", "t": t, "p": p}


auth_item = st.one_of(
    st.just({"k": "auth", "m": "none"}),
    st.just({"k": "auth", "m": "password"}),
    st.just({"k": "auth", "m": "pkprobe"}),
    st.just({"k": "auth", "m": "pkforged"}),
    st.just({"k": "auth", "m": "kbd"}),
    st.just({"k": "auth", "m": "resp"}),
)


def rekey_item(types):
    """A complete key re-exchange; `win` = connection-layer messages the client writes inside the exchange window."""
    return st.builds(lambda by, win: {"k": "rekey", "by": by, "win": win}, st.sampled_from(["server", "server", "client"]), st.lists(msg_item(types), max_size=3))


# application-object flavours (see app_object): what the ServerInterface instance handed to start_server looks like
APPS = ("plain", "len0", "bool-false", "empty-dict", "eq-everything", "eq-nothing", "len3")
MAX_REKEYS = 3


@st.composite
def cases(draw):
    safe = draw(st.sampled_from([True, False, False]))
    types = (80, 90) if safe else tuple(range(80, 101))
    elem = st.integers(0, 8).flatmap(lambda k: rekey_item(types) if k == 0 else auth_item if k < 4 else msg_item(types))
    items = draw(st.lists(elem, min_size=1, max_size=14))
    # keep clear of the ten-failures disconnect (C16's subject)
    n_auth = n_rekey = 0
    kept = []
    for it in items:
        if it["k"] == "auth":
            n_auth += 1
            if n_auth > 7:
                continue
        if it["k"] == "rekey":
            n_rekey += 1
            if n_rekey > MAX_REKEYS:
                continue
        kept.append(it)
    policy = {
        "none": draw(st.sampled_from(["F", "P"])),
        "password": draw(st.sampled_from(["F", "P"])),
        "pk": draw(st.sampled_from(["F", "P", "S"])),
        "kbd": draw(st.sampled_from(["F", "P", "query", "query"])),
        "resp": draw(st.sampled_from(["F", "P", "query"])),
    }
    return {"app": draw(st.sampled_from(("plain", "plain") + APPS)), "policy": policy, "pre": kept}


# ----------------------------------------------------------------------------- execution


def make_policy(pol):
    from paramiko.server import InteractiveQuery

    def q():
        return InteractiveQuery("verif", "answer", ("Password: ", False))

    return {
        "check_auth_none": RES[pol["none"]],
        "check_auth_password": lambda u, p: peers.AUTH_SUCCESSFUL if p == "the-real-password" else RES[pol["password"]],
        "check_auth_publickey": RES[pol["pk"]],
        "check_auth_interactive": lambda u, s: q() if pol["kbd"] == "query" else RES[pol["kbd"]],
        "check_auth_interactive_response": lambda r: q() if pol["resp"] == "query" else RES[pol["resp"]],
        "check_port_forward_request": lambda a, p: p or 4242,
        "check_channel_request": peers.OPEN_SUCCEEDED,
        "check_global_request": True,
    }


_APP_CLASSES = {}


def app_class(flavour):
    """RecordingServer subclasses an application may legitimately hand to start_server. None of this says anything about
    whether the transport is a server or whether the client is authenticated."""
    if not _APP_CLASSES:
        RS = peers.RecordingServer

        class Len0(RS):  # e.g. exposes the number of sessions it serves: 0 before anybody has logged in
            def __len__(self):
                return 0

        class Len3(RS):
            def __len__(self):
                return 3

        class BoolFalse(RS):
            def __bool__(self):
                return False

        class EmptyDict(dict, RS):  # a registry that is also the ServerInterface
            def __init__(self, *a, **kw):
                dict.__init__(self)
                RS.__init__(self, *a, **kw)

            __hash__ = object.__hash__

        class EqEverything(RS):
            def __eq__(self, other):
                return True

            def __ne__(self, other):
                return False

            __hash__ = object.__hash__

        class EqNothing(RS):
            def __eq__(self, other):
                return False

            def __ne__(self, other):
                return True

            __hash__ = object.__hash__

        _APP_CLASSES.update({"plain": RS, "len0": Len0, "len3": Len3, "bool-false": BoolFalse, "empty-dict": EmptyDict, "eq-everything": EqEverything, "eq-nothing": EqNothing})
    return _APP_CLASSES[flavour]


class WindowPacketizer(peers.RecPacketizer):
    """Puppet packetizer that writes the messages queued in `window` at the moment the peer's KEXINIT has been read,
    before the puppet's own key-exchange code reacts to it (public Packetizer API only)."""

    def __init__(self, sock):
        peers.RecPacketizer.__init__(self, sock)
        self.window = []
        self.window_sent = 0

    def read_message(self):
        ptype, m = peers.RecPacketizer.read_message(self)
        if ptype == 20 and self.window:
            from paramiko.message import Message

            msgs, self.window = self.window, []
            for p in msgs:
                mm = Message()
                mm.add_bytes(p)
                try:
                    self.send_message(mm)
                except (EOFError, OSError):
                    break
                self.window_sent += 1
        return ptype, m


def ref_global(p):
    """(name, want_reply) if the payload is a decodable GLOBAL_REQUEST head, else None."""
    try:
        r = R.Reader(p)
        name = r.string().decode("utf-8")
        if r.done():
            return None
        return name, r.boolean()
    except (R.RefError, UnicodeDecodeError):
        return None


def ref_open(p):
    """(kind, sender) if the payload is a decodable CHANNEL_OPEN head, else None."""
    try:
        r = R.Reader(p)
        kind = r.string().decode("utf-8")
        sender = r.u32()
        r.u32()
        r.u32()
        return kind, sender
    except (R.RefError, UnicodeDecodeError):
        return None


def auth_payload(s, m):
    if m == "none":
        return A.req_none(USER)
    if m == "password":
        return A.req_password(USER, "wrong")
    if m == "pkprobe":
        return A.req_pk_probe(USER, "ssh-ed25519", A.pub_blob("ed25519"))
    if m == "pkforged":
        kb = A.pub_blob("ed25519")
        sig = A.sign("ed25519b", "ssh-ed25519", A.session_blob(s.sid, USER.encode(), A.CONN, b"ssh-ed25519", kb))
        return A.req_pk_signed(USER, "ssh-ed25519", kb, sig)
    if m == "kbd":
        return A.req_kbdint(USER)
    return A.info_response(["x"])


def run_case(ctx, case, record=True):
    classes = set()
    state = {"after": "nothing", "nontrivial": False}
    app = case.get("app", "plain")
    classes.add("app:" + app)
    srv = app_class(app)(make_policy(case["policy"]), allowed="password,publickey,keyboard-interactive,none")
    s = A.ServerSession(srv=srv, client_kw={"packetizer_class": WindowPacketizer})
    try:
        verdict = _run(ctx, case, s, classes, state)
    finally:
        s.close()
        if record:
            ctx.case(case, state["nontrivial"], sorted(classes))
    return verdict


def _violation(ctx, case, upto, clause, bucket, detail):
    """Report with the program cut after the offending item."""
    small = dict(case, pre=case["pre"][: upto + 1])
    ctx.violation(clause, bucket, small, detail)
    return False


def _run(ctx, case, s, classes, state):
    server = s.server
    for i, it in enumerate(case["pre"]):
        n0 = s.ncalls()
        if it["k"] == "auth":
            r = s.exchange(auth_payload(s, it["m"]))
            what = "auth:" + it["m"]
            sent = []
            for t, p in r.replies:
                if t == 51:
                    try:
                        state["after"] = "partial" if A.parse_failure(p)[1] else ("failed" if state["after"] != "partial" else "partial")
                    except R.RefError:
                        pass
            classes.add(what)
        elif it["k"] == "rekey":
            by = it["by"]
            what = "in-rekey-by-" + by
            sent = it.get("win", [])
            pz = s.puppet.packetizer
            n_before = pz.window_sent
            pz.window = [bytes([w["t"]]) + w["p"] for w in sent]
            done = s.rekey(by)
            pz.window = []
            # what the server held back until NEWKEYS (or its last words)
            r = s.exchange(None)
            if not done and not r.dead:
                r = A.Step(r.replies, True)
            classes.add("rekey:by-" + by)
            classes.add("rekey:window-messages=%d" % len(sent))
            classes.add("rekey:completed" if done else "rekey:session-ended-instead")
            classes.add("rekey:after-" + state["after"])
            if pz.window_sent - n_before:
                classes.add("rekey:window-messages-written")
            for w in sent:
                classes.add("pre:%d" % w["t"])
                classes.add("rekey-window:by-%s:%d" % (by, w["t"]))
                if state["after"] in ("failed", "partial"):
                    state["nontrivial"] = True
                    classes.add("after-%s:%d" % (state["after"], w["t"]))
        else:
            t, p = it["t"], it["p"]
            r = s.exchange(bytes([t]) + p)
            what = "type%d" % t
            sent = [it]
            classes.add("pre:%d" % t)
            if state["after"] in ("failed", "partial"):
                state["nontrivial"] = True
                classes.add("after-%s:%d" % (state["after"], t))
        replies = r.replies
        calls = s.calls_since(n0)
        if 52 in [t for t, _ in replies]:
            # the generated policy never approves in this phase; granting is C14's subject, but
            # everything after a USERAUTH_SUCCESS would not be "before authentication". (Internal
            # "authenticated" flags are deliberately NOT consulted: the phase is defined by the wire.)
            ctx.inconc("authenticated-in-pre-phase")
            classes.add("unexpected-auth")
            return True
        where = "%s after-%s" % (what, state["after"])
        detail = "item %d %r -> replies %s dead=%s callbacks %r" % (i, it, [(t, p[:12].hex()) for t, p in replies], r.dead, [c[0] for c in calls])
        bad_cb = [c[0] for c in calls if c[0].startswith(FORBIDDEN_CB)]
        if bad_cb:
            return _violation(ctx, case, i, "application-consulted-before-auth", "%s:%s" % (what, bad_cb[0]), detail)
        if len(server._channels) or server.channels_seen or server.server_accepts:
            return _violation(ctx, case, i, "channel-created-before-auth", what, detail)
        bad_r = [t for t, _ in replies if t in FORBIDDEN_REPLY]
        if bad_r:
            return _violation(ctx, case, i, "accepted-before-auth", "%s:reply%d" % (what, bad_r[0]), detail)
        if it["k"] != "auth" and not r.dead:
            # every well-formed request of this item (one message, or the messages written inside the re-key window)
            inwin = ":" + what if it["k"] == "rekey" else ""
            want82 = 0
            for w in sent:
                if w["t"] == 80:
                    g = ref_global(w["p"])
                    if g is not None and g[1]:
                        want82 += 1
                elif w["t"] == 90:
                    o = ref_open(w["p"])
                    if o is not None:
                        ok = False
                        for t, p in replies:
                            if t == 92 and len(p) >= 4 and R.Reader(p).u32() == o[1]:
                                ok = True
                        if not ok:
                            return _violation(ctx, case, i, "request-not-refused", "channel-open" + inwin, detail)
            if [t for t, _ in replies].count(82) < want82:
                return _violation(ctx, case, i, "request-not-refused", "global-request" + inwin, detail)
        if r.dead:
            classes.add("ended-by:" + what)
            return True
    # end of the pre-auth phase, session alive
    if server.accept(0) is not None:
        return _violation(ctx, case, len(case["pre"]) - 1, "channel-created-before-auth", "accept-returned-channel", "accept(0) returned a channel before authentication")
    # ---- real authentication + control
    r = s.exchange(A.req_password(USER, "the-real-password"))
    if r.dead or 52 not in [t for t, _ in r.replies]:
        ctx.inconc("control-auth-failed")
        classes.add("control-auth-failed")
        return True
    n0 = s.ncalls()
    r1 = s.exchange(peers.m_global_request(b"tcpip-forward", True, R.string(b"127.0.0.1") + R.u32(2222)))
    r2 = s.exchange(peers.m_channel_open(b"session", 5))
    ok = 81 in [t for t, _ in r1.replies] and 91 in [t for t, _ in r2.replies]
    mine = None
    for t, p in r2.replies:
        if t == 91:
            rd = R.Reader(p)
            rd.u32()
            mine = rd.u32()
    r3 = s.exchange(peers.m_channel_request(mine if mine is not None else 0, b"shell", True))
    got = [c[0] for c in s.calls_since(n0)]
    ok = ok and 99 in [t for t, _ in r3.replies] and all(n in got for n in ("check_port_forward_request", "check_channel_request", "check_channel_shell_request"))
    if ok:
        classes.add("control-ok")
    else:
        ctx.inconc("control-failed")
        classes.add("control-failed")
    return True


def enumerated():
    """Every type 80..100 (one structured payload each, fixed) right after a failed and right
    after a partially successful authentication attempt; inside the window of a server- / client-started
    re-key after a failed attempt; types 80 and 90 for every application-object flavour."""
    fixed = {
        80: R.string(b"tcpip-forward") + R.boolean(True) + R.string(b"0.0.0.0") + R.u32(8022),
        81: R.u32(8022),
        82: b"",
        90: R.string(b"session") + R.u32(0) + R.u32(2097152) + R.u32(32768),
        91: R.u32(0) + R.u32(0) + R.u32(2097152) + R.u32(32768),
        92: R.u32(0) + R.u32(1) + R.string(b"no") + R.string(b""),
        93: R.u32(0) + R.u32(1024),
        94: R.u32(0) + R.string(b"id\n"),
        95: R.u32(0) + R.u32(1) + R.string(b"id\n"),
        96: R.u32(0),
        97: R.u32(0),
        98: R.u32(0) + R.string(b"exec") + R.boolean(True) + R.string(b"id"),
        99: R.u32(0),
        100: R.u32(0),
    }
    out = []
    for verdict in ("F", "P"):
        for t in range(80, 101):
            pol = {"none": verdict, "password": verdict, "pk": verdict, "kbd": verdict, "resp": verdict}
            out.append({"app": "plain", "policy": pol, "pre": [{"k": "auth", "m": "password"}, {"k": "msg", "t": t, "p": fixed.get(t, b"")}]})
    polf = {"none": "F", "password": "F", "pk": "F", "kbd": "F", "resp": "F"}
    # every type inside the window of a re-key (server- and client-started) after a failed attempt
    for by in ("server", "client"):
        for t in range(80, 101):
            out.append({"app": "plain", "policy": polf, "pre": [{"k": "auth", "m": "password"}, {"k": "rekey", "by": by, "win": [{"k": "msg", "t": t, "p": fixed.get(t, b"")}]}]})
    # the two request types for every application-object flavour
    for app in APPS[1:]:
        out.append({"app": app, "policy": polf, "pre": [{"k": "auth", "m": "password"}, {"k": "msg", "t": 80, "p": fixed[80]}, {"k": "msg", "t": 90, "p": fixed[90]}]})
    return out


def run(ctx):
    ctx.set_budget(75, 780)
    enum = [c for i, c in enumerate(enumerated()) if i % ctx.nworkers == ctx.worker]
    for c in enum:
        if ctx.out_of_time():
            break
        run_case(ctx, c)
    ctx.note("enumerated_type_x_authstate", len(enum))
    ctx.explore(cases(), lambda c: run_case(ctx, c), ctx.scale(320, 3000), shrink=False)
    if ctx.classes.get("control-ok", 0) == 0 and not ctx.budget_hit and not ctx.unknown:
        raise core.HarnessError("no session ever reached the post-authentication control: the check would be vacuous")


def replay(ctx, case):
    run_case(ctx, case)
