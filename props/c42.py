"""C42 - buffered file wrappers preserve stream content and line structure.

Targets: (1) a harness subclass of paramiko.file.BufferedFile whose _read(n) returns generated
chunk sizes 1..n of a byte stream (EOF signalled by b"", None or EOFError) and whose _write
accepts a generated partial count >= 1; (2) paramiko.channel.ChannelFile / ChannelStderrFile /
ChannelStdinFile over a fake channel object (recv / recv_stderr chunked the same way,
sendall / sendall_stderr, shutdown_write).
Domain: streams of 0-20 KiB built from segments (filler + terminator out of \\n, \\r\\n, \\r,
"", \\n\\n, \\n\\r; raw byte runs over a newline-heavy alphabet); ASCII only in text mode;
bufsize in {-1, 0, 1, 2, 16, 100, 8192}; modes r, rb, r+, rb+, w, wb, w+, ab, and the universal-newline
modes rU / rbU (line-oriented programs only, see below); programs (<= 25 ops) of read(n), read(),
read(-1), readinto(n), readline(), readline(k), next(), `for line in f` (m lines),
readlines(), readlines(hint >= 1), write(bytes|str, 0-3000 bytes), writelines, flush, close.

Faults: a sized read(n) / readinto(n) op may carry a list of underlying-call numbers at which the stream
(_read / Channel.recv) raises socket.timeout instead of delivering (before the first byte or after part of the
requested span was delivered); the program catches it and repeats the same call.  Only sized reads carry faults:
readline() and read() keep partial data in locals on the unchanged tree, the statement does not define them.
Universal-newline mode ('U'): lines end at \n, \r or \r\n and are returned with the terminator normalised to \n.
Programs are line-oriented there (readline(), next, iteration, readlines([hint]), then the final read()): read(n)
returns raw bytes, so mixing it (or a byte-counting readline(size)) with translated lines has no defined result.

Oracle.
 universal mode: every line op equals the same op on io.BytesIO(stream with \r\n and \r replaced by \n); the
   final read() returns the raw rest of the stream behind the last line returned (a \n that belongs to the \r\n
   which ended that line may or may not be part of it - it depends on whether it had been delivered yet).
 faults: the value finally returned by the repeated call equals the same call on the reference (nothing lost,
   duplicated or reordered by the interrupted attempt).
 reads: every return value equals the same call on io.BytesIO(stream) (readline / next /
   iteration / readlines in text mode: its UTF-8 decoding, type str); at the end a final read()
   returns exactly the rest of the stream.  Hence concatenation == stream, lines end at \\n and
   size limits are respected.
 writes: the bytes received by the stream are at all times a prefix of the concatenated writes;
   equal to it after flush() / close() (for ChannelStdinFile: already when shutdown_write is
   called); unbuffered (bufsize <= 0): equal after every write; line-buffered (bufsize 1):
   after each write / writelines everything up to the last \\n written has been delivered.
"""
import io
import socket

from hypothesis import strategies as st

from vlib import core

PROPERTY = "C42"
LEVEL = "exploration"
RULE = (
    "hypothesis-generated (target: BufferedFile harness or ChannelFile/StderrFile/StdinFile over a fake channel; mode; bufsize; "
    "segment-built stream with \\n/\\r/\\r\\n-heavy content; cyclic chunk-size lists for the underlying reads and partial writes; "
    "EOF style; program of <= 25 read/readline/next/iter/readlines/readinto/write/writelines/flush/close ops; sized reads may carry "
    "socket.timeout faults at generated underlying-call numbers and are repeated by the program; universal-newline modes rU/rbU "
    "with line-oriented programs against a translated-stream reference) compared op by op with io.BytesIO "
    "and a prefix/complete-delivery model; non-trivial = some single op needed >= 2 data-returning underlying reads "
    "(a line or sized read spanning chunks) or >= 2 partial _write calls; distinct by SHA-1 of the whole case"
)

TERMS = [b"\n", b"\r\n", b"\r", b"", b"\n\n", b"\n\r"]
_ASCII = bytes(range(33, 127))
_BIN = bytes(b for b in range(256) if b != 10)


def _fill(length, salt, binary):
    if length <= 0:
        return b""
    tab = _BIN if (binary and salt % 2) else _ASCII
    off = (salt * 31) % len(tab)
    rot = tab[off:] + tab[:off]
    return (rot * (length // len(rot) + 1))[:length]


def _build(segs, binary):
    out = bytearray()
    for s in segs:
        if s[0] == "f":
            out += _fill(s[1], s[2], binary) + TERMS[s[3]]
        else:
            raw = bytes(s[1])
            if not binary:
                raw = bytes(b if b < 128 else (b % 94) + 33 for b in raw)
            out += raw
    return bytes(out)


_len = st.one_of(st.integers(0, 12), st.integers(0, 200), st.sampled_from([0, 1, 15, 16, 17, 99, 100, 101, 8191, 8192, 8193]), st.integers(0, 3000))
_seg = st.one_of(
    st.tuples(st.just("f"), _len, st.integers(0, 7), st.integers(0, len(TERMS) - 1)),
    st.tuples(st.just("f"), st.integers(0, 6), st.integers(0, 7), st.sampled_from([0, 0, 1, 2])),
    st.tuples(st.just("r"), st.lists(st.sampled_from([10, 10, 13, 13, 97, 98, 0, 255, 32]), max_size=12).map(bytes)),
)
stream_st = st.lists(_seg, max_size=14)
data_st = st.lists(_seg, max_size=4)  # one write() payload
chunks_st = st.lists(st.sampled_from([1, 1, 2, 3, 5, 7, 16, 64, 500, 1000, 8192, 100000]), min_size=1, max_size=5)

_n = st.one_of(st.sampled_from([None, -1, 0, 1, 2, 3, 5, 16, 17, 100, 8192, 8193, 20000]), st.integers(0, 300))
_k = st.one_of(st.sampled_from([None, -1, 0, 1, 2, 3, 5, 16, 80, 8192, 9000]), st.integers(0, 120))
_faults = st.lists(st.sampled_from([1, 2, 2, 3, 4, 6]), min_size=1, max_size=3, unique=True).map(sorted)
_nbig = st.sampled_from([2, 3, 5, 16, 17, 100, 300, 8192, 8193, 20000])
uline_op = st.one_of(
    st.tuples(st.just("readline"), st.none()),
    st.tuples(st.just("readline"), st.none()).map(lambda v: v),
    st.tuples(st.just("next")),
    st.tuples(st.just("iter"), st.integers(1, 5)),
    st.tuples(st.just("readlines"), st.sampled_from([None, 1, 2, 10, 100])),
)
read_op = st.one_of(
    st.tuples(st.just("read"), _n),
    st.tuples(st.just("read"), _nbig, _faults),
    st.tuples(st.just("readinto"), st.sampled_from([2, 7, 100, 9000]), _faults),
    st.tuples(st.just("readline"), _k),
    st.tuples(st.just("readline"), _k),
    st.tuples(st.just("next")),
    st.tuples(st.just("iter"), st.integers(1, 5)),
    st.tuples(st.just("readlines"), st.sampled_from([None, 1, 2, 10, 100, 5000])),
    st.tuples(st.just("readinto"), st.sampled_from([0, 1, 2, 7, 100, 9000])),
)
write_op = st.one_of(
    st.tuples(st.just("write"), data_st, st.booleans()),  # bool: pass a str instead of bytes (text payloads only)
    st.tuples(st.just("write"), data_st, st.just(False)),
    st.tuples(st.just("writelines"), st.lists(data_st, max_size=4)),
    st.tuples(st.just("flush")),
)

READ_MODES = ["r", "rb", "rb", "r+", "rb+", "rU", "rbU", "rbU"]
WRITE_MODES = ["w", "wb", "wb", "w+", "ab", "r+", "rb+"]


@st.composite
def case_st(draw):
    target = draw(st.sampled_from(["harness", "harness", "harness", "chan", "chan-stderr", "chan-stdin"]))
    direction = draw(st.sampled_from(["read", "write", "both"]))
    if direction == "read":
        mode = draw(st.sampled_from(READ_MODES))
    elif direction == "write":
        mode = draw(st.sampled_from(WRITE_MODES))
    else:
        mode = draw(st.sampled_from(["r+", "rb+", "w+", "wb+"]))
    can_r = ("r" in mode) or ("+" in mode)
    can_w = ("w" in mode) or ("+" in mode) or ("a" in mode)
    kinds = []
    if "U" in mode:
        kinds += [uline_op]
    elif can_r and direction != "write":
        kinds += [read_op, read_op.map(lambda v: v)]  # distinct objects: one_of de-duplicates identical ones
    if can_w and direction != "read":
        kinds += [write_op, write_op.map(lambda v: v)]
    if can_w:
        kinds.append(st.tuples(st.just("flush")))
    if "U" in mode and draw(st.booleans()):
        # CR-heavy stream delivered in small pieces: terminators fall on delivery boundaries
        stream = draw(st.lists(st.tuples(st.just("f"), st.integers(0, 4), st.integers(0, 7), st.integers(0, len(TERMS) - 1)), max_size=14))
        return {
            "target": target, "mode": mode, "bufsize": draw(st.sampled_from([-1, 0, 1, 2, 16, 100, 8192])), "stream": stream,
            "rchunks": draw(st.lists(st.sampled_from([1, 2, 3, 5, 7]), min_size=1, max_size=5)), "wparts": [1], "eof": draw(st.integers(0, 2)),
            "ops": draw(st.lists(uline_op, max_size=25)), "end": "none",
        }  # fmt: skip
    ops = draw(st.lists(st.one_of(*kinds), max_size=25))
    return {
        "target": target,
        "mode": mode,
        "bufsize": draw(st.sampled_from([-1, 0, 1, 1, 2, 16, 100, 8192])),
        "stream": draw(stream_st) if (can_r and direction != "write") else [],
        "rchunks": draw(chunks_st),
        "wparts": draw(chunks_st),
        "eof": draw(st.integers(0, 2)),
        "ops": ops,
        "end": draw(st.sampled_from(["close", "close", "flush", "none"])),
    }


class _Source:
    """The underlying byte stream with generated chunking; shared by harness and fake channel."""

    def __init__(self, stream, rchunks, wparts):
        self.stream = stream
        self.rp = 0
        self.rchunks = list(rchunks)
        self.ri = 0
        self.wparts = list(wparts)
        self.wi = 0
        self.received = bytearray()
        self.data_reads = 0  # underlying reads that returned data (reset per op)
        self.write_calls = 0  # underlying write calls (reset per op)
        self.calls = 0  # underlying read calls (reset per op)
        self.fault_at = ()  # call numbers (within the op, across its repetitions) at which the stream raises socket.timeout
        self.faults = []  # data_reads at the moment of each fault raised in this op
        self.marks = set()

    def take(self, n):
        self.calls += 1
        if self.calls in self.fault_at:
            self.faults.append(self.data_reads)
            raise socket.timeout()
        out = self._take(n)
        if out.endswith(b"\r"):
            self.marks.add("crlf-split-across-deliveries" if self.stream[self.rp : self.rp + 1] == b"\n" else "lone-cr-ends-delivery")
        return out

    def _take(self, n):
        if n is None or n <= 0 or self.rp >= len(self.stream):
            return b""
        c = self.rchunks[self.ri % len(self.rchunks)]
        self.ri += 1
        k = max(1, min(n, c, len(self.stream) - self.rp))
        out = self.stream[self.rp : self.rp + k]
        self.rp += k
        self.data_reads += 1
        return out

    def put_partial(self, data):
        self.write_calls += 1
        if len(data) == 0:
            return 0
        c = self.wparts[self.wi % len(self.wparts)]
        self.wi += 1
        k = max(1, min(len(data), c))
        self.received += bytes(data[:k])
        return k

    def put_all(self, data):
        self.write_calls += 1
        self.received += bytes(data)


class _FakeChannel:
    def __init__(self, src, stderr):
        self.src = src
        self.stderr = stderr  # the data lives on the stderr side
        self.shutdown_at = None
        self.wrong_side = 0

    def recv(self, n):
        if self.stderr:
            self.wrong_side += 1
            return b""
        return self.src.take(n)

    def recv_stderr(self, n):
        if not self.stderr:
            self.wrong_side += 1
            return b""
        return self.src.take(n)

    def sendall(self, data):
        if self.stderr:
            self.wrong_side += 1
            return None
        self.src.put_all(data)
        return None

    def sendall_stderr(self, data):
        if not self.stderr:
            self.wrong_side += 1
            return None
        self.src.put_all(data)
        return None

    def shutdown_write(self):
        if self.shutdown_at is None:
            self.shutdown_at = len(self.src.received)

    def __repr__(self):
        return "<fake channel>"


def _make_file(case, src):
    from paramiko.file import BufferedFile

    target, mode, bufsize, eof = case["target"], case["mode"], case["bufsize"], case["eof"]
    if target == "harness":

        class HFile(BufferedFile):
            def __init__(self):
                BufferedFile.__init__(self)
                self._set_mode(mode, bufsize)

            def _read(self, n):
                out = src.take(n)
                if out:
                    return out
                if eof == 0:
                    return b""
                if eof == 1:
                    return None
                raise EOFError()

            def _write(self, data):
                return src.put_partial(data)

        return HFile(), None
    from paramiko.channel import ChannelFile, ChannelStderrFile, ChannelStdinFile

    chan = _FakeChannel(src, stderr=(target == "chan-stderr"))
    cls = {"chan": ChannelFile, "chan-stderr": ChannelStderrFile, "chan-stdin": ChannelStdinFile}[target]
    return cls(chan, mode, bufsize), chan


def _short(b):
    if isinstance(b, (bytes, bytearray, str)) and len(b) > 60:
        return "%r...(%d)" % (b[:60], len(b))
    return repr(b)


def execute(ctx, case):
    mode, bufsize, target = case["mode"], case["bufsize"], case["target"]
    binary = "b" in mode
    stream = _build([tuple(s) for s in case["stream"]], binary)
    src = _Source(stream, case["rchunks"], case["wparts"])
    universal = "U" in mode
    ref = io.BytesIO(stream.replace(b"\r\n", b"\n").replace(b"\r", b"\n") if universal else stream)
    f, chan = _make_file(case, src)
    mclass = ("binary" if binary else "text") + (":universal" if universal else "")
    state = {"nontrivial": False, "classes": set(["target:" + target, "mode:" + mclass, "bufsize:%d" % bufsize])}
    try:
        _run_program(ctx, case, f, chan, src, ref, stream, binary, mclass, state)
    finally:
        if universal:
            state["classes"].update("universal:" + m for m in src.marks)
        ctx.case(case, state["nontrivial"], sorted(state["classes"]))
        # the object's __del__ flushes; make sure nothing is left to flush into a dead source
        try:
            f._wbuffer = io.BytesIO()
            f._closed = True
        except Exception:
            pass


def _txt(binary, b):
    return b if binary else b.decode("utf-8")


def _run_program(ctx, case, f, chan, src, ref, stream, binary, mclass, state):
    bufsize = case["bufsize"]
    expected_w = bytearray()
    closed = False
    tag = "%s:%s" % ("chan" if chan is not None else "harness", mclass)

    def wcheck(opname, after_flush):
        rec = bytes(src.received)
        exp = bytes(expected_w)
        if not exp.startswith(rec):
            # find the first divergence for the bucket
            kind = "longer-than-written" if len(rec) > len(exp) else "content-or-order"
            ctx.violation("write-not-a-prefix", "%s:%s:%s" % (opname, _bufclass(bufsize), kind), case, "received %s written %s" % (_short(rec), _short(exp)))
            return False
        if after_flush and rec != exp:
            ctx.violation("write-incomplete-after-%s" % after_flush, "%s:%s" % (tag, _bufclass(bufsize)), case, "received %d of %d bytes" % (len(rec), len(exp)))
            return False
        if bufsize <= 0 and rec != exp:
            ctx.violation("unbuffered-write-delayed", tag, case, "after %s: received %d of %d bytes" % (opname, len(rec), len(exp)))
            return False
        if bufsize == 1 and opname in ("write", "writelines"):
            need = exp.rfind(b"\n") + 1
            if len(rec) < need:
                ctx.violation("line-buffered-write-delayed", tag, case, "after %s: received %d bytes, last newline written ends at %d" % (opname, len(rec), need))
                return False
        return True

    for op in case["ops"]:
        op = tuple(op)
        name = op[0]
        src.data_reads = 0
        src.write_calls = 0
        src.calls = 0
        src.faults = []
        src.fault_at = tuple(op[2]) if (name in ("read", "readinto") and len(op) > 2) else ()
        state["classes"].add("op:" + name)
        try:
            if name == "read":
                want = ref.read(op[1]) if op[1] is not None else ref.read()
                for _attempt in range(len(src.fault_at) + 1):
                    try:
                        got = f.read(op[1]) if op[1] is not None else f.read()
                        break
                    except socket.timeout:
                        if _attempt == len(src.fault_at):
                            raise
            elif name == "readinto":
                b1, b2 = bytearray(op[1]), bytearray(op[1])
                n2 = ref.readinto(b2)
                for _attempt in range(len(src.fault_at) + 1):
                    try:
                        n1 = f.readinto(b1)
                        break
                    except socket.timeout:
                        if _attempt == len(src.fault_at):
                            raise
                got, want = (n1, bytes(b1)), (n2, bytes(b2))
            elif name == "readline":
                got = f.readline(op[1]) if op[1] is not None else f.readline()
                want = _txt(binary, ref.readline(op[1]) if op[1] is not None else ref.readline())
            elif name == "next":
                try:
                    got = next(f)
                except StopIteration:
                    got = "<StopIteration>"
                try:
                    want = _txt(binary, next(ref))
                except StopIteration:
                    want = "<StopIteration>"
            elif name == "iter":
                got, want = [], []
                for line in f:
                    got.append(line)
                    if len(got) >= op[1]:
                        break
                for line in ref:
                    want.append(_txt(binary, line))
                    if len(want) >= op[1]:
                        break
            elif name == "readlines":
                got = f.readlines(op[1]) if op[1] is not None else f.readlines()
                want = [_txt(binary, x) for x in (ref.readlines(op[1]) if op[1] is not None else ref.readlines())]
            elif name == "write":
                payload = _build([tuple(s) for s in op[1]], binary and not op[2])
                expected_w += payload
                f.write(payload.decode("ascii") if op[2] else payload)
                if not wcheck("write", None):
                    return
                got = want = None
            elif name == "writelines":
                payloads = [_build([tuple(s) for s in d], binary) for d in op[1]]
                for p in payloads:
                    expected_w += p
                f.writelines(payloads)
                if not wcheck("writelines", None):
                    return
                got = want = None
            elif name == "flush":
                f.flush()
                if not wcheck("flush", "flush"):
                    return
                got = want = None
            else:
                raise AssertionError(name)
        except (AssertionError, core.UnknownViolation):
            raise
        except Exception as e:
            import traceback

            tb = traceback.extract_tb(e.__traceback__)
            inner = [fr for fr in tb if "/paramiko/" in fr.filename]
            where = "%s:%s" % (inner[-1].filename.rsplit("/", 1)[-1], inner[-1].name) if inner else "harness"
            if not inner:
                raise
            ctx.violation("op-raises", "%s:%s@%s" % (name, type(e).__name__, where), case, "%s%r raised %r" % (name, op[1:], e))
            return
        if src.data_reads >= 2 or src.write_calls >= 2:
            state["nontrivial"] = True
            state["classes"].add("spans-chunks:" + name)
        for before in src.faults:
            state["classes"].add("fault:timeout-after-partial-delivery:" + name if before else "fault:timeout-before-first-byte:" + name)
            state["nontrivial"] = state["nontrivial"] or bool(before)
        src.fault_at = ()
        if name in ("read", "readinto", "readline", "next", "iter", "readlines"):
            if got != want or type(got) is not type(want):
                arg = op[1] if len(op) > 1 else None
                argc = "none" if arg is None else ("neg" if arg < 0 else ("zero" if arg == 0 else "sized"))
                if src.faults:
                    argc += ":after-timeout-retry"
                ctx.violation("read-differs", "%s(%s):%s" % (name, argc, tag), case, "%s%r returned %s, io.BytesIO gives %s (stream %d bytes, ref position %d)" % (name, op[1:], _short(got), _short(want), len(stream), ref.tell()))
                return
        if chan is not None and chan.wrong_side:
            ctx.violation("channel-side", "%s:%s" % (case["target"], name), case, "the file used the wrong channel stream %d times" % chan.wrong_side)
            return

    # ---- end of program
    src.data_reads = 0
    src.write_calls = 0
    if f.readable():
        got, want = f.read(), ref.read()
        if src.data_reads >= 2:
            state["nontrivial"] = True
        if "U" in case["mode"]:
            # raw rest behind the lines returned so far: map the position in the translated stream back to the raw one
            t = len(ref.getvalue()) - len(want)
            q = 0
            for _ in range(t):
                q += 2 if stream[q : q + 2] == b"\r\n" else 1
            want = stream[q:]
            if got != want and q >= 2 and stream[q - 2 : q] == b"\r\n" and got == b"\n" + want:
                want = got  # the \n of the \r\n that ended the last line had not been delivered when the line was returned
        if got != want:
            ctx.violation("read-differs", "final-read():%s" % tag, case, "final read() returned %s, rest of the stream is %s" % (_short(got), _short(want)))
            return
        if chan is not None and chan.wrong_side:
            ctx.violation("channel-side", "%s:final-read" % case["target"], case, "the file used the wrong channel stream %d times" % chan.wrong_side)
            return
    if f.writable():
        if case["end"] == "close":
            f.close()
            if src.write_calls >= 2:
                state["nontrivial"] = True
            if not wcheck("close", "close"):
                return
            if case["target"] == "chan-stdin":
                # (whether close() shuts the write side at all is not part of the statement; if it does,
                # everything written must have been delivered by then)
                if chan.shutdown_at is not None and chan.shutdown_at != len(expected_w):
                    ctx.violation("stdin-close", "shutdown-before-data", case, "shutdown_write called with %d of %d bytes delivered" % (chan.shutdown_at, len(expected_w)))
                    return
        elif case["end"] == "flush":
            f.flush()
            if src.write_calls >= 2:
                state["nontrivial"] = True
            if not wcheck("flush", "flush"):
                return
        else:
            if not wcheck("end", None):
                return
        if chan is not None and chan.wrong_side:
            ctx.violation("channel-side", "%s:write" % case["target"], case, "the file used the wrong channel stream %d times" % chan.wrong_side)
            return


def _bufclass(bufsize):
    if bufsize <= 0:
        return "unbuffered"
    if bufsize == 1:
        return "line-buffered"
    return "buffered"


def run(ctx):
    ctx.set_budget(60, 840)
    ctx.explore(case_st(), lambda c: execute(ctx, c), ctx.scale(4000, 50000))


def replay(ctx, case):
    execute(ctx, case)
