"""C04 - session keys follow RFC 4253 7.2 and match across the two peers.

Part 1 (KDF differential): generated (K, H, session id, letter A-F, nbytes 1..512, kex hash)
-> Transport._compute_key(letter, nbytes) must equal the independent vlib.refssh.kdf
(HASH(K || H || X || session_id), extended with HASH(K || H || K1 || ...)).

Part 2 (installed keys): for every cipher x MAC pair, kex hash and both roles a duplex
session on the E2 bench goes through two key exchanges (so the session id differs from the
second H).  A recording Transport subclass / Packetizer subclass (public packetizer_class
kwarg) notes what the production activation code hands to the cipher factory and to the
Packetizer: (key, IV) per direction and the MAC key.  Oracle: client-out == RFC letters
C/A/E of (K, H, session id) with the sizes of the negotiated algorithms == server-in;
server-out == D/B/F == client-in; the two directions' keys / IVs / MAC keys differ; and the
first packets after each activation decode under vlib.refssh keyed from the RFC letters
(both sending directions), which pins that the recorded material is what is really used.

Part 3 (real key exchanges): parts 1 and 2 put K into the transport as an integer; here K comes out
of a real exchange, for every kex method paramiko offers.  A paramiko client (its own kex engines)
talks to a server transport on the in-memory network whose kex engine is either paramiko's own or an
honest reference engine (vlib.refkex: cryptography + hashlib only) that keeps drawing its ephemeral
key until the shared secret has a given SHAPE - "short": the raw DH / ECDH / X25519 result starts
with zero bytes (and the first non-zero byte has its top bit clear), so the mpint hashed into the KDF
is strictly shorter than the field; "signpad": the bit
length is a multiple of 8, so the mpint carries a leading 00.  Generated cipher and MAC, optional
re-exchange started by either side (session id != second H).  Oracle: every (key, IV, MAC key) both
transports hand to the cipher factory / Packetizer equals the RFC 4253 7.2 derivation (vlib.refssh)
from the K and H the SERVER side's engine computed and the first H; client and server agree on K / H;
the session (authentication, re-exchange, round trip) works.
"""
from hypothesis import strategies as st

from vlib import pkt
from vlib import refssh as R

PROPERTY = "C04"
LEVEL = "exploration"
THOROUGH_WORKERS = 16
RULE = (
    "part 1: hypothesis-generated (K 1-8192 bit incl. top-bit-set/byte-boundary shapes, H 20-64 bytes, session id != H, "
    "letter A-F, nbytes 1-512 dense around digest sizes, sha1/256/384/512) vs the reference KDF; non-trivial = nbytes > "
    "digest size (extension loop) or K whose top bit falls on a byte boundary (mpint sign byte). part 2: every cipher x MAC "
    "pair x kex hash enumerated, K/H generated, two key exchanges per session, both roles at once, the enumerated pair keying one "
    "direction and an independently generated suite the other (direction alternating: class asymmetric-suites); non-trivial = some "
    "derived length exceeds the digest size or K has its top bit on a byte boundary. part 3 (class live): real key exchanges on the "
    "in-memory network, EVERY kex method x server side {reference engine steering K to shape short (raw secret with leading zero "
    "bytes: mpint shorter than the field), reference engine steering K to shape signpad (bit length multiple of 8: mpint with a "
    "leading 00), paramiko's own engine}, generated cipher / MAC (short K: non-GCM cipher with a 64-byte MAC key, so that the extension "
    "blocks are derived from the short secret too; class live-kdf-extension), optional re-exchange started by client or server; the key, IV and "
    "MAC key both transports install at every key switch are compared with the reference KDF of the server engine's K, H and the "
    "first H (classes live-kex:<name>, live-server:<ref|paramiko>, live-K-shape:<short|signpad|plain>[:<family>], "
    "live-session-id-differs-from-H); non-trivial = shaped K, a re-exchange, or a derived length above the digest size; "
    "distinct by SHA-1 of the case"
)

SHORT = "short-without-sign-byte-00"  # vlib.refkex shape: leading zero bytes dropped, no 00 put in front
DIGEST = {"sha1": 20, "sha256": 32, "sha384": 48, "sha512": 64}

_TRANSPORT = []


def _kdf_transport():
    """One un-started Transport reused for the KDF differential (only K/H/session_id/kex_engine matter)."""
    if not _TRANSPORT:
        import paramiko

        _TRANSPORT.append(paramiko.Transport(pkt.ScriptSock()))
    return _TRANSPORT[0]


def kdf_case(ctx, case):
    t = _kdf_transport()
    K, H, sid, letter, n, hashname = case["K"], case["H"], case["sid"], case["letter"], case["n"], case["hash"]
    t.K, t.H, t.session_id = K, H, sid
    t.kex_engine = pkt._StubKex(hashname)
    top = K.bit_length() % 8 == 0
    ctx.case(case, n > DIGEST[hashname] or top, ["kdf", "kdf-hash:" + hashname, "kdf-letter:" + letter] + (["kdf-extension"] if n > DIGEST[hashname] else []) + (["kdf-K-topbit"] if top else []))
    try:
        got = t._compute_key(letter, n)
    except Exception as e:
        ctx.violation("kdf-raises", pkt.exc_bucket(e), case, repr(e))
        return
    want = R.kdf(hashname, K, H, letter.encode(), sid, n)
    if got != want:
        if len(got) != n:
            what = "length"
        elif got[: DIGEST[hashname]] != want[: DIGEST[hashname]]:
            what = "first-block"
        else:
            what = "extension"
        ctx.violation("kdf-differs", what, case, "letter %s n=%d %s: paramiko %s.. reference %s.." % (letter, n, hashname, got[:24].hex(), want[:24].hex()))


_LIVE = {}


def _live_classes():
    """Recording client / server transports for real handshakes on the in-memory network (E3 peers):
    peers.VTransport / lying.EditingServer plus the same recording of (key, IV) handed to the cipher
    factory and of the set_*_cipher arguments as in part 2."""
    if not _LIVE:
        import paramiko
        from paramiko.packet import Packetizer
        from vlib import lying, peers

        class RecPacketizer(Packetizer):
            def __init__(self, sock):
                Packetizer.__init__(self, sock)
                self.rec = []

            def set_outbound_cipher(self, *a, **kw):
                self.rec.append(("out", a, dict(kw)))
                return Packetizer.set_outbound_cipher(self, *a, **kw)

            def set_inbound_cipher(self, *a, **kw):
                self.rec.append(("in", a, dict(kw)))
                return Packetizer.set_inbound_cipher(self, *a, **kw)

        class _Rec:
            def _get_engine(self, name, key, iv=None, operation=None, aead=False):
                if not hasattr(self, "engines"):
                    self.engines = []
                self.engines.append({"name": name, "key": bytes(key), "iv": None if iv is None else bytes(iv), "enc": operation is self._ENCRYPT})
                return paramiko.Transport._get_engine(self, name, key, iv=iv, operation=operation, aead=aead)

        class LiveClient(_Rec, peers.VTransport):
            pass

        class LiveServer(_Rec, lying.EditingServer):
            pass

        _LIVE.update(client=LiveClient, server=LiveServer, packetizer=RecPacketizer)
    return _LIVE


def _recording_classes():
    import paramiko
    from paramiko.packet import Packetizer

    class RecPacketizer(Packetizer):
        def __init__(self, sock):
            Packetizer.__init__(self, sock)
            self.rec = []

        def set_outbound_cipher(self, *a, **kw):
            self.rec.append(("out", a, dict(kw)))
            return Packetizer.set_outbound_cipher(self, *a, **kw)

        def set_inbound_cipher(self, *a, **kw):
            self.rec.append(("in", a, dict(kw)))
            return Packetizer.set_inbound_cipher(self, *a, **kw)

    class RecTransport(paramiko.Transport):
        def __init__(self, sock):
            paramiko.Transport.__init__(self, sock, packetizer_class=RecPacketizer)
            self.engines = []

        def _get_engine(self, name, key, iv=None, operation=None, aead=False):
            self.engines.append({"name": name, "key": bytes(key), "iv": None if iv is None else bytes(iv), "enc": operation is self._ENCRYPT})
            return paramiko.Transport._get_engine(self, name, key, iv=iv, operation=operation, aead=aead)

    return RecTransport


def _arg(rec, name, pos):
    _, a, kw = rec
    if name in kw:
        return kw[name]
    return a[pos] if pos < len(a) else None


def _expected(keys, sid, c2s):
    cipher, mac, _ = keys["c2s" if c2s else "s2c"]
    _, ksz, _, ivsz = R.CIPHERS[cipher]
    iv_l, key_l, mac_l = (b"A", b"C", b"E") if c2s else (b"B", b"D", b"F")
    h = keys["hash"]
    exp = {
        "key": R.kdf(h, keys["K"], keys["H"], key_l, sid, ksz),
        "iv": R.kdf(h, keys["K"], keys["H"], iv_l, sid, ivsz),
        "mac": None,
    }
    if R.CIPHERS[cipher][0] != "gcm":
        exp["mac"] = R.kdf(h, keys["K"], keys["H"], mac_l, sid, R.MACS[mac][1])
    return exp


def installed_case(ctx, case):
    """case = {"epochs": [keys, keys], "strict": bool, "msgs": [spec...]}"""
    epochs = case["epochs"]
    msgs = case["msgs"]
    segs = [{"op": "rekey", "keys": k, "c2s": msgs, "s2c": msgs} for k in epochs]
    sess = {"segs": segs}
    RecT = _recording_classes()
    pc = pkt.PPeer("client", case["strict"], transport_class=RecT)
    ps = pkt.PPeer("server", case["strict"], transport_class=RecT)
    rc, rs = pkt.RPeer("client", case["strict"]), pkt.RPeer("server", case["strict"])
    maxlen = 0
    for k in epochs:
        for d in ("c2s", "s2c"):
            c, m, _ = k[d]
            maxlen = max(maxlen, R.CIPHERS[c][1], R.CIPHERS[c][3], 0 if R.CIPHERS[c][0] == "gcm" else R.MACS[m][1])
    top = any(k["K"].bit_length() % 8 == 0 for k in epochs)
    nontrivial = top or any(maxlen > DIGEST[k["hash"]] for k in epochs)
    classes = ["installed"]
    for k in epochs:
        classes.append("hash:" + k["hash"])
        for d in ("c2s", "s2c"):
            classes += ["cipher:" + k[d][0], "mac:" + k[d][1], "pair:%s|%s" % (k[d][0], k[d][1])]
        classes += [a for a in pkt.asymmetry_classes(k) if not a.startswith("asymmetric-style:")]
    ctx.case(case, nontrivial, sorted(set(classes)))
    fc = pkt.framing_class(epochs[-1]["c2s"][0], epochs[-1]["c2s"][1])
    # (1) wire oracle, paramiko senders: reference receivers keyed from the RFC letters
    wire_fail = None
    try:
        pkt.run_session(sess, (pc, [ps, rs]), (ps, [pc, rc]))
    except pkt.SessionFailed as e:
        # first look at the recorded key material (more specific root cause), then report this
        wire_fail = e
    # (2) recorded key material against the RFC letters
    sid = epochs[0]["H"]
    for peer, role in ((pc, "client"), (ps, "server")):
        eng = peer.t.engines
        rec = peer.t.packetizer.rec
        if wire_fail is None and (len(eng) != 2 * len(epochs) or len(rec) != 2 * len(epochs)):
            raise pkt.HarnessBug("expected %d engine creations, saw %d / %d" % (2 * len(epochs), len(eng), len(rec)))
        for ei, k in enumerate(epochs):
            # per epoch the bench activates outbound first, then inbound
            for j, way in enumerate(("out", "in")):
                if 2 * ei + j >= min(len(eng), len(rec)):
                    continue  # the session stopped before this activation
                e, r = eng[2 * ei + j], rec[2 * ei + j]
                if r[0] != way or e["enc"] != (way == "out"):
                    raise pkt.HarnessBug("activation order changed: %r %r" % (r[0], e["enc"]))
                c2s = (role == "client") == (way == "out")
                exp = _expected(k, sid, c2s)
                cipher = k["c2s" if c2s else "s2c"][0]
                gcm = R.CIPHERS[cipher][0] == "gcm"
                where = "%s-%s" % (role, way)
                got_iv = _arg(r, "iv_out" if way == "out" else "iv_in", 8 if way == "out" else 7) if gcm else e["iv"]
                got_mac = _arg(r, "mac_key", 4)
                checks = [("key", e["key"], exp["key"]), ("iv", got_iv, exp["iv"])]
                if not gcm:
                    checks.append(("mac-key", got_mac, exp["mac"]))
                for what, got, want in checks:
                    if got is None or bytes(got) != want:
                        if got is not None and len(got) != len(want):
                            kind = "size"
                        else:
                            kind = "value"
                        ctx.violation(
                            "installed-%s-differs" % what,
                            "%s:%s" % (where, kind),
                            case,
                            "epoch %d %s %s (%s): paramiko %s reference %s" % (ei, where, what, cipher, None if got is None else bytes(got).hex(), want.hex()),
                        )
                        return
    if wire_fail is not None:
        e = wire_fail
        ctx.violation("wire-" + e.oracle, "%s:%s:epoch%s" % (e.kind, e.dname, e.seg), case, "%s: %s" % (e.clause, e.detail))
        return
    # (3) peers agree, directions differ (follows from (2) for a correct reference; stated separately)
    for ei, k in enumerate(epochs):
        a, b = _expected(k, sid, True), _expected(k, sid, False)
        for what in ("key", "iv", "mac"):
            if a[what] is None or b[what] is None:
                continue
            n = min(len(a[what]), len(b[what]))
            if n >= 8 and a[what][:n] == b[what][:n]:
                ctx.violation("directions-share-" + what, fc, case, "epoch %d: c2s and s2c %s equal" % (ei, what))
                return
        ce, se = pc.t.engines, ps.t.engines
        if ce[2 * ei]["key"] != se[2 * ei + 1]["key"] or ce[2 * ei + 1]["key"] != se[2 * ei]["key"]:
            ctx.violation("peers-disagree", "key", case, "epoch %d" % ei)
            return
        if ce[2 * ei]["key"] == ce[2 * ei + 1]["key"] and k["c2s"][0] == k["s2c"][0]:
            ctx.violation("directions-share-key", "installed", case, "epoch %d: client uses one key for both directions" % ei)
            return
    # (4) wire oracle, reference senders -> paramiko receivers
    pc2, ps2 = pkt.PPeer("client", case["strict"]), pkt.PPeer("server", case["strict"])
    rc2, rs2 = pkt.RPeer("client", case["strict"]), pkt.RPeer("server", case["strict"])
    try:
        pkt.run_session(sess, (rc2, [ps2]), (rs2, [pc2]))
    except pkt.SessionFailed as e:
        ctx.violation("wire-" + e.oracle, "%s:%s:epoch%s" % (e.kind, e.dname, e.seg), case, "%s: %s" % (e.clause, e.detail))
        return


def live_case(ctx, case):
    """case = {"part": "live", "kex": name, "server": "ref"|"paramiko", "shape": "any"|"short"|"short-without-sign-byte-00"|"signpad",
    "cipher": name, "mac": name, "rekey": None|"c"|"s"}.  A REAL key exchange between a paramiko client
    and a server on the in-memory network: the server side runs either paramiko's own engine or an
    honest reference engine (vlib.refkex: cryptography + hashlib only) that draws its ephemeral key until
    the shared secret K has the wanted shape ("short...": the raw result has leading zero bytes and the
    first non-zero byte has its top bit clear, the mpint fed to the KDF is strictly shorter than the field;
    "signpad": bit length a multiple of 8, the mpint carries a leading 00).  What both transports hand to the cipher factory / Packetizer at every key switch must be
    the RFC 4253 7.2 derivation from the K and H of the SERVER side's engine and the first H."""
    from vlib import mitm, peers, refkex

    L = _live_classes()
    kex, server, shape, cipher, mac, rekey = case["kex"], case["server"], case["shape"], case["cipher"], case["mac"], case.get("rekey")
    fam = mitm.kex_family(kex)
    hashname = mitm.KEX_HASH[kex]
    kw = {"packetizer_class": L["packetizer"]}
    ckw = dict(kw, disabled_algorithms={"kex": mitm.only(list(mitm.ALL_KEX), kex)})
    pack = mitm.modulus_pack([(2, mitm.group_prime(1024))]) if fam == "gex" else mitm.modulus_pack([])
    results = []
    with pack:
        link, tc, ts = peers.make_pair(client_cls=L["client"], server_cls=L["server"], client_kw=ckw, server_kw=kw)
        so = tc.get_security_options()
        so.ciphers = (cipher,)
        so.digests = (mac,)
        if server == "ref":
            ts.v_install_engines({kex: refkex.ref_server(kex, shape)})
        fail = None
        try:
            ce, se = peers.start_both(tc, ts)
            if ce or se:
                fail = "initial exchange: client=%r server=%r" % (ce, se)
            elif rekey:
                try:
                    tc.auth_password("u", "pw")
                    from vlib import lying

                    lying.rekey_prefix(tc, ts, [rekey])
                except Exception as e:
                    fail = "after the initial exchange (authentication, re-exchange started by %s, round trip): %r" % (rekey, e)
            ckh, skh = list(tc.v_kh), list(ts.v_kh)
            for t, role in ((tc, "client"), (ts, "server")):
                eng = list(getattr(t, "engines", []))
                rec = list(getattr(t.packetizer, "rec", []))
                results.append((role, eng, rec, list(t.v_out), list(t.v_in)))
        finally:
            peers.shutdown(tc, ts)
            mitm.cancel_timers(tc, ts)
    gex_p = mitm.group_prime(1024) if fam == "gex" else None
    shapes = sorted(set(s for K, _ in skh for s in (refkex.k_shapes(kex, K, gex_p) or ["plain"])))
    maxlen = max(R.CIPHERS[cipher][1], R.CIPHERS[cipher][3], 0 if R.CIPHERS[cipher][0] == "gcm" else R.MACS[mac][1])
    nontrivial = bool(skh) and (shapes != ["plain"] or maxlen > DIGEST[hashname] or len(skh) > 1)
    classes = ["live", "live-kex:" + kex, "live-server:" + server, "live-exchanges:%d" % len(skh), "cipher:" + cipher, "mac:" + mac, "hash:" + hashname]
    classes += ["live-K-shape:%s" % s for s in shapes] + ["live-K-shape:%s:%s" % (s, fam) for s in shapes]
    if len(skh) > 1:
        classes.append("live-session-id-differs-from-H")
    if maxlen > DIGEST[hashname]:
        classes.append("live-kdf-extension")
        classes += ["live-kdf-extension+K-%s" % s for s in shapes]
    ctx.case(case, nontrivial, classes)
    kshape = "+".join(shapes) if shapes else "none"
    if not skh:
        ctx.violation("live-exchange-fails", "%s:no-exchange-completed" % fam, case, fail or "")
        return
    sid = skh[0][1]
    # (1) the recorded key material against the RFC letters, K and H as the server side's engine computed them
    for role, eng, rec, v_out, v_in in results:
        for way in ("out", "in"):
            es = [e for e in eng if e["enc"] == (way == "out")]
            rs = [r for r in rec if r[0] == way]
            suites = v_out if way == "out" else v_in
            for i in range(min(len(es), len(rs), len(suites), len(skh))):
                c2s = (role == "client") == (way == "out")
                su = [suites[i]["cipher"], suites[i]["mac"], "none"]
                keys = {"K": skh[i][0], "H": skh[i][1], "hash": hashname, "c2s": su, "s2c": su}
                exp = _expected(keys, sid, c2s)
                gcm = R.CIPHERS[su[0]][0] == "gcm"
                e, r = es[i], rs[i]
                got_iv = _arg(r, "iv_out" if way == "out" else "iv_in", 8 if way == "out" else 7) if gcm else e["iv"]
                checks = [("key", e["key"], exp["key"]), ("iv", got_iv, exp["iv"])]
                if not gcm:
                    checks.append(("mac-key", _arg(r, "mac_key", 4), exp["mac"]))
                for what, got, want in checks:
                    if got is None or bytes(got) != want:
                        kind = "size" if got is not None and len(got) != len(want) else "value"
                        ctx.violation(
                            "live-installed-%s-differs" % what,
                            "%s-%s:%s:%s:K-%s" % (role, way, kind, fam, kshape),
                            case,
                            "exchange %d %s-%s %s (%s, %s, K of %d bits): paramiko %s reference %s" % (i, role, way, what, su[0], kex, skh[i][0].bit_length(), None if got is None else bytes(got).hex(), want.hex()),
                        )
                        return
    # (2) both sides computed the same K / H (C06's subject; here it only says which K the keys were compared with)
    for i in range(min(len(ckh), len(skh))):
        if ckh[i] != skh[i]:
            ctx.violation("live-K-H-differ", "%s:exchange-%d" % (fam, min(i, 1)), case, "client and server side disagree on K or H of exchange %d" % i)
            return
    # (3) keys that follow the RFC on both sides interoperate: the session must have worked
    if fail:
        ctx.violation("live-exchange-fails", "%s:K-%s" % (fam, kshape), case, fail)
        return
    want_n = 2 if rekey else 1
    for role, eng, rec, v_out, v_in in results:
        if len(eng) != 2 * want_n or len(rec) != 2 * want_n or len(skh) != want_n:
            raise pkt.HarnessBug("%s: %d exchanges expected, %d engines / %d cipher switches / %d exchanges recorded" % (role, want_n, len(eng), len(rec), len(skh)))


def execute(ctx, case):
    if case["part"] == "kdf":
        kdf_case(ctx, case)
    elif case["part"] == "live":
        live_case(ctx, case)
    else:
        installed_case(ctx, case)


def run(ctx):
    pkt.check_offered()
    ctx.set_budget(60, 800)
    S = pkt.strategies()
    nbytes = st.one_of(st.integers(1, 512), st.sampled_from([1, 8, 12, 16, 19, 20, 21, 24, 31, 32, 33, 40, 41, 47, 48, 49, 63, 64, 65, 96, 97, 128, 129, 511, 512]))
    kdf_st = st.fixed_dictionaries(
        {
            "part": st.just("kdf"),
            "K": S.K,
            "H": S.H,
            "sid": S.H,
            "letter": st.sampled_from("ABCDEF"),
            "n": nbytes,
            "hash": S.hash,
        }
    ).filter(lambda c: c["sid"] != c["H"])
    ctx.explore(kdf_st.map(pkt.norm_case), lambda c: execute(ctx, c), ctx.scale(3000, 30000))

    pairs = [(c, m) for c in pkt.CIPHERS for m in pkt.MACS]
    work = [(c, m, h) for (c, m) in pairs for h in pkt.KEX_HASHES]
    per = ctx.scale(1, 40)
    small = st.lists(S.msg(st.integers(0, 70)), min_size=1, max_size=3)
    for idx, (c, m, h) in enumerate(work):
        if idx % ctx.nworkers != ctx.worker:
            continue
        if ctx.out_of_time():
            break
        # RFC 4253 7.1 negotiates every algorithm per direction: in both exchanges the enumerated pair
        # keys one direction and an independently generated suite the other (so c2s/s2c key, IV and MAC
        # key sizes differ); the pair changes direction between the exchanges (and with the pair index),
        # the second exchange has a new K/H and a generated kex hash
        pair = st.just([c, m, "none"])
        gen = st.tuples(S.cipher, S.mac, st.just("none")).map(list)
        d1, d2 = ((pair, gen), (gen, pair)) if idx % 2 == 0 else ((gen, pair), (pair, gen))
        first = st.builds(pkt.keys_dict, S.K, S.H, st.just(h), d1[0], d1[1])
        second = st.builds(pkt.keys_dict, S.K, S.H, S.hash, d2[0], d2[1])
        inst = st.fixed_dictionaries(
            {
                "part": st.just("installed"),
                "epochs": st.tuples(first, second).map(list),
                "strict": st.booleans(),
                "msgs": small,
            }
        ).filter(lambda cs: cs["epochs"][0]["H"] != cs["epochs"][1]["H"])
        before = ctx._last_fail
        ctx.explore(inst.map(pkt.norm_case), lambda cs: execute(ctx, cs), per, seed_offset=100 + idx)
        if ctx._last_fail is not before and ctx.unknown:
            break  # an unlisted violation was found and shrunk; do not shrink it again for every further pair
    # -- part 3: real key exchanges (every kex method), the server side steering the SHAPE of the shared secret
    from vlib import mitm

    lwork = [(kex, "ref", shape) for kex in mitm.ALL_KEX for shape in (SHORT, "signpad")] + [(kex, "paramiko", "any") for kex in mitm.ALL_KEX]
    for idx, (kex, server, shape) in enumerate(lwork):
        if idx % ctx.nworkers != ctx.worker or ctx.unknown:
            continue
        if ctx.out_of_time():
            break
        state = {"n": 0}

        def lbody(cs, state=state):
            state["n"] += 1
            if state["n"] == 1 or ctx.unknown:
                return  # hypothesis' first example is the all-minimal one (first cipher, first MAC, no re-exchange)
            execute(ctx, cs)

        live = st.fixed_dictionaries(
            {
                "part": st.just("live"),
                "kex": st.just(kex),
                "server": st.just(server),
                "shape": st.just(shape),
                # short K x extension loop: the cases with a short secret negotiate a 64-byte MAC key (longer than the
                # digest of every kex hash but sha512, so HASH(K || H || K1 ...) blocks are needed) on a cipher that uses it
                "cipher": st.sampled_from([c for c in pkt.CIPHERS if R.CIPHERS[c][0] != "gcm"]) if shape == SHORT else S.cipher,
                "mac": st.sampled_from([m for m in pkt.MACS if R.MACS[m][1] == 64]) if shape == SHORT else S.mac,
                "rekey": st.sampled_from([None, "c", "s"]),
            }
        )
        # real threads and fresh ephemeral keys in every run: collect-then-continue, no shrinking
        ctx.explore(live.map(pkt.norm_case), lbody, 1 + ctx.scale(1, 12), shrink=False, seed_offset=600 + idx)
    ctx.assume("part 3: an honest server may pick any ephemeral key; one that keeps drawing until K has a given shape is still honest (vlib.refkex). Only the server side can steer K (the client commits to its public value first), so a paramiko SERVER engine meets shaped secrets only by chance (1 exchange in 256)")
    ctx.assume("the reference KDF is validated by agreement with paramiko on the unchanged tree and by decoding paramiko's traffic; no external KDF vectors are available offline")


def replay(ctx, case):
    execute(ctx, pkt.norm_case(case))
