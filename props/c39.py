"""C39 - SSH wire encoding round-trips and integers are encoded canonically.

Domain: sequences (<=30) of typed fields written with paramiko.Message.add_* and read back
with get_*, interleaved with get_so_far/get_remainder/rewind.
Oracle: (a) values read back equal, in order; (b) so_far + remainder == whole message at
every point; (c) bytes produced == the independent RFC 4251 encoder in vlib.refssh
(mpint minimal two's complement, zero = empty string); (d) deflate_long/inflate_long
round trip, and inflate_long(ref mpint body) == n.

History dimension (round 3): the functions under test are module-level helpers shared by the whole process,
so a case is a HISTORY of calls, not one call: (e) side operations on the case's own integers (the value, its
magnitude, its negation) - util.deflate_long in BOTH documented modes (add_sign_padding True/False),
util.inflate_long in both modes, add_mpint/add_adaptive_int on a second Message object - are interleaved at
generated positions before / between the writes and between the reads, each with its own oracle (same clauses);
(f) fields repeat the value of an earlier integer field, as mpint or adaptive int ("dup"); (g) a quarter of the
cases builds and reads the whole message a second time in the same process and demands identical bytes/values
("again"). State carried from earlier EXAMPLES of the same process is part of the history too: when such state
makes hypothesis' shrinker see a case fail once and pass later (hypothesis.errors.Flaky), run() does not let that
surface as a harness error: the violating cases observed are re-executed, smallest first, in a fresh process
(then in this process) and the first one that reproduces is reported; if none does, the first observed one is.

Size dimension (round 4): "every value" has no size clause, so field LENGTH is a dimension of its own.  A second
exploration puts 1-2 run-length described fields (a short generated pattern repeated to n bytes / code points / names:
the case stores [pattern, n], not megabytes) among ordinary ones: string (read back with get_string or get_binary), text
(ASCII and 2/3/4-byte UTF-8 patterns), name-list with one huge name, name-list with n names; n = 2^e + d, e in 0..21
(quick) / 0..23 (thorough), d in -2..2, or uniform in 0..2^21 - i.e. just below, at and above every power of two up to
2 MiB (8 MiB thorough), incl. 2^16 and 2^20.  Same oracle: bytes == reference encoding, value read back unchanged, the
FOLLOWING fields read back unchanged (in order), so_far + remainder == whole.
"""
import collections

from hypothesis import strategies as st

from vlib import refssh as R

PROPERTY = "C39"
LEVEL = "exploration"
RULE = (
    "hypothesis-generated field sequences (byte, boolean, uint32, uint64, adaptive int, string, text, "
    "name-list of arbitrary comma-free names incl. non-ASCII code points of UTF-8 width 2/3/4 (byte length != "
    "code-point length), mpint dense at 0, +-1, +-2^(8k)-1, +-2^(8k), +-2^(8k-1) up to 4096 bits) with interleaved "
    "so_far/remainder/rewind probes; non-trivial = >=2 fields and at least one mpint or adaptive int >= 0xFF000000 "
    "or a field whose value sits on a sign/byte boundary or a name-list with a non-ASCII name; distinct by SHA-1 of the case. "
    "Each case is a call HISTORY within one process: generated side operations on the case's own integers (v, |v|, -v) - "
    "deflate_long with and without sign padding, inflate_long signed/always_positive, add_mpint/add_adaptive_int on a second "
    "Message - interleaved before/between the writes and between the reads (classes hist:*), fields repeating an earlier "
    "integer as mpint/adaptive int (dup:*), and a second build+read of the same message (again); violations that depend on "
    "state carried over from earlier examples (hypothesis Flaky) are re-confirmed in a fresh process and reported, not a harness error. "
    "Size dimension: a second exploration with 1-2 run-length described fields (pattern repeated to n units; string / text incl. multi-byte "
    "UTF-8 / name-list with one huge name / name-list of n names; n = 2^e+d, e<=21 quick / <=23 thorough, d in -2..2, or uniform up to 2^21) "
    "between ordinary fields (classes size:*); such a case is non-trivial when it has >= 2 fields and a field of >= 65536 bytes"
)


def _boundary_ints():
    ks = st.integers(min_value=1, max_value=512)

    def mk(k, kind, sign):
        base = {0: (1 << (8 * k)) - 1, 1: 1 << (8 * k), 2: 1 << (8 * k - 1), 3: (1 << (8 * k - 1)) - 1, 4: (1 << (8 * k - 1)) + 1}[kind]
        return base * sign

    return st.builds(mk, ks, st.integers(0, 4), st.sampled_from([1, -1]))


mpints = st.one_of(
    st.sampled_from([0, 1, -1, 127, 128, -128, -129, 255, 256, -255, -256, -257, 0x7FFFFFFF, 0x80000000, -0x80000000, 0xFFFFFFFF, 1 << 32, -(1 << 32)]),
    _boundary_ints(),
    st.integers(min_value=-(1 << 4096), max_value=1 << 4096),
    st.integers(min_value=-(1 << 64), max_value=1 << 64),
)

ascii_names = st.text(alphabet="abcdefghijklmnopqrstuvwxyz0123456789-@._", min_size=1, max_size=20)
# "name-list without commas": a name is any non-empty text without a comma - including non-ASCII code points of
# every UTF-8 width (2, 3 and 4 byte sequences), so that "length in bytes" and "length in code points" differ.
_WIDE = "\u00e9\u00ef\u00df\u0416\u05d0\u0939\u65e5\u672c\u8a9e\u20ac\U0001f511\U00010348"
wide_names = st.text(alphabet=st.sampled_from(_WIDE + "abz-@."), min_size=1, max_size=12)
any_names = st.text(alphabet=st.characters(codec="utf-8", exclude_characters=","), min_size=1, max_size=12)
names = st.one_of(ascii_names, ascii_names.map(lambda v: v), wide_names, any_names)

field = st.one_of(
    st.tuples(st.just("byte"), st.binary(min_size=1, max_size=1)),
    st.tuples(st.just("bool"), st.booleans()),
    st.tuples(st.just("u32"), st.one_of(st.integers(0, 0xFFFFFFFF), st.sampled_from([0, 0xFFFFFFFF, 0xFF000000, 0x80000000]))),
    st.tuples(st.just("u64"), st.one_of(st.integers(0, (1 << 64) - 1), st.sampled_from([0, (1 << 64) - 1, 1 << 63, (1 << 63) - 1, 1 << 32]))),
    st.tuples(
        st.just("aint"),
        st.one_of(st.integers(0, 1 << 40), st.sampled_from([0, 0xFEFFFFFF, 0xFF000000, 0xFF000001, 0xFFFFFFFF, 1 << 32, (1 << 40) - 1, 1 << 39, (1 << 39) - 1])),
    ),
    st.tuples(st.just("string"), st.binary(max_size=2000)),
    st.tuples(st.just("text"), st.text(max_size=200)),
    st.tuples(st.just("list"), st.lists(names, min_size=1, max_size=8)),
    st.tuples(st.just("mpint"), mpints),
)

# ---- size dimension: run-length described fields ("rstring"/"rtext"/"rlist"/"rlistn", value = [pattern, n]) -------------
_BASE = {"rstring": "string", "rtext": "text", "rlist": "list", "rlistn": "list"}


def _sizes(max_exp):
    near_pow2 = st.integers(0, max_exp).flatmap(lambda e: st.sampled_from([-2, -1, 0, 1, 2]).map(lambda d: max(0, (1 << e) + d)))
    return st.one_of(near_pow2, near_pow2.map(lambda v: v), st.integers(0, (1 << 21) + 4))


def _big_field(max_exp):
    n = _sizes(max_exp)
    tpat = st.text(alphabet=st.sampled_from(_WIDE + "abz-@. "), min_size=1, max_size=4)
    npat = st.text(alphabet=st.sampled_from(_WIDE + "abz-@."), min_size=1, max_size=4)
    return st.one_of(
        st.tuples(st.just("rstring"), st.tuples(st.binary(min_size=1, max_size=7), n)),
        st.tuples(st.just("rstring"), st.tuples(st.binary(min_size=1, max_size=7), n)).map(lambda v: v),
        st.tuples(st.just("rtext"), st.tuples(tpat, n)),
        st.tuples(st.just("rlist"), st.tuples(npat, n)),
        st.tuples(st.just("rlistn"), st.tuples(npat, _sizes(min(max_exp, 19)).map(lambda v: max(1, min(v, 1 << 19))))),
    )


def _big_case(max_exp):
    b = _big_field(max_exp)
    few = lambda k: st.lists(field, max_size=k)  # noqa: E731
    return st.tuples(few(3), b, few(3), st.one_of(st.none(), b), few(2), st.lists(st.integers(0, 3), max_size=10), st.integers(0, 5).map(lambda v: v == 0)).map(
        lambda t: (t[0] + [t[1]] + t[2] + ([t[3]] if t[3] is not None else []) + t[4], t[5], [], t[6])
    )


def _val(k, v):
    """the value a field stands for (run-length described kinds are expanded here, never stored in the case)"""
    if k not in _BASE:
        return v
    pat, n = v[0], int(v[1])
    if k == "rlistn":
        return [pat] * n
    rep_ = (pat * (n // len(pat) + 1))[:n]
    if k == "rlist":
        return [rep_ if n else pat, "tail"]
    return rep_


def _short(v):
    r = repr(v) if not isinstance(v, list) or len(v) < 50 else "[%d names: %r ...]" % (len(v), v[:3])
    return r if len(r) <= 200 else "%s...[%d chars]...%s" % (r[:80], len(r), r[-80:])


_INT_KINDS = ("mpint", "aint", "u32", "u64")
HIST_OPS = ("deflate", "deflate-nopad", "inflate", "inflate-pos", "msg-mpint", "msg-aint")

# a field that repeats the value of an earlier integer field (resolved in _resolve): ("dup", which-earlier, as-kind)
dup_field = st.tuples(st.just("dup"), st.integers(0, 7), st.sampled_from(["mpint", "aint"]))
# side operation: (position in the write/read sequence, op, which integer of the case, variant 0: v, 1: |v|, 2: -v)
hist_op = st.tuples(st.integers(0, 63), st.sampled_from(HIST_OPS), st.integers(0, 7), st.integers(0, 2))

case_st = st.tuples(
    st.lists(st.one_of(field, field.map(lambda v: v), field.map(lambda v: v), dup_field), min_size=1, max_size=30),
    st.lists(st.integers(0, 3), max_size=30),
    st.lists(hist_op, max_size=6),
    st.integers(0, 3).map(lambda v: v == 0),
)


def _resolve(raw_fields):
    """Replace ("dup", i, kind) by a field of that kind carrying the value of an earlier integer field
    (dropped when there is none / the value does not fit the kind)."""
    out = []
    for f in raw_fields:
        if f[0] != "dup":
            out.append((f[0], f[1]))
            continue
        ints = [v for k, v in out if k in _INT_KINDS]
        if not ints:
            continue
        v = ints[f[1] % len(ints)]
        if f[2] == "aint" and v < 0:
            continue
        out.append((f[2], v))
    return out


def _ref_encode(kind, v):
    if kind == "byte":
        return v
    if kind == "bool":
        return R.boolean(v)
    if kind == "u32":
        return R.u32(v)
    if kind == "u64":
        return R.u64(v)
    if kind == "aint":
        # paramiko-specific (not RFC) adaptive form: uint32 below 0xFF000000, else 0xFF + string(magnitude)
        if v >= 0xFF000000:
            return None
        return R.u32(v)
    if kind == "string":
        return R.string(v)
    if kind == "text":
        return R.string(v.encode("utf-8"))
    if kind == "list":
        # RFC 4251 section 5: a name-list is a string holding the comma-separated names; the uint32 length
        # counts the BYTES of the (UTF-8) encoding, not characters
        return R.string(",".join(v).encode("utf-8"))
    if kind == "mpint":
        return R.mpint(v)
    raise AssertionError(kind)


def _on_boundary(n):
    a = abs(n)
    if a < 2:
        return True
    bl = a.bit_length()
    return bl % 8 in (0, 1) or (a & (a - 1)) == 0 or ((a + 1) & a) == 0


def _sign(n):
    return "zero" if n == 0 else ("negative" if n < 0 else "positive")


def _magnitude_bytes(a):
    return a.to_bytes((a.bit_length() + 7) // 8, "big") if a else b""


class _Stop(Exception):
    """a (known, non-raising) violation ended this case"""


_SEEN = []  # unlisted violations observed by this process: (clause, bucket, case, detail)
_RING = collections.deque(maxlen=1000)  # the cases this process executed most recently
_FIRST_PRELUDE = []  # the cases executed before the first entry of _SEEN


_WRAP = []  # replay of a case with a prelude: the cases executed before the one running now


def _viol(ctx, clause, bucket, jcase, detail):
    if _WRAP and _WRAP[0]:
        jcase = dict(jcase, prelude=list(_WRAP[0]))
    if not _SEEN:
        del _FIRST_PRELUDE[:]
        _FIRST_PRELUDE.extend(list(_RING)[:-1])  # the last one is this case itself
    _SEEN.append((clause, bucket, jcase, detail))  # stays there when ctx.violation raises (unlisted, shrinking mode)
    if ctx.violation(clause, bucket, jcase, detail):
        _SEEN.pop()  # listed open finding
    raise _Stop()


def _side_op(ctx, jcase, op, n):
    """One side operation of the history on integer n, with its own oracle."""
    from paramiko.message import Message
    from paramiko import util
    from vlib.core import UnknownViolation

    try:
        if op == "deflate":
            d = util.deflate_long(n)
            if n != 0 and d != R.mpint_body(n):
                _viol(ctx, "encoding-differs-from-rfc4251", "deflate_long:" + _sign(n), jcase, "deflate_long(%r) = %s, RFC 4251 minimal form %s" % (n, d.hex()[:80], R.mpint_body(n).hex()[:80]))
            back = util.inflate_long(d)
            if back != n:
                _viol(ctx, "deflate-inflate", "signed", jcase, "%r -> %s -> %r" % (n, d.hex()[:60], back))
        elif op == "deflate-nopad":
            a = abs(n)
            d = util.deflate_long(a, add_sign_padding=False)
            back = util.inflate_long(d, always_positive=True)
            if back != a:
                _viol(ctx, "deflate-inflate", "unsigned", jcase, "%r -> %s -> %r" % (a, d.hex()[:60], back))
        elif op == "inflate":
            back = util.inflate_long(R.mpint_body(n))
            if back != n:
                _viol(ctx, "inflate-of-rfc-mpint", "neg" if n < 0 else "nonneg", jcase, "%r -> %r" % (n, back))
        elif op == "inflate-pos":
            a = abs(n)
            back = util.inflate_long(_magnitude_bytes(a), always_positive=True)
            if back != a:
                _viol(ctx, "inflate-of-magnitude", "always-positive", jcase, "%r -> %r" % (a, back))
        elif op == "msg-mpint":
            m = Message()
            m.add_mpint(n)
            got = m.asbytes()
            if got != R.mpint(n):
                _viol(ctx, "encoding-differs-from-rfc4251", "mpint:" + _sign(n), jcase, "second Message: mpint %r paramiko=%s ref=%s" % (n, got.hex()[:80], R.mpint(n).hex()[:80]))
            back = Message(got).get_mpint()
            if back != n:
                _viol(ctx, "roundtrip", "mpint", jcase, "second Message: wrote %r read %r" % (n, back))
        elif op == "msg-aint":
            a = abs(n)
            m = Message()
            m.add_adaptive_int(a)
            got = m.asbytes()
            if a < 0xFF000000 and got != R.u32(a):
                _viol(ctx, "encoding-differs-from-rfc4251", "aint", jcase, "second Message: aint %r paramiko=%s" % (a, got.hex()[:80]))
            back = Message(got).get_adaptive_int()
            if back != a:
                _viol(ctx, "roundtrip", "aint", jcase, "second Message: wrote %r read %r" % (a, back))
        else:
            raise AssertionError(op)
    except (_Stop, UnknownViolation, AssertionError):
        raise
    except Exception as e:
        _viol(ctx, "util-raises", "%s:%s" % (op, type(e).__name__), jcase, repr(e))


def _write(ctx, jcase, m, k, v):
    try:
        if k == "byte":
            m.add_byte(v)
        elif k == "bool":
            m.add_boolean(v)
        elif k == "u32":
            m.add_int(v)
        elif k == "u64":
            m.add_int64(v)
        elif k == "aint":
            m.add_adaptive_int(v)
        elif k == "string":
            m.add_string(v)
        elif k == "text":
            m.add_string(v)
        elif k == "list":
            m.add_list(v)
        elif k == "mpint":
            m.add_mpint(v)
    except Exception as e:
        _viol(ctx, "encode-raises", "%s:%s" % (k, type(e).__name__), jcase, repr(e))


def _read(ctx, jcase, r, k, p):
    try:
        if k == "byte":
            return r.get_byte()
        elif k == "bool":
            return r.get_boolean()
        elif k == "u32":
            return r.get_int()
        elif k == "u64":
            return r.get_int64()
        elif k == "aint":
            return r.get_adaptive_int()
        elif k == "string":
            return r.get_string() if p < 2 else r.get_binary()
        elif k == "text":
            return r.get_text()
        elif k == "list":
            return r.get_list()
        elif k == "mpint":
            return r.get_mpint()
    except Exception as e:
        _viol(ctx, "decode-raises", "%s:%s" % (k, type(e).__name__), jcase, repr(e))


def execute(ctx, case):
    if len(case) == 2:  # layout of the first rounds: (fields, probes)
        case = (case[0], case[1], [], False)
    fields, probes, hist, again = case
    fields = _resolve(fields)
    if not fields:
        return
    ints = [v for k, v in fields if k in _INT_KINDS]
    nf = len(fields)
    # resolve the side operations: position p in 0..2*nf+1 (0..nf: before write p / after the last write;
    # nf+1..2*nf+1: before read p-nf-1 / after the last read), integer = variant of one of the case's integers
    plan = {}
    hist_res = []
    if ints:
        for pos, op, ref, variant in hist:
            v = ints[ref % len(ints)]
            n = (v, abs(v), -v)[variant]
            pos = pos % (2 * nf + 2)
            plan.setdefault(pos, []).append((op, n))
            hist_res.append((pos, op, n))
    nontrivial = len(fields) >= 2 and any(
        (k == "mpint") or (k == "aint" and v >= 0xFF000000) or (k in ("u32", "u64") and _on_boundary(v))
        or (k == "list" and any(ord(ch) > 127 for n in v for ch in n))
        for k, v in fields
    )
    classes = set(k for k, _ in fields)
    for k, v in fields:
        if k == "list" and any(ord(ch) > 127 for n in v for ch in n):
            classes.add("list:non-ascii-name")
            widths = set(len(ch.encode("utf-8")) for n in v for ch in n)
            classes.update("list:utf8-width-%d" % w for w in sorted(widths) if w > 1)
        if k == "text" and any(ord(ch) > 127 for ch in v):
            classes.add("text:non-ascii")
    big = [v for k, v in fields if k == "mpint" or (k == "aint" and v >= 0xFF000000)]
    if len(big) != len(set(big)):
        classes.add("dup:same-integer-written-twice")
    written = set(abs(v) for v in big)
    for pos, op, n in hist_res:
        classes.add("hist:" + op)
        classes.add("hist:during-write" if pos <= nf else "hist:during-read")
        if abs(n) in written:
            classes.add("hist:on-a-value-also-written-as-mpint/long-aint")
            if op == "deflate-nopad":
                classes.add("hist:both-padding-modes-on-one-value")
    if again:
        classes.add("again:second-build-and-read")
    for k, v in fields:
        if k in _BASE:
            val = _val(k, v)
            nb = len(val) if k == "rstring" else len((val if k == "rtext" else ",".join(val)).encode("utf-8"))
            lim = next((e for e in (8, 16, 20) if nb < (1 << e)), None)
            classes.add("size:%s-bytes-%s" % (_BASE[k], "<2^%d" % lim if lim else ("=2^20" if nb == 1 << 20 else ">2^20")))
            if nb in ((1 << 16) - 1, 1 << 16, (1 << 16) + 1, (1 << 20) - 1, 1 << 20, (1 << 20) + 1):
                classes.add("size:at-a-power-of-two-boundary(2^16,2^20)+-1")
            if nb >= 1 << 16 and fields[-1][1] is not v:
                classes.add("size:fields-follow-a-large-field")
            if nb >= 1 << 16 and len(fields) >= 2:
                nontrivial = True
    jcase = {"fields": fields, "probes": probes, "hist": [list(h) for h in hist], "again": again}
    ctx.case(jcase, nontrivial, sorted(classes))
    _RING.append(jcase)
    try:
        whole = _pass(ctx, jcase, fields, probes, plan, None)
        if again:
            _pass(ctx, jcase, fields, probes, {}, whole)
    except _Stop:
        return


def _pass(ctx, jcase, fields, probes, plan, earlier):
    from paramiko.message import Message
    from paramiko import util

    nf = len(fields)
    m = Message()
    # run-length described fields: expanded value, handled as their base kind from here on
    fields = [(_BASE.get(k, k), _val(k, v)) for k, v in fields]
    for idx, (k, v) in enumerate(fields):
        for op, n in plan.get(idx, ()):
            _side_op(ctx, jcase, op, n)
        before = len(m.asbytes())
        _write(ctx, jcase, m, k, v)
        got = m.asbytes()[before:]
        ref = _ref_encode(k, v)
        if ref is not None and got != ref:
            bucket = k
            if k == "mpint":
                bucket = "mpint:" + _sign(v)
            _viol(ctx, "encoding-differs-from-rfc4251", bucket, jcase, "field %s=%s paramiko=%s (%d bytes) ref=%s (%d bytes)" % (k, _short(v) if k != "string" else "...", got.hex()[:80], len(got), ref.hex()[:80], len(ref)))
    for op, n in plan.get(nf, ()):
        _side_op(ctx, jcase, op, n)
    whole = m.asbytes()
    if earlier is not None and whole != earlier:
        _viol(ctx, "rebuild-differs", "same-fields-different-bytes", jcase, "first build %d bytes, second build %d bytes" % (len(earlier), len(whole)))
    r = Message(whole)
    pi = 0
    for idx, (k, v) in enumerate(fields):
        for op, n in plan.get(nf + 1 + idx, ()):
            _side_op(ctx, jcase, op, n)
        p = probes[pi] if pi < len(probes) else 0
        pi += 1
        if p in (1, 3):
            sf, rem = r.get_so_far(), r.get_remainder()
            if sf + rem != whole:
                _viol(ctx, "so_far+remainder", "at-field-%s" % k, jcase, "so_far=%d remainder=%d whole=%d" % (len(sf), len(rem), len(whole)))
        got = _read(ctx, jcase, r, k, p)
        if got != v or type(got) is not type(v):
            _viol(ctx, "roundtrip", k, jcase, "field %d %s wrote %s read %s" % (idx, k, _short(v), _short(got)))
    for op, n in plan.get(2 * nf + 1, ()):
        _side_op(ctx, jcase, op, n)
    if r.get_remainder() != b"" or r.get_so_far() != whole:
        _viol(ctx, "so_far+remainder", "at-end", jcase, "")
    # rewind and read the first field again
    r.rewind()
    if r.get_so_far() != b"" or r.get_remainder() != whole:
        _viol(ctx, "so_far+remainder", "after-rewind", jcase, "")
    # util-level round trips for every integer in the case
    for k, v in fields:
        if k not in _INT_KINDS:
            continue
        try:
            d = util.deflate_long(v)
            back = util.inflate_long(d)
            d2 = util.deflate_long(abs(v), add_sign_padding=False)
            back2 = util.inflate_long(d2, always_positive=True)
            from_ref = util.inflate_long(R.mpint_body(v))
        except Exception as e:
            _viol(ctx, "util-raises", type(e).__name__, jcase, repr(e))
        if back != v:
            _viol(ctx, "deflate-inflate", "signed", jcase, "%r -> %s -> %r" % (v, d.hex()[:60], back))
        if back2 != abs(v):
            _viol(ctx, "deflate-inflate", "unsigned", jcase, "%r -> %s -> %r" % (abs(v), d2.hex()[:60], back2))
        if from_ref != v:
            _viol(ctx, "inflate-of-rfc-mpint", "neg" if v < 0 else "nonneg", jcase, "%r -> %r" % (v, from_ref))
    return whole


def _case_tuple(jcase):
    return ([(k, v) for k, v in jcase["fields"]], jcase["probes"], [tuple(h) for h in jcase.get("hist", [])], bool(jcase.get("again", False)))


class _Fail(Exception):
    """an unlisted violation inside ctx.explore (hypothesis shrinks on it; run() does the reporting)"""


def _fresh(ctx, jcase):
    """Run `check.py C39 --replay` on the case in a new interpreter (same tree under test). Returns None when the
    child reports nothing, else what it reported first: (clause, bucket, case, detail) - for a case with a prelude
    that may be one of the prelude cases (with the part of the prelude before it)."""
    import json
    import os
    import re
    import subprocess
    import sys

    from vlib import core

    ctx.count("confirm:fresh-process-replays")
    path = os.path.join(ctx.tmpdir(), "cand-%d.json" % len(os.listdir(ctx.tmpdir())))
    with open(path, "w") as f:
        json.dump({"property": PROPERTY, "signature": "candidate", "case": core._enc(jcase), "detail": ""}, f)
    here = os.path.dirname(os.path.dirname(os.path.abspath(__file__)))
    got, written = None, []
    try:
        p = subprocess.run([sys.executable, os.path.join(here, "check.py"), PROPERTY, "--replay", path], stdout=subprocess.PIPE, stderr=subprocess.STDOUT, timeout=120)
        written = re.findall(r"^VIOLATION property=%s replay=(\S+)" % PROPERTY, p.stdout.decode("utf-8", "replace"), re.M)
        if p.returncode == 1 and written:
            with open(os.path.join(here, written[0])) as f:
                body = json.load(f)
            clause, _, bucket = body["signature"].partition("|")
            got = (clause, bucket, core._dec(body["case"]), body.get("detail", ""))
    except Exception:
        got = None
    finally:
        # the child wrote its own new-*.json for whatever it reported: only the parent's report is kept
        for rel in written:
            if os.path.basename(rel).startswith("new-") and os.path.exists(os.path.join(here, rel)):
                os.unlink(os.path.join(here, rel))
    return got


def _report(ctx):
    """An unlisted violation was observed during the exploration. Because the functions under test may carry state
    from earlier calls of this process (the statement has no 'unless called before' clause, so a verdict that
    depends on it is a violation, not a harness problem), the case hypothesis ended with need not fail on its own:
    report a case that reproduces in a FRESH process - hypothesis' final case, else the smallest observed ones,
    else the first observed one preceded by the cases executed before it ("prelude", reduced by bounded delta
    debugging); only if nothing reproduces there, a case as it was seen in this process."""
    import json

    from vlib import core

    def size(j):
        return len(json.dumps(core._enc(j)))

    cands = [_SEEN[-1]] + sorted(_SEEN[:-1], key=lambda s: size(s[2]))
    tried = []
    best = None
    for clause, bucket, jcase, detail in cands:
        if jcase in tried:
            continue
        if len(tried) >= 6:
            break
        tried.append(jcase)
        best = _fresh(ctx, jcase)
        if best:
            break
    if best is None:
        ctx.count("carried-state:violation-depends-on-earlier-examples")
        # the cases executed before the first observed violation, as a prelude: suffixes of several lengths (state such
        # as a bounded cache depends on where in the history it was last emptied)
        jcase = _SEEN[0][2]
        full = list(_FIRST_PRELUDE)
        for ln in sorted(set(min(len(full), x) for x in (1000, 300, 100, 40, 16, 6, 2, 1)), reverse=True):
            if ln:
                best = _fresh(ctx, dict(jcase, prelude=full[-ln:]))
                if best:
                    break
    if best is not None:
        # bounded delta debugging of the prelude (every step is confirmed in a fresh process)
        runs, n = 0, 2
        while best[2].get("prelude") and runs < 14:
            pre = best[2]["prelude"]
            chunk = -(-len(pre) // n)
            for i in range(0, len(pre), chunk):
                runs += 1
                got = _fresh(ctx, dict(best[2], prelude=pre[:i] + pre[i + chunk :]))
                if got:
                    best, n = got, max(n - 1, 2)
                    break
                if runs >= 14:
                    break
            else:
                if chunk == 1:
                    break
                n = min(len(pre), n * 2)
        clause, bucket, jcase, detail = best
        if not jcase.get("prelude"):
            jcase = {k: v for k, v in jcase.items() if k != "prelude"}
        ctx.violation(clause, bucket, jcase, str(detail) + " [confirmed in a fresh process]")
        return
    for clause, bucket, jcase, detail in cands[:8]:
        n0 = len(ctx.unknown)
        replay(ctx, jcase)
        if len(ctx.unknown) > n0:
            return
    clause, bucket, jcase, detail = _SEEN[0]
    ctx.violation(clause, bucket, jcase, str(detail) + " [observed in this process after earlier examples; depends on state carried across calls, did not reproduce when re-executed alone]")


def run(ctx):
    import hypothesis

    from vlib.core import UnknownViolation

    ctx.set_budget(50, 600)
    del _SEEN[:]
    del _FIRST_PRELUDE[:]
    _RING.clear()

    def body(c):
        try:
            execute(ctx, c)
        except UnknownViolation as e:
            raise _Fail(str(e)) from None

    try:
        ctx.explore(case_st, body, ctx.scale(4000, 60000))
        ctx.explore(_big_case(21 if ctx.tier == "quick" else 23), body, ctx.scale(160, 1500), seed_offset=1)
    except (_Fail, hypothesis.errors.Flaky):
        # _Fail: hypothesis' final (minimal) case; Flaky: a case failed once and passed when re-executed
        if not _SEEN:
            raise
        _report(ctx)


def replay(ctx, case):
    """A case may carry "prelude": the cases to execute (with the full oracle) in the same process before it."""
    prelude = list(case.get("prelude", []))
    try:
        for i, pc in enumerate(prelude):
            _WRAP[:] = [prelude[:i]]
            execute(ctx, _case_tuple(pc))
        _WRAP[:] = [prelude]
        execute(ctx, _case_tuple(case))
    finally:
        del _WRAP[:]
