"""C39 - SSH wire encoding round-trips and integers are encoded canonically.

Domain: sequences (<=30) of typed fields written with paramiko.Message.add_* and read back
with get_*, interleaved with get_so_far/get_remainder/rewind.
Oracle: (a) values read back equal, in order; (b) so_far + remainder == whole message at
every point; (c) bytes produced == the independent RFC 4251 encoder in vlib.refssh
(mpint minimal two's complement, zero = empty string); (d) deflate_long/inflate_long
round trip, and inflate_long(ref mpint body) == n.
"""
from hypothesis import strategies as st

from vlib import refssh as R

PROPERTY = "C39"
LEVEL = "exploration"
RULE = (
    "hypothesis-generated field sequences (byte, boolean, uint32, uint64, adaptive int, string, text, "
    "name-list of arbitrary comma-free names incl. non-ASCII code points of UTF-8 width 2/3/4 (byte length != "
    "code-point length), mpint dense at 0, +-1, +-2^(8k)-1, +-2^(8k), +-2^(8k-1) up to 4096 bits) with interleaved "
    "so_far/remainder/rewind probes; non-trivial = >=2 fields and at least one mpint or adaptive int >= 0xFF000000 "
    "or a field whose value sits on a sign/byte boundary or a name-list with a non-ASCII name; distinct by SHA-1 of the field list"
)


def _boundary_ints():
    ks = st.integers(min_value=1, max_value=512)

    def mk(k, kind, sign):
        base = {0: (1 << (8 * k)) - 1, 1: 1 << (8 * k), 2: 1 << (8 * k - 1), 3: (1 << (8 * k - 1)) - 1, 4: (1 << (8 * k - 1)) + 1}[kind]
        return base * sign

    return st.builds(mk, ks, st.integers(0, 4), st.sampled_from([1, -1]))


mpints = st.one_of(
    st.sampled_from([0, 1, -1, 127, 128, -128, -129, 255, 256, -255, -256, -257, 0x7FFFFFFF, 0x80000000, -0x80000000, 0xFFFFFFFF, 1 << 32, -(1 << 32)]),
    _boundary_ints(),
    st.integers(min_value=-(1 << 4096), max_value=1 << 4096),
    st.integers(min_value=-(1 << 64), max_value=1 << 64),
)

ascii_names = st.text(alphabet="abcdefghijklmnopqrstuvwxyz0123456789-@._", min_size=1, max_size=20)
# "name-list without commas": a name is any non-empty text without a comma - including non-ASCII code points of
# every UTF-8 width (2, 3 and 4 byte sequences), so that "length in bytes" and "length in code points" differ.
_WIDE = "\u00e9\u00ef\u00df\u0416\u05d0\u0939\u65e5\u672c\u8a9e\u20ac\U0001f511\U00010348"
wide_names = st.text(alphabet=st.sampled_from(_WIDE + "abz-@."), min_size=1, max_size=12)
any_names = st.text(alphabet=st.characters(codec="utf-8", exclude_characters=","), min_size=1, max_size=12)
names = st.one_of(ascii_names, ascii_names.map(lambda v: v), wide_names, any_names)

field = st.one_of(
    st.tuples(st.just("byte"), st.binary(min_size=1, max_size=1)),
    st.tuples(st.just("bool"), st.booleans()),
    st.tuples(st.just("u32"), st.one_of(st.integers(0, 0xFFFFFFFF), st.sampled_from([0, 0xFFFFFFFF, 0xFF000000, 0x80000000]))),
    st.tuples(st.just("u64"), st.one_of(st.integers(0, (1 << 64) - 1), st.sampled_from([0, (1 << 64) - 1, 1 << 63, (1 << 63) - 1, 1 << 32]))),
    st.tuples(
        st.just("aint"),
        st.one_of(st.integers(0, 1 << 40), st.sampled_from([0, 0xFEFFFFFF, 0xFF000000, 0xFF000001, 0xFFFFFFFF, 1 << 32, (1 << 40) - 1, 1 << 39, (1 << 39) - 1])),
    ),
    st.tuples(st.just("string"), st.binary(max_size=2000)),
    st.tuples(st.just("text"), st.text(max_size=200)),
    st.tuples(st.just("list"), st.lists(names, min_size=1, max_size=8)),
    st.tuples(st.just("mpint"), mpints),
)

case_st = st.tuples(st.lists(field, min_size=1, max_size=30), st.lists(st.integers(0, 3), max_size=30))


def _ref_encode(kind, v):
    if kind == "byte":
        return v
    if kind == "bool":
        return R.boolean(v)
    if kind == "u32":
        return R.u32(v)
    if kind == "u64":
        return R.u64(v)
    if kind == "aint":
        # paramiko-specific (not RFC) adaptive form: uint32 below 0xFF000000, else 0xFF + string(magnitude)
        if v >= 0xFF000000:
            return None
        return R.u32(v)
    if kind == "string":
        return R.string(v)
    if kind == "text":
        return R.string(v.encode("utf-8"))
    if kind == "list":
        # RFC 4251 section 5: a name-list is a string holding the comma-separated names; the uint32 length
        # counts the BYTES of the (UTF-8) encoding, not characters
        return R.string(",".join(v).encode("utf-8"))
    if kind == "mpint":
        return R.mpint(v)
    raise AssertionError(kind)


def _on_boundary(n):
    a = abs(n)
    if a < 2:
        return True
    bl = a.bit_length()
    return bl % 8 in (0, 1) or (a & (a - 1)) == 0 or ((a + 1) & a) == 0


def execute(ctx, case):
    from paramiko.message import Message
    from paramiko import util

    fields, probes = case
    fields = [(k, v) for k, v in fields]
    nontrivial = len(fields) >= 2 and any(
        (k == "mpint") or (k == "aint" and v >= 0xFF000000) or (k in ("u32", "u64") and _on_boundary(v))
        or (k == "list" and any(ord(ch) > 127 for n in v for ch in n))
        for k, v in fields
    )
    classes = sorted(set(k for k, _ in fields))
    for k, v in fields:
        if k == "list" and any(ord(ch) > 127 for n in v for ch in n):
            classes.append("list:non-ascii-name")
            widths = set(len(ch.encode("utf-8")) for n in v for ch in n)
            classes.extend("list:utf8-width-%d" % w for w in sorted(widths) if w > 1)
        if k == "text" and any(ord(ch) > 127 for ch in v):
            classes.append("text:non-ascii")
    classes = sorted(set(classes))
    ctx.case({"fields": fields, "probes": probes}, nontrivial, classes)
    jcase = {"fields": fields, "probes": probes}

    m = Message()
    expect = b""
    exact = True
    for k, v in fields:
        before = len(m.asbytes())
        try:
            if k == "byte":
                m.add_byte(v)
            elif k == "bool":
                m.add_boolean(v)
            elif k == "u32":
                m.add_int(v)
            elif k == "u64":
                m.add_int64(v)
            elif k == "aint":
                m.add_adaptive_int(v)
            elif k == "string":
                m.add_string(v)
            elif k == "text":
                m.add_string(v)
            elif k == "list":
                m.add_list(v)
            elif k == "mpint":
                m.add_mpint(v)
        except Exception as e:
            ctx.violation("encode-raises", "%s:%s" % (k, type(e).__name__), jcase, repr(e))
            return
        got = m.asbytes()[before:]
        ref = _ref_encode(k, v)
        if ref is None:
            exact = False
        elif got != ref:
            bucket = k
            if k == "mpint":
                bucket = "mpint:zero" if v == 0 else ("mpint:negative" if v < 0 else "mpint:positive")
            ctx.violation("encoding-differs-from-rfc4251", bucket, jcase, "field %s=%r paramiko=%s ref=%s" % (k, v if k != "string" else "...", got.hex()[:80], ref.hex()[:80]))
            return
        expect += got
    whole = m.asbytes()
    r = Message(whole)
    pi = 0
    for idx, (k, v) in enumerate(fields):
        p = probes[pi] if pi < len(probes) else 0
        pi += 1
        if p in (1, 3):
            sf, rem = r.get_so_far(), r.get_remainder()
            if sf + rem != whole:
                ctx.violation("so_far+remainder", "at-field-%s" % k, jcase, "so_far=%d remainder=%d whole=%d" % (len(sf), len(rem), len(whole)))
                return
        try:
            if k == "byte":
                got = r.get_byte()
            elif k == "bool":
                got = r.get_boolean()
            elif k == "u32":
                got = r.get_int()
            elif k == "u64":
                got = r.get_int64()
            elif k == "aint":
                got = r.get_adaptive_int()
            elif k == "string":
                got = r.get_string() if p < 2 else r.get_binary()
            elif k == "text":
                got = r.get_text()
            elif k == "list":
                got = r.get_list()
            elif k == "mpint":
                got = r.get_mpint()
        except Exception as e:
            ctx.violation("decode-raises", "%s:%s" % (k, type(e).__name__), jcase, repr(e))
            return
        if got != v or type(got) is not type(v):
            ctx.violation("roundtrip", k, jcase, "field %d %s wrote %r read %r" % (idx, k, v, got))
            return
    if r.get_remainder() != b"" or r.get_so_far() != whole:
        ctx.violation("so_far+remainder", "at-end", jcase, "")
        return
    # rewind and read the first field again
    r.rewind()
    if r.get_so_far() != b"" or r.get_remainder() != whole:
        ctx.violation("so_far+remainder", "after-rewind", jcase, "")
        return
    # util-level round trips for every integer in the case
    for k, v in fields:
        if k not in ("mpint", "aint", "u32", "u64"):
            continue
        try:
            d = util.deflate_long(v)
            back = util.inflate_long(d)
            d2 = util.deflate_long(abs(v), add_sign_padding=False)
            back2 = util.inflate_long(d2, always_positive=True)
            from_ref = util.inflate_long(R.mpint_body(v))
        except Exception as e:
            ctx.violation("util-raises", type(e).__name__, jcase, repr(e))
            return
        if back != v:
            ctx.violation("deflate-inflate", "signed", jcase, "%r -> %s -> %r" % (v, d.hex()[:60], back))
            return
        if back2 != abs(v):
            ctx.violation("deflate-inflate", "unsigned", jcase, "%r -> %s -> %r" % (abs(v), d2.hex()[:60], back2))
            return
        if from_ref != v:
            ctx.violation("inflate-of-rfc-mpint", "neg" if v < 0 else "nonneg", jcase, "%r -> %r" % (v, from_ref))
            return


def run(ctx):
    ctx.set_budget(50, 600)
    ctx.explore(case_st, lambda c: execute(ctx, c), ctx.scale(6000, 60000))


def replay(ctx, case):
    fields = [(k, v) for k, v in case["fields"]]
    execute(ctx, (fields, case["probes"]))
