"""C12 - unrecognised message types get UNIMPLEMENTED and the session continues.

Domain: role (client / server tested) x every message type 0..255 that the tested side has no
handler for in its post-authentication state (the handled set is read from the live dispatch
tables only to choose the domain) x random payload 0..300 bytes; several probes per session.
Two further dimensions of "every unhandled type ... in the current role and state":
  * when the probe arrives relative to a key re-exchange (field 3 of a probe): None, "puppet" / "tested"
    (a re-exchange started by that side has completed right before the probe), or "cross": the tested
    side starts a re-exchange (renegotiate_keys()) and the probe + sentinel cross its KEXINIT on the wire,
    i.e. they arrive while the tested side's own KEXINIT is outstanding and the peer's has not come yet
    (the puppet emits them from its reader thread on receipt of that KEXINIT, before answering it);
  * the process-wide logging configuration the session runs under (case["log"]): untouched, or the
    level of the "paramiko" logger / of a per-transport log channel (Transport.set_log_channel) / the
    logging.disable() threshold set to one of DEBUG..CRITICAL. It is set before the session is built and
    restored afterwards (vlib.core only installs a NullHandler, which this does not touch);
  * how many unhandled messages arrive back to back (field 4 of a probe, "chain": the next probe follows
    without any recognised message in between). A run = a maximal chain of probes; the sentinel is sent
    once, after the run. Run lengths: 1 (a recognised request after every probe), 2..6 (drawn per probe),
    "storms" of 2..600 (quick) / ..3000 (thorough) probes whose types / payloads cycle through a drawn
    pattern, and one sweep per role that sends EVERY unhandled type 0..255 in one uninterrupted run.
    A re-exchange before a probe ends the run before it (its KEXINIT is a recognised message anyway).
Oracle (sentinel ordering, no sleeps): the puppet peer sends the probes of a run with outbound sequence
numbers s1..sn, then a sentinel GLOBAL_REQUEST(want_reply). Everything the tested side sends up to the
sentinel's REQUEST_FAILURE must be exactly UNIMPLEMENTED(si), in order, for every probe != 3 of the run
and nothing for a probe == 3 (UNIMPLEMENTED itself is never answered). Afterwards the transport is active
and a channel round trip still works.
"""
import logging
import threading

from hypothesis import strategies as st

from vlib import peers
from vlib import refssh as R

PROPERTY = "C12"
LEVEL = "exploration"
RULE = (
    "role x unhandled message type (0..255 minus the tested side's live dispatch tables, "
    "and DISCONNECT/IGNORE/DEBUG which have dedicated semantics) x random payload x timing relative to a key re-exchange {none, right after a completed "
    "re-exchange started by either side, crossing the KEXINIT of a re-exchange the tested side started (probe handled while its own KEXINIT is outstanding)} "
    "x process logging configuration {untouched, level of the paramiko logger / of a per-transport log channel / logging.disable threshold at DEBUG..CRITICAL} "
    "x length of the uninterrupted run of unhandled messages the probe is part of (no recognised message in between; the liveness sentinel follows the run): "
    "1, 2..6 (chain flag drawn per probe), storms of 2..600 (thorough ..3000) probes cycling a drawn type/payload pattern, and per role one sweep of every unhandled type in a single run; "
    "quick enumerates every (role,type) once with a sentinel after each probe (exhaustive over type x role, logging configuration drawn per session), once more as one back-to-back sweep per role, "
    "plus hypothesis-drawn multi-probe sessions and storms; "
    "non-trivial = probe type without a debug name in paramiko.common.MSG_NAMES, or >= 3 probes in one session; distinct by (role, types, payloads, timing, run structure, logging)"
)

SENTINEL = b"verif-sentinel@verif"


def _handled(t):
    hs = set(t._handler_table) | set(t._channel_handler_table)
    if t.auth_handler is not None:
        hs |= set(t.auth_handler._handler_table)
    return hs


class HookPacketizer(peers.RecPacketizer):
    """RecPacketizer plus a one-shot hook that runs in the puppet's reader thread when a KEXINIT of the
    peer has been read, i.e. before the puppet's transport gets to answer it with its own KEXINIT."""

    on_kexinit = None

    def read_message(self):
        ptype, m = peers.RecPacketizer.read_message(self)
        if ptype == 20:
            hook, self.on_kexinit = self.on_kexinit, None
            if hook is not None:
                hook()
        return ptype, m


LOG_CHANNEL = "paramiko.verif-c12"  # below "paramiko": ends in core's NullHandler, never on stderr
LOG_WHERE = ("package", "channel", "disable")
LOG_LEVELS = ("DEBUG", "INFO", "WARNING", "ERROR", "CRITICAL")


class LogConfig:
    """Apply case["log"] = [where, levelname] (or None) to the process; restore() undoes exactly that."""

    def __init__(self, cfg):
        self.cfg = tuple(cfg) if cfg else None
        self.undo = []

    def apply(self):
        if not self.cfg:
            return
        where, level = self.cfg[0], getattr(logging, self.cfg[1])
        if where == "disable":
            old = logging.root.manager.disable
            self.undo.append(lambda: logging.disable(old))
            logging.disable(level)
        else:
            lg = logging.getLogger("paramiko" if where == "package" else LOG_CHANNEL)
            old = lg.level
            self.undo.append(lambda: lg.setLevel(old))
            lg.setLevel(level)

    def on_transport(self, t):
        if self.cfg and self.cfg[0] == "channel":
            t.set_log_channel(LOG_CHANNEL)

    def restore(self):
        while self.undo:
            self.undo.pop()()


def _log_enabled(t, level):
    return logging.getLogger(t.get_log_channel()).isEnabledFor(level)


def _session(role, logcfg=None):
    """Returns (link, tested, puppet). Tested side authenticated, puppet in raw mode."""
    pk = {"packetizer_class": HookPacketizer}
    if role == "client":
        link, tc, ts, srv = peers.connected_pair(client_cls=peers.VTransport, server_cls=peers.Puppet, server_kw=pk)
        tested, puppet = tc, ts
    else:
        srv = peers.RecordingServer({"check_auth_password": peers.AUTH_SUCCESSFUL, "check_global_request": False})
        link, tc, ts, srv = peers.connected_pair(client_cls=peers.Puppet, server_cls=peers.VTransport, server_obj=srv, client_kw=pk)
        tested, puppet = ts, tc
    if logcfg is not None:
        logcfg.on_transport(tested)
    puppet.raw()
    return link, tested, puppet


def excluded_types(tested):
    # 1 DISCONNECT ends the session by design; 2 IGNORE / 4 DEBUG are consumed silently by design;
    # KEXINIT/NEWKEYS are in the handler table; the rest of 20..49 has no handler once the handshake is over.
    return _handled(tested) | {1, 2, 4}


def _cross_rekey(tested, puppet, payload):
    """The tested side starts a re-exchange; the puppet emits payload + sentinel when that KEXINIT arrives,
    before answering it. Returns (seqno of the probe or None, error text or None, crossed: bool)."""
    box = {}

    def hook():
        try:
            box["s"] = puppet.send_raw_seq(payload)
            puppet.send_raw_seq(peers.m_global_request(SENTINEL, True))
        except Exception as e:  # the puppet's reader thread must survive; reported by the caller
            box["e"] = e

    def rekey():
        try:
            tested.renegotiate_keys()
        except Exception as e:
            box["rk"] = e

    puppet.packetizer.on_kexinit = hook
    th = threading.Thread(target=rekey, daemon=True, name="c12-rekey")
    th.start()
    th.join(20)
    puppet.packetizer.on_kexinit = None
    if th.is_alive():
        return box.get("s"), "renegotiate_keys() still running after 20 s", "s" in box
    if "rk" in box:
        return box.get("s"), repr(box["rk"]), "s" in box
    if "e" in box:
        return None, "puppet could not send inside the window: %r" % (box["e"],), False
    if "s" not in box:
        # hook not reached (the puppet's KEXINIT did not pass the packetizer hook): degrade to "right after a
        # completed re-exchange started by the tested side"
        s = puppet.send_raw_seq(payload)
        puppet.send_raw_seq(peers.m_global_request(SENTINEL, True))
        return s, None, False
    return box["s"], None, True


def probe_session(ctx, role, probes, record=True, log=None):
    """probes: list of (type, payload[, rekey timing[, chain]]). Returns False if a violation was reported."""
    logcfg = LogConfig(log)
    logcfg.apply()
    try:
        return _probe_session(ctx, role, probes, record, logcfg)
    finally:
        logcfg.restore()


def _norm_probe(p):
    """[t, payload] / [t, payload, rk] / [t, payload, rk, chain] -> (t, payload, rk, chain)."""
    p = tuple(p)
    return (p[0], p[1], p[2] if len(p) > 2 else None, bool(p[3]) if len(p) > 3 else False)


def split_runs(probes):
    """Indices of the probes grouped into runs: a run ends after a probe without the chain flag, after a probe that
    crosses a KEXINIT (its sentinel is emitted together with it), and before a probe that is preceded by a re-exchange."""
    runs, cur = [], []
    for i, (t, p, rk, ch) in enumerate(probes):
        if rk and cur:
            runs.append(cur)
            cur = []
        cur.append(i)
        if not ch or rk == "cross":
            runs.append(cur)
            cur = []
    if cur:
        runs.append(cur)
    return runs


def run_len_class(n):
    for hi, name in ((1, "1"), (8, "2-8"), (40, "9-40"), (150, "41-150")):
        if n <= hi:
            return name
    return "151+"


def _probe_session(ctx, role, probes, record, logcfg):
    import paramiko

    from paramiko.common import MSG_NAMES

    probes = [_norm_probe(p) for p in probes]
    # (a case without any chain flag keeps the 3-field layout of the committed replays)
    case = {"role": role, "probes": [[t, p, rk, True] if ch else [t, p, rk] for t, p, rk, ch in probes]}
    if logcfg.cfg:
        case["log"] = list(logcfg.cfg)
    link, tested, puppet = _session(role, logcfg)
    try:
        excl = excluded_types(tested)
        probes = [pr for pr in probes if pr[0] not in excl]
        if not probes:
            return True
        runs = split_runs(probes)
        nontrivial = any(t not in MSG_NAMES for t, _, _, _ in probes) or len(probes) >= 3
        if record:
            cls = ["role:" + role] + ["unnamed" if t not in MSG_NAMES else "named" for t, _, _, _ in probes]
            cls += ["rekey-before-probe:%s" % rk for _, _, rk, _ in probes if rk and rk != "cross"]
            cls += ["probe-crosses-own-kexinit" for _, _, rk, _ in probes if rk == "cross"]
            cls += ["run-len:" + run_len_class(len(r)) for r in runs]
            if max(len(r) for r in runs) > 1:
                cls.append("session-with-back-to-back-run")
            if logcfg.cfg:
                cls += ["log:%s" % logcfg.cfg[0], "log:%s=%s" % logcfg.cfg]
                cls.append("log:WARNING-" + ("enabled" if _log_enabled(tested, logging.WARNING) else "disabled"))
            else:
                cls.append("log:untouched")
            ctx.case(case, nontrivial, cls)
            ctx.count("probes-sent", len(probes))
        seen = 0
        for run in runs:
            t, payload, rk, _ = probes[run[0]]
            b2b = "@back-to-back" if len(run) > 1 else ""
            seqs = []
            if rk == "cross":
                s, err, crossed = _cross_rekey(tested, puppet, bytes([t]) + payload)
                if err:
                    ctx.violation("session-continues", "%s:rekey-failed" % role, case, "probe type %d crossing the tested side's KEXINIT: %s" % (t, err))
                    return False
                if record:
                    ctx.count("cross:probe-sent-inside-own-kexinit-window" if crossed else "cross:degraded-to-after-rekey")
                seqs.append(s)
            else:
                if rk:
                    # a completed re-exchange right before the run (strict kex: sequence numbers restart)
                    try:
                        (puppet if rk == "puppet" else tested).renegotiate_keys()
                    except Exception as e:
                        ctx.violation("session-continues", "%s:rekey-failed" % role, case, repr(e))
                        return False
                try:
                    for i in run:
                        seqs.append(puppet.send_raw_seq(bytes([probes[i][0]]) + probes[i][1]))
                    puppet.send_raw_seq(peers.m_global_request(SENTINEL, True))
                except (EOFError, OSError):
                    # the tested side hung up in the middle of the run: reported below as a dead session
                    seqs += [None] * (len(run) - len(seqs))
            # wait for the sentinel's reply (REQUEST_FAILURE) or for the session to die
            def got(lg, seen=seen):
                if any(e[1] == 82 for e in lg[seen:]):
                    return "reply"
                if not tested.is_active():
                    return "dead"
                return None

            ok = puppet.wait_log(got, timeout=10.0 + 0.02 * len(run))
            if ok == "dead":
                ok = None
            lg = list(puppet.log)
            new = lg[seen:]
            types_ = [probes[i][0] for i in run]
            if not ok:
                alive = tested.is_active()
                exc = tested.get_exception()
                bucket = "session-died:%s" % type(exc).__name__ if not alive else "no-sentinel-reply"
                n_ok = len([e for e in new if e[1] == 3])
                ctx.violation("session-continues", "%s:%s%s" % (role, bucket, b2b), case, "run of %d probe(s) types %r: tested active=%s exception=%r; %d UNIMPLEMENTED replies seen, then %r" % (len(run), types_[:20], alive, exc, n_ok, [(e[0], e[1]) for e in new if e[1] != 3][:8]))
                return False
            idx = next(i for i, e in enumerate(new) if e[1] == 82)
            # EXT_INFO (7) is the server's unsolicited extension message after NEWKEYS, not an answer
            before = [(e[1], e[2]) for e in new[:idx] if e[1] != 7]
            seen += idx + 1
            expected = [(3, R.u32(s)) for i, s in zip(run, seqs) if probes[i][0] != 3]
            if before == expected:
                continue
            show = [(ty, pl[:8].hex()) for ty, pl in before[:12]]
            seq_of_unimpl = set(R.u32(s) for i, s in zip(run, seqs) if probes[i][0] == 3)
            if not expected or any(ty == 3 and pl in seq_of_unimpl for ty, pl in before):
                ctx.violation("unimplemented-never-answered", role, case, "run types %r: UNIMPLEMENTED probe answered; replies %r" % (types_[:20], show))
                return False
            j = next((k for k in range(min(len(before), len(expected))) if before[k] != expected[k]), min(len(before), len(expected)))
            if j >= len(expected):
                kind = "other-reply"  # every probe answered, and then something more
            elif j >= len(before) or before[j] in expected[j + 1 :]:
                kind = "missing"
            elif before[j][0] == 3 and len(before) == len(expected):
                kind = "wrong-seqno"
            else:
                kind = "other-reply"
            # circumstances that narrow the root cause (plain bucket when none applies)
            if rk == "cross":
                kind += "@own-kexinit-outstanding"
            if not _log_enabled(tested, logging.WARNING):
                kind += "@warning-logging-disabled"
            elif _log_enabled(tested, logging.DEBUG):
                kind += "@debug-logging-enabled"
            if j > 0:
                kind += "@back-to-back"  # the first probes of the run were answered correctly
            nonu = [i for i in run if probes[i][0] != 3]
            ctx.violation("unimplemented-reply", "%s:%s" % (role, kind), case, "run of %d probe(s): first wrong reply at position %d of %d expected (probe type %s seq %s); replies from there %r" % (len(run), j, len(expected), probes[nonu[j]][0] if j < len(nonu) else None, seqs[run.index(nonu[j])] if j < len(nonu) else None, [(ty, pl[:8].hex()) for ty, pl in before[j : j + 6]]))
            return False
        # the session still works: channel round trip driven from the tested side if client,
        # or from the puppet (raw CHANNEL_OPEN) if the tested side is the server
        if not tested.is_active():
            ctx.violation("session-continues", "%s:inactive-at-end" % role, case, repr(tested.get_exception()))
            return False
        if role == "client":
            res = {}

            def op():
                try:
                    res["c"] = tested.open_session(timeout=10)
                except Exception as e:
                    res["e"] = e

            th = threading.Thread(target=op, daemon=True)
            th.start()
            o = puppet.wait_log(lambda lg: [e for e in lg[seen:] if e[1] == 90] or None, timeout=10)
            if not o:
                ctx.violation("session-continues", "client:no-channel-open", case, "")
                return False
            rd = R.Reader(o[0][2])
            rd.string()
            sender = rd.u32()
            puppet.send_raw_seq(peers.m_channel_open_confirm(sender, 7))
            th.join(10)
            if "c" not in res:
                ctx.violation("session-continues", "client:open-failed", case, repr(res.get("e")))
                return False
        else:
            puppet.send_raw_seq(peers.m_channel_open(b"session", 3))
            o = puppet.wait_log(lambda lg: [e for e in lg[seen:] if e[1] in (91, 92)] or None, timeout=10)
            if not o or o[0][1] != 91:
                ctx.violation("session-continues", "server:open-failed", case, repr(o))
                return False
        return True
    finally:
        peers.shutdown(tested, puppet)


payloads = st.one_of(st.just(b""), st.binary(max_size=300), st.binary(min_size=4, max_size=4))
logcfgs = st.one_of(st.none(), st.tuples(st.sampled_from(LOG_WHERE), st.sampled_from(LOG_LEVELS)))


def run(ctx):
    ctx.set_budget(70, 600)
    # part 1: enumerate every type x role (sharded in thorough), several probes per session
    types = list(range(256))
    sessions = []
    for role in ("client", "server"):
        chunk = 16
        for i in range(0, 256, chunk):
            sessions.append((role, types[i : i + chunk]))
    mine = [s for i, s in enumerate(sessions) if i % ctx.nworkers == ctx.worker]
    covered = set()

    def enum_body(c):
        if not mine:
            return
        pl, log = c
        role, ts_ = mine.pop()
        probes = [(t, pl[i % len(pl)], None, False) for i, t in enumerate(ts_)]
        probe_session(ctx, role, probes, log=log)
        covered.update((role, t) for t in ts_)

    n_enum = len(mine)
    ctx.explore(st.tuples(st.lists(payloads, min_size=1, max_size=16), logcfgs), enum_body, n_enum, shrink=False)
    ctx.note("type_role_pairs_enumerated", len(covered))
    if ctx.nworkers == 1 and not mine and not ctx.budget_hit:
        ctx.exhaustive = True
        ctx.note("exhaustive_over", "message type 0..255 x role (payloads sampled)")

    # part 1b: per role, every type once more in ONE uninterrupted run (a single sentinel at the end)
    sweeps = [r for i, r in enumerate(("client", "server")) if i % ctx.nworkers == ctx.worker]

    def sweep_body(c):
        if not sweeps:
            return
        pl, log = c
        role = sweeps.pop()
        if probe_session(ctx, role, [(t, pl[i % len(pl)], None, True) for i, t in enumerate(types)], log=log):
            ctx.count("sweep:every-type-in-one-run")

    if sweeps:
        ctx.explore(st.tuples(st.lists(payloads, min_size=1, max_size=16), logcfgs), sweep_body, len(sweeps), shrink=False, seed_offset=2)

    # part 2: hypothesis-drawn sessions (random order, repeated types, type 3 mixed in, runs of up to 6)
    probe_st = st.tuples(st.integers(0, 255), payloads, st.sampled_from([None, None, None, "puppet", "tested", "cross", "cross"]), st.booleans())
    case_st = st.tuples(st.sampled_from(["client", "server"]), st.lists(probe_st, min_size=1, max_size=6), logcfgs)
    ctx.explore(case_st, lambda c: probe_session(ctx, c[0], c[1], log=c[2]), ctx.scale(70, 800), shrink=False, seed_offset=1)

    # part 3: storms - long uninterrupted runs; types / payloads cycle through a drawn pattern (UNIMPLEMENTED and
    # handled types may be part of it: the former is never answered, the latter are dropped from the probe list)
    hi = 600 if ctx.quick else 3000
    lengths = st.one_of(st.integers(2, 8), st.integers(9, 40), st.integers(41, 150), st.integers(151, hi))
    small = st.binary(max_size=48)
    storm_st = st.tuples(
        st.sampled_from(["client", "server"]),
        lengths,
        st.lists(st.tuples(st.integers(0, 255), small), min_size=1, max_size=8),
        st.sampled_from([None, None, "puppet", "tested"]),  # a completed re-exchange right before the storm
        st.lists(st.tuples(st.integers(0, 255), small), max_size=2),  # single probes (own sentinel) before the storm
        logcfgs,
    )

    def storm_body(c):
        role, n, pat, rk, lead, log = c
        probes = [(t, p, None, False) for t, p in lead]
        probes += [(pat[i % len(pat)][0], pat[i % len(pat)][1], rk if i == 0 else None, i < n - 1) for i in range(n)]
        probe_session(ctx, role, probes, log=log)

    ctx.explore(storm_st, storm_body, ctx.scale(24, 300), shrink=False, seed_offset=3)


def replay(ctx, case):
    probe_session(ctx, case["role"], [_norm_probe(p) for p in case["probes"]], log=case.get("log"))
