"""C33 - SFTP file attributes survive encoding and decoding.

Domain: pairs of attribute sets (A, B).  Each set chooses independently the presence of
size (0..2^64-1), the (uid, gid) pair (0..2^32-1), permissions (0..2^32-1), the
(atime, mtime) pair (ints, or floats with a fraction) and 0-5 extended attributes
(bytes->bytes or str->str, keys distinct after UTF-8 encoding).  ONE SFTPAttributes
object is filled with A and packed, then re-filled with B (fields of A that are absent in
B are reset to None / removed) and packed again: the "reused object" half of the plan
(decoding with `_unpack` into a dirty object is not a usage paramiko has: `_from_msg`
always starts from a fresh object, so it is not generated).

History on one object (round 3): between filling / decoding an object and encoding it, the object may be LOOKED AT by
the read-only operations the class offers - str(a) (the `ls -l` line), repr(a), a.asbytes(), Message.add_string(a)
(what SFTPServer does for every CMD_NAME entry: longname first, then `_pack`).  A case carries a generated list of
(position, observer) pairs, position in {source object A before its pack, object decoded from A before its re-encoding,
re-filled source object B before its pack, object decoded from B before its re-encoding}.  Observers are not part of
the verdict themselves (an observer that raises is only counted); the oracle below is unchanged and is applied to
whatever the observed objects encode to, plus (b') below.

Decoder entry variants (round 4): `_from_msg` has three call forms and all are generated - `_from_msg(msg)` (STAT / LSTAT / FSTAT
replies, server-side decoding), `_from_msg(msg, filename)` and `_from_msg(msg, filename, longname)`, the form every directory
listing uses (SFTPClient.listdir_attr / listdir_iter: one CMD_NAME entry = string filename, string longname, attribute block).  For
the two entry forms the packed block is embedded in an entry stream `string filename [string longname] <block> <sentinel bytes>` and
decoded the way the client does (get_text, get_text, _from_msg(msg, filename, longname)).  The longname is generated independently
of the block: the `ls -l` line paramiko's own server sends for that attribute set (str() of a separate object), an `ls -l` style
line with generated NUMERIC owner / group / size columns (values unrelated to the block), one with owner / group NAMES, free text,
or the empty string.  The oracle is the same - the decoded FIELDS come from the attribute block only: whatever the longname says,
fields absent from the block stay None and _flags are the block's flags - plus: the decoder consumed exactly the block (the
sentinel is what is left of the message).

Oracle, per packed set:
  (a) the bytes parse with the independent reader (vlib.refssh) as
      uint32 flags | [uint64 size] | [uint32 uid, uint32 gid] | [uint32 mode] |
      [uint32 atime, uint32 mtime] | [uint32 count, (string, string)*]   and nothing else,
      with flags == exactly the draft-ietf-secsh-filexfer-02 bits of the present fields
      (1, 2, 4, 8, 0x80000000) and the values equal (times truncated with int());
  (b) SFTPAttributes._from_msg(Message(bytes)) has the present fields equal (times as
      int), absent fields None, attr == the UTF-8 encoded map, _flags == expected bits;
  (b') after the observers of the decoded object ran, its fields / extended map / _flags are still those of (b);
  (c) re-encoding the decoded object gives identical bytes;
  (d) the source object's _flags after _pack == expected bits;
  (e) entry forms only: after decoding, the unread rest of the entry stream is exactly the sentinel.
"""
from hypothesis import strategies as st

from vlib import refssh as R

PROPERTY = "C33"
LEVEL = "exploration"
RULE = (
    "hypothesis-generated pairs of attribute sets packed one after the other from the same SFTPAttributes object; "
    "plus a generated list (0-4) of read-only observations (str / repr / asbytes / Message.add_string) applied to the source "
    "object before a pack or to the decoded object before its re-encoding; "
    "each set picks presence of size/uid+gid/mode/atime+mtime/extended independently, values dense at 0, 2^31, 2^32-1, "
    "2^32, 2^63, 2^64-1, times int or float with fraction, extended maps of 0-5 bytes or str entries; "
    "decoder entry variant per case: _from_msg(msg) | _from_msg(msg, filename) | _from_msg(msg, filename, longname) as used for directory "
    "listings, the block embedded in an entry stream (filename, longname, block, sentinel) with a longname generated independently of the "
    "block (the server's own ls -l line for the set | ls -l style line with numeric owner/group/size columns | with owner/group names | free "
    "text | empty); "
    "non-trivial = at least one set has >= 2 field groups present (or a size >= 2^32, or extended entries); "
    "distinct by SHA-1 of the pair"
)

FLAG_SIZE, FLAG_UIDGID, FLAG_PERM, FLAG_AMTIME, FLAG_EXT = 1, 2, 4, 8, 0x80000000

u32s = st.one_of(st.integers(0, 0xFFFFFFFF), st.sampled_from([0, 1, 0x7FFFFFFF, 0x80000000, 0xFFFFFFFF, 0o100644, 0o40755]))
u64s = st.one_of(
    st.integers(0, (1 << 64) - 1),
    st.integers(0, 1 << 33),
    st.sampled_from([0, 1, 0xFFFFFFFF, 1 << 32, (1 << 32) + 1, 1 << 63, (1 << 63) - 1, (1 << 64) - 1]),
)
# floats: integer part in range, a fraction that survives float precision; int() must stay <= 2^32-1
ftimes = st.builds(lambda i, f: i + f, st.integers(0, 0xFFFFFFFF), st.sampled_from([0.0, 0.25, 0.5, 0.75, 0.999]))
times = st.one_of(u32s, ftimes)

bkeys = st.binary(min_size=0, max_size=24)
skeys = st.text(min_size=0, max_size=12)


def _enc(x):
    return x.encode("utf-8") if isinstance(x, str) else bytes(x)


def _safe_text(s):
    try:
        s.encode("utf-8")
        return True
    except UnicodeError:
        return False


ext_entry = st.one_of(
    st.tuples(bkeys, st.binary(max_size=64)),
    st.tuples(skeys.filter(_safe_text), st.text(max_size=32).filter(_safe_text)),
)


def _uniq(entries):
    seen, out = set(), []
    for k, v in entries:
        e = _enc(k)
        if e in seen:
            continue
        seen.add(e)
        out.append((k, v))
    return out


attr_set = st.fixed_dictionaries(
    {
        "size": st.one_of(st.none(), u64s),
        "ids": st.one_of(st.none(), st.tuples(u32s, u32s)),
        "mode": st.one_of(st.none(), u32s),
        "times": st.one_of(st.none(), st.tuples(times, times)),
        "ext": st.lists(ext_entry, max_size=5).map(_uniq),
    }
)

# read-only operations of SFTPAttributes (formatting) and where in the history of the objects they are applied
OBSERVERS = ["str", "repr", "asbytes", "add_string"]
POSITIONS = ["a", "a-decoded", "b", "b-decoded"]
obs_list = st.one_of(
    st.just([]),
    st.lists(st.tuples(st.sampled_from(POSITIONS), st.sampled_from(OBSERVERS)), min_size=1, max_size=4),
)

# decoder entry variants: how the packed block reaches `_from_msg` (see the module docstring)
_safe = st.text(max_size=16).filter(_safe_text)
filenames = st.one_of(st.sampled_from(["a.txt", "dir", "with space", "x", "caf\u00e9", "1 2 3 4 5 6 7"]), _safe)
_ls_modes = st.sampled_from(["-rw-r--r--", "drwxr-xr-x", "lrwxrwxrwx", "?---------", "-rwsr-xr-T"])
_ls_num = st.one_of(st.sampled_from([0, 1, 1000, 65534, 0xFFFFFFFF]), st.integers(0, 0xFFFFFFFF))
_ls_size = st.one_of(st.sampled_from([0, 1, 4096, 1 << 32, (1 << 64) - 1]), st.integers(0, 1 << 40))
_ls_name = st.sampled_from(["root", "alice", "staff", "nobody", "u1000", "0x0"])
longnames = st.one_of(
    st.just(("server",)),
    st.just(("server",)).map(lambda v: v),
    st.tuples(st.just("ls"), _ls_modes, _ls_num, _ls_num, _ls_size),
    st.tuples(st.just("ls"), _ls_modes, _ls_name, _ls_name, _ls_size),
    st.tuples(st.just("ls"), _ls_modes, _ls_num, _ls_name, _ls_size),
    st.tuples(st.just("text"), _safe),
    st.just(("text", "")),
)
via_st = st.one_of(
    st.just(None),
    st.fixed_dictionaries({"how": st.just("filename"), "filename": filenames}),
    st.fixed_dictionaries({"how": st.just("listing"), "filename": filenames, "ln": longnames}),
    st.fixed_dictionaries({"how": st.just("listing"), "filename": filenames, "ln": longnames}).map(lambda v: v),
)

case_st = st.tuples(attr_set, attr_set, obs_list, via_st)

SENTINEL = b"\x00\x00\x00\x03end\xa5"


def _longname(ctx, via, s):
    """The longname text of a listing entry for attribute set `s` (generated independently of the packed block)."""
    from paramiko.sftp_attr import SFTPAttributes

    ln = via["ln"]
    if ln[0] == "server":
        # the line SFTPServer sends with every CMD_NAME entry: str() of the entry's attribute object (a separate object here:
        # what str() does to the object it formats is the observers' business, not this one's)
        tmp = SFTPAttributes()
        _fill(tmp, s)
        tmp.filename = via["filename"]
        try:
            text = str(tmp)
            text.encode("utf-8")
            return text, "server-line"
        except Exception as e:
            ctx.count("longname:server-line-unavailable:%s" % type(e).__name__)
            return "?---------   1 0        0               0 (unknown date) %s" % via["filename"], "server-line"
    if ln[0] == "ls":
        _, mode, owner, group, size = ln
        numeric = isinstance(owner, int) and isinstance(group, int)
        return "%s %3d %-8s %-8s %8d Jan  1 00:00 %s" % (mode, 1, owner, group, size, via["filename"]), ("ls-numeric" if numeric else "ls-names")
    return ln[1], ("text" if ln[1] else "empty")


def _decode(ctx, raw, via, s):
    """Decode the packed block `raw` through the case's decoder entry variant.  Returns (object, unread rest or None)."""
    from paramiko.message import Message
    from paramiko.sftp_attr import SFTPAttributes

    if via is None:
        return SFTPAttributes._from_msg(Message(raw)), None
    m = Message()
    m.add_string(via["filename"])
    if via["how"] == "listing":
        m.add_string(_longname(ctx, via, s)[0])
    m.add_bytes(raw)
    m.add_bytes(SENTINEL)
    msg = Message(m.asbytes())
    filename = msg.get_text()
    if via["how"] == "listing":
        longname = msg.get_text()
        back = SFTPAttributes._from_msg(msg, filename, longname)
    else:
        back = SFTPAttributes._from_msg(msg, filename)
    return back, msg.get_remainder()


def _observe(ctx, obj, kinds):
    """Apply read-only operations to `obj`.  They have no verdict of their own (the statement is about encoding and
    decoding); one that raises is counted and the history goes on."""
    from paramiko.message import Message

    for kind in kinds:
        try:
            if kind == "str":
                str(obj)
            elif kind == "repr":
                repr(obj)
            elif kind == "asbytes":
                obj.asbytes()
            elif kind == "add_string":
                Message().add_string(obj)
            else:
                raise AssertionError(kind)
        except AssertionError:
            raise
        except Exception as e:
            ctx.count("observer-raised:%s:%s" % (kind, type(e).__name__))
        else:
            ctx.count("observed:" + kind)


def _expected_flags(s):
    f = 0
    if s["size"] is not None:
        f |= FLAG_SIZE
    if s["ids"] is not None:
        f |= FLAG_UIDGID
    if s["mode"] is not None:
        f |= FLAG_PERM
    if s["times"] is not None:
        f |= FLAG_AMTIME
    if s["ext"]:
        f |= FLAG_EXT
    return f


def _fill(a, s):
    a.st_size = s["size"]
    a.st_uid, a.st_gid = s["ids"] if s["ids"] is not None else (None, None)
    a.st_mode = s["mode"]
    a.st_atime, a.st_mtime = s["times"] if s["times"] is not None else (None, None)
    a.attr.clear()
    for k, v in s["ext"]:
        a.attr[k] = v


def _groups(s):
    return sum(1 for k in ("size", "ids", "mode", "times") if s[k] is not None) + (1 if s["ext"] else 0)


def _norm(s):
    """JSON round trip turns tuples into lists; normalise to tuples."""
    return {
        "size": s["size"],
        "ids": tuple(s["ids"]) if s["ids"] is not None else None,
        "mode": s["mode"],
        "times": tuple(s["times"]) if s["times"] is not None else None,
        "ext": [(k, v) for k, v in s["ext"]],
    }


def _check_one(ctx, jcase, which, src, s, obs_src=(), obs_back=(), via=None):
    from paramiko.message import Message
    from paramiko.sftp_attr import SFTPAttributes

    exp_flags = _expected_flags(s)
    _observe(ctx, src, obs_src)
    m = Message()
    try:
        src._pack(m)
    except Exception as e:
        ctx.violation("pack-raises", "%s:%s" % (type(e).__name__, _first_present(s)), jcase, "set %s: %r" % (which, e))
        return False
    raw = m.asbytes()
    if src._flags != exp_flags:
        ctx.violation("flags", "source-object-after-pack", jcase, "set %s: _flags=%#x expected %#x" % (which, src._flags, exp_flags))
        return False

    # (a) independent parse of the wire form
    r = R.Reader(raw)
    try:
        flags = r.u32()
        if flags != exp_flags:
            ctx.violation("flags", "wire:%s" % _flagdiff(flags, exp_flags), jcase, "set %s: wire flags=%#x expected %#x" % (which, flags, exp_flags))
            return False
        if s["size"] is not None:
            v = r.u64()
            if v != s["size"]:
                ctx.violation("wire-value", "size", jcase, "set %s: wire %r expected %r" % (which, v, s["size"]))
                return False
        if s["ids"] is not None:
            v = (r.u32(), r.u32())
            if v != tuple(s["ids"]):
                ctx.violation("wire-value", "uid-gid", jcase, "set %s: wire %r expected %r" % (which, v, s["ids"]))
                return False
        if s["mode"] is not None:
            v = r.u32()
            if v != s["mode"]:
                ctx.violation("wire-value", "mode", jcase, "set %s: wire %r expected %r" % (which, v, s["mode"]))
                return False
        if s["times"] is not None:
            v = (r.u32(), r.u32())
            if v != (int(s["times"][0]), int(s["times"][1])):
                ctx.violation("wire-value", "atime-mtime", jcase, "set %s: wire %r expected %r" % (which, v, s["times"]))
                return False
        if s["ext"]:
            n = r.u32()
            got = [(r.string(), r.string()) for _ in range(n)]
            want = [(_enc(k), _enc(v)) for k, v in s["ext"]]
            if got != want:
                ctx.violation("wire-value", "extended", jcase, "set %s: wire %r expected %r" % (which, got[:3], want[:3]))
                return False
        if not r.done():
            ctx.violation("wire-value", "trailing-bytes", jcase, "set %s: %d extra bytes" % (which, len(r.rest())))
            return False
    except R.RefError as e:
        ctx.violation("wire-value", "short:%s" % _first_present(s), jcase, "set %s: %r raw=%s" % (which, e, raw.hex()[:120]))
        return False

    # (b) decode with paramiko into a fresh object, through the case's decoder entry variant
    vsuffix = "" if via is None else (":via-filename" if via["how"] == "filename" else ":via-longname")
    try:
        back, rest = _decode(ctx, raw, via, s)
    except Exception as e:
        ctx.violation("unpack-raises", type(e).__name__ + vsuffix, jcase, "set %s: %r" % (which, e))
        return False
    if rest is not None and rest != SENTINEL:
        ctx.violation("roundtrip", "entry-stream:decoder-did-not-consume-exactly-the-block" + vsuffix, jcase, "set %s: %d-byte block, unread rest %s expected %s" % (which, len(raw), rest[:24].hex(), SENTINEL.hex()))
        return False
    checks = [
        ("size", back.st_size, s["size"]),
        ("uid", back.st_uid, s["ids"][0] if s["ids"] is not None else None),
        ("gid", back.st_gid, s["ids"][1] if s["ids"] is not None else None),
        ("mode", back.st_mode, s["mode"]),
        ("atime", back.st_atime, int(s["times"][0]) if s["times"] is not None else None),
        ("mtime", back.st_mtime, int(s["times"][1]) if s["times"] is not None else None),
    ]
    for name, got, want in checks:
        if got != want or (want is not None and type(got) is not int):
            kind = "absent-became-present" if want is None else ("present-became-absent" if got is None else "value")
            ctx.violation("roundtrip", "%s:%s%s" % (name, kind, vsuffix), jcase, "set %s: %s decoded %r expected %r%s" % (which, name, got, want, _via_text(ctx, via, s)))
            return False
    want_attr = dict((_enc(k), _enc(v)) for k, v in s["ext"])
    reencode = True
    got_items, want_items = list(back.attr.items()), list(want_attr.items())
    if got_items != want_items:
        # Compared as ordered item lists only to recognise the root cause below: a map such as {a: b, b: a}
        # survives a name/value swap as a dict, but not in order (it then re-encodes differently).
        swapped = dict((v, k) for k, v in want_attr.items())
        known = None
        if got_items == list(swapped.items()):
            # root cause seen on the unchanged tree: `self.attr[msg.get_string()] = msg.get_string()`
            # evaluates the right-hand side (the value slot) first, so names and values trade places
            known = ctx.violation("roundtrip", "extended:name-and-value-swapped", jcase, "set %s: decoded %r expected %r" % (which, back.attr, want_attr))
        elif back.attr != want_attr:
            known = ctx.violation("roundtrip", "extended:other", jcase, "set %s: decoded %r expected %r" % (which, back.attr, want_attr))
        # (same map in another order only: not a round-trip failure; clause (c) below decides)
        if known is False:
            return False
        if known:
            # listed finding: the re-encoding of a wrongly decoded map necessarily differs; same root cause
            ctx.exclude("reencode-check-skipped-after-listed-extended-finding")
            reencode = False
    if back._flags != exp_flags:
        ctx.violation("flags", "decoded-object" + vsuffix, jcase, "set %s: _flags=%#x expected %#x%s" % (which, back._flags, exp_flags, _via_text(ctx, via, s)))
        return False

    # (b') looking at the decoded object must not change it
    if obs_back:
        before = _snapshot(back)
        _observe(ctx, back, obs_back)
        after = _snapshot(back)
        if after != before:
            changed = [n for n, x, y in zip(_SNAP_NAMES, before, after) if x != y]
            ctx.violation(
                "decoded-object-changed-by-formatting",
                ",".join(changed),
                jcase,
                "set %s: after %s the decoded object has %s, before it had %s"
                % (which, "+".join(obs_back), dict(zip(_SNAP_NAMES, after)), dict(zip(_SNAP_NAMES, before))),
            )
            return False

    # (c) re-encode
    if not reencode:
        return True
    m2 = Message()
    try:
        back._pack(m2)
    except Exception as e:
        ctx.violation("pack-raises", "reencode:%s" % type(e).__name__, jcase, "set %s: %r" % (which, e))
        return False
    if m2.asbytes() != raw:
        ctx.violation("reencode-differs", _first_present(s), jcase, "set %s: %s vs %s" % (which, m2.asbytes().hex()[:100], raw.hex()[:100]))
        return False
    return True


def _via_text(ctx, via, s):
    if via is None:
        return ""
    if via["how"] == "filename":
        return " [decoded with _from_msg(msg, %r)]" % via["filename"]
    return " [decoded with _from_msg(msg, %r, longname=%r)]" % (via["filename"], _longname(ctx, via, s)[0])


_SNAP_NAMES = ("size", "uid", "gid", "mode", "atime", "mtime", "extended", "flags")


def _snapshot(a):
    return (a.st_size, a.st_uid, a.st_gid, a.st_mode, a.st_atime, a.st_mtime, list(a.attr.items()), a._flags)


def _first_present(s):
    for k in ("size", "ids", "mode", "times"):
        if s[k] is not None:
            return k
    return "ext" if s["ext"] else "none"


def _flagdiff(got, want):
    return "extra=%#x,missing=%#x" % (got & ~want, want & ~got)


def execute(ctx, case):
    from paramiko.sftp_attr import SFTPAttributes

    a, b = _norm(case[0]), _norm(case[1])
    obs = [(str(p), str(k)) for p, k in (case[2] if len(case) > 2 else [])]
    via = case[3] if len(case) > 3 else None
    if via is not None:
        via = {"how": str(via["how"]), "filename": str(via["filename"])}
        if via["how"] == "listing":
            via["ln"] = tuple(case[3]["ln"])
    jcase = {"a": a, "b": b}
    if obs:
        jcase["obs"] = [list(o) for o in obs]
    if via is not None:
        jcase["via"] = dict(via, ln=list(via["ln"])) if "ln" in via else dict(via)
    at = dict((p, [k for q, k in obs if q == p]) for p in POSITIONS)
    nontrivial = any(_groups(s) >= 2 or (s["size"] or 0) >= (1 << 32) or s["ext"] for s in (a, b))
    classes = ["groups:%d" % _groups(a)]
    if a["times"] is not None and any(isinstance(t, float) for t in a["times"]):
        classes.append("float-time")
    if _expected_flags(a) & ~_expected_flags(b):
        classes.append("reuse-drops-a-field")
    if any(isinstance(k, str) for s in (a, b) for k, _ in s["ext"]):
        classes.append("str-extended")
    for p, k in obs:
        classes.append("observed-before-encode:%s:%s" % ("decoded-object" if p.endswith("-decoded") else "source-object", k))
    for p in POSITIONS:
        s = a if p.startswith("a") else b
        if at[p] and (s["size"] is None or s["ids"] is None or s["mode"] is None or s["times"] is None):
            classes.append("observed-with-absent-fields")
            break
    if via is None:
        classes.append("decode:plain")
    elif via["how"] == "filename":
        classes.append("decode:entry-with-filename")
    else:
        for s in (a, b):
            kind = _longname(ctx, via, s)[1]
            classes.append("decode:listing-entry:longname=" + kind)
            lacks = [n for n, k in (("size", "size"), ("uid-gid", "ids"), ("mode", "mode"), ("times", "times")) if s[k] is None]
            for n in lacks:
                classes.append("decode:listing-entry-lacks:" + n)
            if kind in ("server-line", "ls-numeric") and (s["size"] is None or s["ids"] is None):
                classes.append("decode:listing-entry-lacks-size-or-ids,longname-has-numeric-columns")
    ctx.case(jcase, bool(nontrivial), sorted(set(classes)))

    src = SFTPAttributes()
    _fill(src, a)
    if not _check_one(ctx, jcase, "a", src, a, at["a"], at["a-decoded"], via):
        return
    _fill(src, b)  # same object, packed again
    _check_one(ctx, jcase, "b(reused)", src, b, at["b"], at["b-decoded"], via)


def run(ctx):
    ctx.set_budget(60, 840)
    ctx.explore(case_st, lambda c: execute(ctx, c), ctx.scale(3600, 100000))


def replay(ctx, case):
    execute(ctx, (case["a"], case["b"], case.get("obs") or [], case.get("via")))
