"""C02 - tampered encrypted traffic is never accepted as different data.

Streams are recorded from a paramiko sender keyed through the production activation path
(E2 bench): NEWKEYS in clear, then 2-6 encrypted packets (bodies 0-80 bytes, one larger;
optionally a second key exchange in the middle, compression, strict kex), for every framing
class (CTR / CBC / 3DES  x  plain MAC / -96 MAC / ETM MAC, GCM) and generated other suites.
Only the encrypted part is edited.  The direction that carries the stream and the opposite
direction get different suites (RFC 4253 7.1 negotiates per direction): the receiver under
test is keyed in BOTH directions through _activate_outbound / _activate_inbound, and the
opposite direction's style (classic / ETM / GCM) is cycled so that every ordered pair of
(inbound style, outbound style) occurs.

Long streams: per framing class a stream of >= 520 tiny, pairwise different packets; packet i
is replayed (inserted), substituted for, or swapped with the packet d places later, for every
structured distance d in 1,2,3,8,16,17,64,127,128,129,255,256,257,511,512,513 (thorough: up
to 2049) plus generated distances: counters that are wider than one byte must not be
compared / advanced modulo anything smaller (sequence number, GCM invocation counter).

Cross-epoch plans: per framing class a stream of 2-3 key epochs (a re-key normally negotiates
the same suite again: the stream direction keeps its suite at the first re-key and at every
second later one; new K/H every time), 2-4 packets per epoch (tiny, or 260-400 bytes: longer than any value a padding-length
byte can take); EVERY pair (packet i of an earlier epoch, packet j of a later
epoch, NEWKEYS packets included) is enumerated as replay (copy of i inserted as packet j),
substitution (copy of i instead of j) and swap.  Under strict kex the sequence numbers restart
at every NEWKEYS, so pairs with the same index inside their epochs carry the SAME sequence
number under different keys (class same-seq-index): only the keys tell them apart.

Large packets: per framing class a stream whose larger message has a generated body of
2100-70000 bytes (up to and beyond a full 32 KiB channel-data / SFTP packet; incompressible or a
short period); in EVERY stripe of 1024 wire bytes of every packet longer than 2 KiB one flip at a
generated offset (thorough: three), flips of each of its last 16 bytes, a deletion and an insertion
per 8 stripes: every part of a packet, however long, is covered by its MAC / tag.

Fault plans: exhaustive single-byte XOR (generated non-zero mask per position; thorough adds
0x01, 0x80, 0xFF), exhaustive single-byte deletion, exhaustive single-byte insertion (generated
value) at every position of the recorded stream; plus generated multi-fault plans (<= 4 ops
out of flip / delete / insert / truncate / whole-packet swap, drop, duplicate, replay of an
earlier packet at a later place).

Oracle: a freshly keyed paramiko receiver (Transport._parse_newkeys on the clear NEWKEYS, then
packetizer.read_message in a loop, generated recv fragmentation) reads the edited stream.  A read
that raises (any exception class: type purity is C38) does not end the observation: the harness
keeps calling read_message on the SAME Packetizer (what a consumer that goes on reading is handed)
until the bytes run out or 4 reads in a row have raised.  Every message delivered, before or after
a raising read, must equal, in type and body, the message at the same index of the original
sequence (the delivered messages, in delivery order, are an unmodified prefix); anything else, or an
extra message, is a violation (clauses delivered-differs / delivered-extra-message, suffix
-after-error when the message was handed out by a read that followed a raising one).
"""
from hypothesis import strategies as st

from vlib import pkt

PROPERTY = "C02"
LEVEL = "fault_enumeration"
THOROUGH_WORKERS = 16
RULE = (
    "recorded paramiko streams (2-6 encrypted packets, optional mid-stream rekey/compression/strict) per framing class "
    "(quick: 11 cipher/MAC representatives of the 10 framing classes + 4 with zlib, one generated stream each; thorough: all 72 cipher x MAC "
    "pairs x {none, zlib}, 6 generated streams each, sender role and strict flag alternating); fault plans: "
    "EVERY single-byte XOR (generated mask), deletion and insertion position of the encrypted stream (exhaustive), plus "
    "hypothesis-generated multi-fault plans (<=4 of flip/delete/insert/truncate/packet swap/drop/duplicate/replay/replay-at/"
    "subst-at/swap-at). Direction asymmetry: the opposite direction of every stream has its own generated suite whose style "
    "(classic/etm/aead) is cycled per inbound style in quick (all 9 ordered style pairs in every run) and drawn per stream in "
    "thorough, the receiver under test activates outbound and inbound keys (classes "
    "asymmetric-suites, styles:<in>/<out>, asymmetric-mac-size). Long streams (class long-stream): per framing class one generated "
    "stream of 520-560 (thorough 2060-2100) pairwise different tiny packets, optional mid-stream rekey; packet i (generated) is "
    "replayed at / substituted for / swapped with packet i+d for EVERY d of a structured list (1,2,3,8,16,17,64,127,128,129,255,"
    "256,257,511,512,513; thorough +1023..1025, 2047..2049) plus generated d (all three kinds for d >= 255, one generated kind "
    "below; classes replay-distance:<d>, replay-distance>=256, replay-distance%256==0). Cross-epoch plans (class cross-epoch): per "
    "framing class (quick: the 11 representatives + 4 with zlib; thorough: all pairs x {none, zlib}) one generated stream of 2-3 key "
    "epochs x 2-4 packets (each tiny or 260-400 bytes), the stream direction keeps its suite at the first re-key and changes it at every second later one "
    "(classes suite-kept / suite-changed), strict "
    "kex in 3 of 4 classes; EVERY (i, j) with packet i in an earlier and packet j in a later epoch x {replay-at, subst-at, swap-at} "
    "is enumerated (classes same-seq-index = equal index inside the two epochs, i.e. equal sequence number under strict kex; "
    "xepoch-style:<classic|etm|aead>); the generic stream generator also keeps the suite at every second mid-stream re-key. "
    "Large packets (class large-packet; quick: the 11 representatives + 2 with zlib, thorough: all pairs x {none, zlib}): one generated "
    "stream per class whose larger message has 2100-70000 body bytes (incompressible / short period); in EVERY 1024-byte stripe of every "
    "packet > 2 KiB a flip at a generated offset (thorough 3), flips of each of the packet's last 16 bytes, one deletion and one insertion "
    "per 8 stripes (classes packet-wire-bytes>=<1|4|16|32|64>KiB, edit-offset-in-packet>=<..>KiB, edit-in-packet-tail). Read-on (every "
    "case; counters read-on-after-error, read-on-after-error:later-messages-delivered-in-sequence): after a read that raises the harness "
    "keeps calling read_message on the same Packetizer until the bytes run out or 4 reads in a row raised; all messages delivered, before "
    "or after a raising read, in delivery order, must be a prefix of the sent sequence (clause suffix -after-error). one case = "
    "(recorded stream, fault plan). non-trivial = the plan changes bytes inside the packets the sender produced (not only "
    "trailing garbage); plans that leave the stream identical are discarded and counted; distinct by SHA-1 of stream+plan"
)

DISTANCES_QUICK = [1, 2, 3, 8, 16, 17, 64, 127, 128, 129, 255, 256, 257, 511, 512, 513]
DISTANCES_THOROUGH = DISTANCES_QUICK + [7, 9, 15, 31, 32, 33, 63, 65, 254, 258, 767, 768, 769, 1023, 1024, 1025, 1279, 1280, 1281, 2047, 2048, 2049]

FRAMING_REPRESENTATIVES = [
    ("aes128-ctr", "hmac-sha2-256"),
    ("aes256-ctr", "hmac-sha1-96"),
    ("aes192-ctr", "hmac-sha2-512-etm@openssh.com"),
    ("aes128-cbc", "hmac-sha1"),
    ("aes256-cbc", "hmac-md5-96"),
    ("aes192-cbc", "hmac-sha2-256-etm@openssh.com"),
    ("3des-cbc", "hmac-md5"),
    ("3des-cbc", "hmac-sha1-96"),
    ("3des-cbc", "hmac-sha2-256-etm@openssh.com"),
    ("aes128-gcm@openssh.com", "hmac-sha2-256"),
    ("aes256-gcm@openssh.com", "hmac-sha2-512"),
]


# ----------------------------------------------------------------------------- recording


def record(spec):
    """spec = {"role": sender role, "strict": bool, "auth_first": bool, "epochs": [keys...],
    "msgs": [[spec...] per epoch]} -> stream dict (JSON-able, everything the receiver side of a
    case needs) or raises pkt.SessionFailed when even the unedited stream is not delivered."""
    role = spec["role"]
    other = "server" if role == "client" else "client"
    dname = "c2s" if role == "client" else "s2c"
    sender = pkt.PPeer(role, spec["strict"])
    receiver = pkt.PPeer(other, spec["strict"])
    segs = []
    if spec["auth_first"]:
        segs.append({"op": "auth", "c2s": [], "s2c": []})
    for k, msgs in zip(spec["epochs"], spec["msgs"]):
        seg = {"op": "rekey", "keys": k, "c2s": [], "s2c": []}
        seg[dname] = msgs
        segs.append(seg)
    link = (sender, [receiver])
    res = pkt.run_session({"segs": segs}, link if dname == "c2s" else (None, []), link if dname == "s2c" else (None, []))
    chunks = [c for seg in res.wire[dname] for c in seg]
    sent = [p for seg in res.sent[dname] for p in seg]
    # first chunk = NEWKEYS in clear; the rest is encrypted.  Later rekey segments start with NEWKEYS.
    rekey_at = []
    off = 0
    first = True
    for seg, plist in zip(segs, res.sent[dname]):
        if seg["op"] == "rekey":
            if not first:
                rekey_at.append(off - 1)  # index into expected (= sent without the clear NEWKEYS)
            first = False
        off += len(plist)
    return {
        "role": other,
        "dname": dname,  # the direction that carries the stream (= inbound of the receiver under test)
        "strict": spec["strict"],
        "auth_first": spec["auth_first"],
        "epochs": spec["epochs"],
        "prelude": chunks[0],
        "chunks": chunks[1:],
        "expected": sent[1:],
        "rekey_at": rekey_at,  # indices into expected that are NEWKEYS of epochs[1:], in order
    }


# ----------------------------------------------------------------------------- editing


def apply_plan(chunks, plan):
    """Packet-level ops first (on the chunk list), then byte-level ops on the joined stream."""
    ch = list(chunks)
    for op in plan:
        kind = op[0]
        if kind == "swap" and ch:
            i, j = op[1] % len(ch), op[2] % len(ch)
            ch[i], ch[j] = ch[j], ch[i]
        elif kind == "drop" and ch:
            del ch[op[1] % len(ch)]
        elif kind == "dup" and ch:
            i = op[1] % len(ch)
            ch.insert(i, ch[i])
        elif kind == "replay" and ch:
            i = op[1] % len(ch)
            j = i + 1 + op[2] % (len(ch) - i)
            ch.insert(j, ch[i])
        elif kind == "replay-at" and ch:
            # a copy of packet i becomes packet number i+d of the stream (d >= 1)
            i = op[1] % len(ch)
            d = 1 + (op[2] - 1) % (len(ch) - i)
            ch.insert(i + d, ch[i])
        elif kind in ("subst-at", "swap-at") and len(ch) > 1:
            # packet i+d is replaced by a copy of packet i / the two change places
            i = op[1] % (len(ch) - 1)
            d = 1 + (op[2] - 1) % (len(ch) - 1 - i)
            if kind == "subst-at":
                ch[i + d] = ch[i]
            else:
                ch[i], ch[i + d] = ch[i + d], ch[i]
    data = bytearray(b"".join(ch))
    for op in plan:
        kind = op[0]
        if kind == "flip" and data:
            data[op[1] % len(data)] ^= op[2]
        elif kind == "del" and data:
            del data[op[1] % len(data)]
        elif kind == "ins":
            data.insert(op[1] % (len(data) + 1), op[2])
        elif kind == "trunc" and data:
            del data[op[1] % len(data) :]
    return bytes(data)


def _dname(stream):
    return stream.get("dname") or ("c2s" if stream["role"] == "server" else "s2c")


READ_ON = 4  # consecutive failing reads after which the harness stops asking the same Packetizer for more


def run_receiver(stream, data, frags=(), read_on=READ_ON):
    """Feed prelude + edited data to a fresh receiver and keep reading the SAME Packetizer: after a
    read that raises, read_message is called again (a consumer that wants to see what else it is
    handed) until the bytes run out or ``read_on`` reads in a row have raised.  Returns
    (delivered list, first stop reason, number of messages delivered before the first raising
    read or None when no read raised)."""
    r = pkt.PPeer(stream["role"], stream["strict"], frags)
    if stream["auth_first"]:
        r.auth()
    r.install(stream["epochs"][0])
    # a real transport has sent its own NEWKEYS (outbound keys of the opposite direction's suite)
    # before it reads the peer's: the receiver under test is keyed in both directions
    r.send_newkeys()
    r.drain()
    r.feed(stream["prelude"])
    try:
        cmd, body = r.recv_newkeys()
    except Exception as e:
        raise pkt.HarnessBug("the unedited clear NEWKEYS was not accepted: %r" % (e,))
    if cmd != pkt.MSG_NEWKEYS:
        raise pkt.HarnessBug("prelude is not NEWKEYS")
    r.feed(data)
    delivered = []
    expected = stream["expected"]
    rekeys = list(stream["rekey_at"])
    epoch = 1
    stop = None
    first_error_at = None
    errors = 0
    installed = False
    while True:
        i = len(delivered)
        at_rekey = bool(rekeys) and rekeys[0] == i
        try:
            if at_rekey:
                # what Transport does on an honest NEWKEYS; only taken when the message really is NEWKEYS
                if not installed:
                    installed = True
                    r.install(stream["epochs"][epoch])
                    r.send_newkeys()
                    r.drain()
                cmd, body = r.recv_newkeys()
                if cmd == pkt.MSG_NEWKEYS and body == b"":
                    rekeys.pop(0)
                    epoch += 1
                    installed = False
            else:
                cmd, body = r.recv()
        except EOFError:
            stop = stop or "eof"
            break
        except Exception as e:
            if stop is None:
                stop = "raises:" + type(e).__name__
                first_error_at = len(delivered)
            errors += 1
            if errors >= 1 + read_on:
                break
            continue
        errors = 0
        delivered.append(bytes([cmd]) + body)
        if len(delivered) > len(expected) + 2:
            stop = stop or "runaway"
            break
    r.close()
    return delivered, stop, first_error_at


def judge(ctx, stream, plan, frags, classes):
    data = apply_plan(stream["chunks"], plan)
    original = b"".join(stream["chunks"])
    if data == original:
        ctx.count("discarded-identical-stream")
        return True
    # trivial = the original bytes are intact and only something was appended
    nontrivial = not data.startswith(original)
    case = {"stream": stream, "plan": plan, "frags": list(frags)}
    ctx.case(case, nontrivial, classes)
    delivered, stop, err_at = run_receiver(stream, data, frags)
    expected = stream["expected"]
    su = stream["epochs"][0][_dname(stream)]
    fc = pkt.framing_class(*su[:2]) + ("+z" if su[2] != "none" else "")
    ops = "+".join(sorted(set(op[0] for op in plan)))
    for i, got in enumerate(delivered):
        # messages handed out by reads that FOLLOW a raising read on the same Packetizer count like any other:
        # everything delivered, in delivery order, must be a prefix of what was sent
        late = "-after-error" if err_at is not None and i >= err_at else ""
        if i >= len(expected):
            return ctx.violation("delivered-extra-message" + late, "%s:%s" % (fc, ops), case, "message %d (type %d, %d bytes) delivered; the sender sent only %d; stop=%s" % (i, got[0], len(got) - 1, len(expected), stop))
        if got != expected[i]:
            what = "type" if got[:1] != expected[i][:1] else "body"
            return ctx.violation(
                "delivered-differs" + late,
                "%s:%s:%s" % (fc, ops, what),
                case,
                "message %d delivered as type %d / %d bytes, sent type %d / %d bytes; plan %r; stop=%s%s"
                % (i, got[0], len(got) - 1, expected[i][0], len(expected[i]) - 1, plan, stop, "; %d message(s) were delivered before the first raising read" % err_at if late else ""),
            )
    ctx.count("stop:" + stop.split(":")[0])
    if err_at is not None:
        ctx.count("read-on-after-error")
        if len(delivered) > err_at:
            # e.g. an inserted copy is refused and the untouched original that follows is still in step
            ctx.count("read-on-after-error:later-messages-delivered-in-sequence")
    if len(plan) == 1 and plan[0][0] == "flip":
        # which packet was hit?  Delivering it (unchanged content) is not what the statement forbids, but a
        # receiver that checks the whole MAC/tag never does it: kept as an observation counter in the evidence.
        off = 0
        for k, ch in enumerate(stream["chunks"]):
            off += len(ch)
            if plan[0][1] % len(original) < off:
                break
        if len(delivered) > k:
            ctx.count("observation:modified-packet-accepted-with-identical-content")
    return True


# ----------------------------------------------------------------------------- exploration


def _stream_spec_strategy(S, cipher_mac=None, comps=("none", "zlib", "zlib@openssh.com"), rekey=True, role=None, strict=None, other_style=None, long_n=None, xepoch=False, big=None):
    """Sender-side description of one stream.  ``cipher_mac``: suite of the direction that
    carries the stream (None = generated); the opposite direction gets its own generated suite
    of style ``other_style`` (None = generated style) in every epoch.  ``long_n`` = (lo, hi):
    a long stream of lo..hi tiny pairwise different packets instead of the 2-6 packet one.
    A mid-stream re-key keeps the suite of the stream direction in every second case (what a real
    renegotiation does).  ``xepoch``: 2-3 epochs of 2-4 pairwise different packets each (tiny or 260-400 bytes), the
    suite kept at the first re-key (and at every second later one).  ``big`` = strategy for the body
    length of the one larger message of a 2-6 packet stream (default 120-320 bytes); with ``big`` the
    body is incompressible or a short period (never a run that zlib turns into a tiny packet)."""
    small = S.msg(st.integers(0, 80))
    if big is None:
        large = S.msg(st.integers(120, 320))
    else:
        large = st.tuples(st.integers(0, 255), big, st.sampled_from([2, 2, 2, 3]), st.integers(0, 1 << 16)).map(list)
    msgs1 = st.tuples(st.lists(small, min_size=1, max_size=3), large, st.lists(small, min_size=0, max_size=2)).map(lambda t: t[0] + [t[1]] + t[2])
    msgs2 = st.lists(small, min_size=1, max_size=3)
    suite = (st.tuples(S.cipher, S.mac) if cipher_mac is None else st.just(tuple(cipher_mac))).flatmap(lambda cm: st.sampled_from(comps).map(lambda z: [cm[0], cm[1], z]))
    other_suite = (S.style if other_style is None else st.just(other_style)).flatmap(S.suite_of_style)

    def keys(su, dname):
        if dname == "c2s":
            return st.builds(pkt.keys_dict, S.K_small, S.H, S.hash, st.just(su), other_suite)
        return st.builds(pkt.keys_dict, S.K_small, S.H, S.hash, other_suite, st.just(su))

    def tiny(i, t, tail):
        # body = 2-byte index (pairwise different packets: a replayed packet never equals the one it displaces) + tail
        return [t, 2 + len(tail), 4, bytes([i >> 8, i & 0xFF]) + tail]

    @st.composite
    def spec(draw):
        r = role if role is not None else draw(st.sampled_from(["client", "server"]))
        dname = "c2s" if r == "client" else "s2c"
        su = draw(suite)
        epochs = [draw(keys(su, dname))]
        if xepoch:
            types = draw(st.lists(st.integers(0, 255), min_size=1, max_size=5))
            tails = draw(st.lists(st.binary(max_size=3), min_size=1, max_size=7))
            for ri in range(draw(st.sampled_from([1, 1, 2]))):
                keep = ri == 0 or draw(st.booleans())
                epochs.append(draw(keys(su if keep else [draw(S.cipher), draw(S.mac), su[2]], dname)))
            msgs = []
            i = 0
            seed0 = draw(st.integers(0, 1 << 16))
            for _ in epochs:
                cur = []
                for _j in range(draw(st.integers(2, 4))):
                    # tiny (index + tail) or longer than any padding-length byte (260-400 generated bytes, own seed): pairwise different
                    if draw(st.booleans()):
                        cur.append([types[i % len(types)], draw(st.integers(260, 400)), 2, seed0 + i])
                    else:
                        cur.append(tiny(i, types[i % len(types)], tails[i % len(tails)]))
                    i += 1
                msgs.append(cur)
            return {"role": r, "strict": strict if strict is not None else draw(st.booleans()), "auth_first": su[2] == "zlib@openssh.com" or draw(st.sampled_from([False, False, True])), "epochs": epochs, "msgs": msgs}
        second = rekey and draw(st.sampled_from([False, False, True]))
        if second:
            # same compression name in the stream direction; the suite itself is kept in every second case
            su2 = su if draw(st.booleans()) else [draw(S.cipher), draw(S.mac), su[2]]
            epochs.append(draw(keys(su2, dname)))
        if long_n is None:
            msgs = [draw(msgs1)]
            if second:
                msgs.append(draw(msgs2))
        else:
            n = draw(st.integers(long_n[0], long_n[1]))
            types = draw(st.lists(st.integers(0, 255), min_size=1, max_size=5))
            tails = draw(st.lists(st.binary(max_size=3), min_size=1, max_size=7))
            all_msgs = [tiny(i, types[i % len(types)], tails[i % len(tails)]) for i in range(n)]
            if second:
                cut = draw(st.integers(1, n - 1))
                msgs = [all_msgs[:cut], all_msgs[cut:]]
            else:
                msgs = [all_msgs]
        return {
            "role": r,
            "strict": strict if strict is not None else draw(st.booleans()),
            "auth_first": su[2] == "zlib@openssh.com" or draw(st.sampled_from([False, False, True])),
            "epochs": epochs,
            "msgs": msgs,
        }

    # every key exchange has its own exchange hash (H covers fresh cookies / ephemeral keys); a repeated
    # (K, H) would legitimately repeat keys and nonces and make cross-epoch replays valid
    return spec().filter(lambda sp: len(set(bytes(e["H"]) for e in sp["epochs"])) == len(sp["epochs"]))


def _try_record(ctx, spec):
    try:
        return pkt.norm_case(record(spec))
    except pkt.SessionFailed as e:
        # the unedited stream is not even delivered: that is C01's finding, nothing to tamper with
        ctx.inconc("baseline-delivery-failed:" + e.clause)
        return None


def _classes(stream, extra):
    k = stream["epochs"][0]
    dname = _dname(stream)
    oname = "s2c" if dname == "c2s" else "c2s"
    c, m, z = k[dname]
    out = ["cipher:" + c, "mac:" + m, "comp:" + z, "framing:" + pkt.framing_class(c, m), "receiver:" + stream["role"]]
    # inbound style of the receiver under test / style its outbound direction is keyed with
    out.append("styles:%s/%s" % (pkt.suite_style(c, m), pkt.suite_style(*k[oname][:2])))
    out += [a for a in pkt.asymmetry_classes(k) if not a.startswith("asymmetric-style:")]
    if len(stream["epochs"]) > 1:
        out.append("mid-stream-rekey")
    if stream["strict"]:
        out.append("strict-kex")
    return out + extra


def _distance_classes(d):
    out = ["replay-distance>=256" if d >= 256 else "replay-distance<256"]
    if d % 256 == 0:
        out.append("replay-distance%256==0")
    return out


def long_stream(ctx, stream, structured, generated, raw, frags):
    """Replay / substitute / swap at a distance on one long stream: packet i becomes (replay-at),
    replaces (subst-at) or changes places with (swap-at) packet i+d, for EVERY d in
    ``structured`` and every generated d; i comes from the generated list ``raw``."""
    n = len(stream["chunks"])
    base = _classes(stream, ["long-stream"])
    k = 0
    kinds = ("replay-at", "subst-at", "swap-at")
    for di, (d, is_structured) in enumerate([(d, True) for d in structured] + [(1 + g % (n - 2), False) for g in generated]):
        if d > n - 2:
            ctx.inconc("long-stream-shorter-than-distance")
            continue
        # all three kinds around the byte / two-byte boundaries of a counter; one kind (cycling with the
        # distance index and a generated offset) elsewhere: every (kind, d) pair occurs over the streams of a run
        for kind in kinds if d >= 255 else (kinds[(di + raw[-1]) % 3],):
            i = raw[k % len(raw)] % (n - 1 - d)  # i + d <= n - 2: the op means exactly (i, d) for all three kinds
            k += 1
            cls = base + ["plan:" + kind] + _distance_classes(d)
            if is_structured:
                cls.append("replay-distance:%d" % d)
            if judge(ctx, stream, [[kind, i, d]], frags, cls) is False:
                return False
    ctx.count("long-streams-enumerated")
    return True


def _epoch_of(stream, k):
    """(epoch index, index inside the epoch) of chunk k; a NEWKEYS packet is the last packet of
    the epoch whose keys protect it."""
    starts = [0] + [r + 1 for r in stream["rekey_at"]]
    e = sum(1 for r in stream["rekey_at"] if r < k)
    return e, k - starts[e]


def cross_epoch(ctx, stream, frags):
    """Every (i, j), chunk i in an earlier key epoch than chunk j: a copy of i is inserted as
    packet j (replay-at) / replaces packet j (subst-at) / the two change places (swap-at)."""
    n = len(stream["chunks"])
    dname = _dname(stream)
    base = _classes(stream, ["cross-epoch", "epochs:%d" % len(stream["epochs"])])
    pairs = 0
    for i in range(n - 1):
        ei, pi = _epoch_of(stream, i)
        for j in range(i + 1, n):
            ej, pj = _epoch_of(stream, j)
            if ei == ej:
                continue
            a, b = stream["epochs"][ei][dname], stream["epochs"][ej][dname]
            extra = ["suite-kept" if a[:2] == b[:2] else "suite-changed", "xepoch-style:" + pkt.suite_style(*a[:2])]
            if pi == pj:
                extra.append("same-seq-index" if stream["strict"] else "same-index-no-seq-reset")
            for kind in ("replay-at", "subst-at", "swap-at"):
                if judge(ctx, stream, [[kind, i, j - i]], frags, base + extra + ["plan:" + kind]) is False:
                    return False
            pairs += 1
    ctx.count("cross-epoch-streams-enumerated")
    ctx.count("cross-epoch-pairs-enumerated", pairs)
    return True


STRIPE = 1024


def _size_classes(prefix, n):
    return ["%s>=%dKiB" % (prefix, k) for k in (1, 4, 16, 32, 64) if n >= k * 1024]


def large_packets(ctx, stream, mask_seed, pos_seed, frags, per_stripe=1, tail=16):
    """Single-byte edits spread over the whole length of every packet of the stream that is longer
    than 2 stripes: in EVERY stripe of 1024 wire bytes of such a packet ``per_stripe`` flips at
    generated offsets (generated non-zero masks), plus flips of each of the last ``tail`` bytes of the
    packet (end of the ciphertext, MAC / tag), plus one deletion and one insertion per 8 stripes.
    Every part of a packet, however long, must be covered by its MAC / tag."""
    base = _classes(stream, ["large-packet"])
    L = len(mask_seed)
    start = 0
    done = 0
    for ch in stream["chunks"]:
        n = len(ch)
        if n > 2 * STRIPE:
            done += 1
            size_cls = _size_classes("packet-wire-bytes", n)
            offs = []
            for si in range((n + STRIPE - 1) // STRIPE):
                lo, hi = si * STRIPE, min(n, (si + 1) * STRIPE)
                for k in range(per_stripe):
                    offs.append(lo + pos_seed[(si * per_stripe + k) % len(pos_seed)] % (hi - lo))
            offs += list(range(max(0, n - tail), n))
            for q, off in enumerate(offs):
                cls = base + size_cls + _size_classes("edit-offset-in-packet", off) + ["plan:flip"]
                if off >= n - tail:
                    cls.append("edit-in-packet-tail")
                if judge(ctx, stream, [["flip", start + off, mask_seed[(off * 5 + 1) % L] or 0x80]], frags, cls) is False:
                    return False
                if q % 8 == 3 and q < len(offs) - tail:
                    if judge(ctx, stream, [["del", start + off]], frags, base + size_cls + _size_classes("edit-offset-in-packet", off) + ["plan:del"]) is False:
                        return False
                    if judge(ctx, stream, [["ins", start + off, mask_seed[(off * 7 + 3) % L]]], frags, base + size_cls + _size_classes("edit-offset-in-packet", off) + ["plan:ins"]) is False:
                        return False
        start += n
    if done:
        ctx.count("large-packet-streams-enumerated")
    else:
        ctx.inconc("large-packet-stream-without-a-large-packet")
    return True


def exhaustive_stream(ctx, stream, mask_seed, extra_masks, frags):
    """Every single-byte flip / deletion / insertion position of the encrypted stream."""
    n = len(b"".join(stream["chunks"]))
    cls_f = _classes(stream, ["plan:flip", "exhaustive"])
    cls_d = _classes(stream, ["plan:del", "exhaustive"])
    cls_i = _classes(stream, ["plan:ins", "exhaustive"])
    L = len(mask_seed)
    for p in range(n):
        m = mask_seed[p % L] or 0x80
        for mask in [m] + [x for x in extra_masks if x != m]:
            if judge(ctx, stream, [["flip", p, mask]], frags, cls_f) is False:
                return False
        if judge(ctx, stream, [["del", p]], frags, cls_d) is False:
            return False
    for p in range(n + 1):
        if judge(ctx, stream, [["ins", p, mask_seed[(p * 7 + 3) % L]]], frags, cls_i) is False:
            return False
    ctx.count("streams-enumerated")
    ctx.count("stream-bytes-enumerated", n)
    return True


def run(ctx):
    pkt.check_offered()
    ctx.set_budget(75, 840)
    S = pkt.strategies()
    mask_seed = st.binary(min_size=64, max_size=64)
    complete = [True]

    # -- exhaustive single-byte plans over recorded streams
    if ctx.quick:
        work = [(cm, z) for cm in FRAMING_REPRESENTATIVES for z in ("none",)] + [(FRAMING_REPRESENTATIVES[i], "zlib") for i in (0, 4, 8, 9)]
        extra_masks = []
    else:
        pairs = [(c, m) for c in pkt.CIPHERS for m in pkt.MACS]
        work = [(cm, z) for cm in pairs for z in ("none", "zlib")]
        extra_masks = [0x01, 0x80, 0xFF]
    # style of the opposite direction: quick (one stream per class) cycles it within each inbound style (offset
    # by the run seed), so that every ordered (inbound style, outbound style) pair is enumerated in every run;
    # thorough (6 streams per class and worker) draws it per stream
    seen_style = {}
    other_styles = []
    for cm, z in work:
        ins = pkt.suite_style(*cm)
        other_styles.append(pkt.STYLES[(seen_style.get(ins, 0) + ctx.seed) % 3])
        seen_style[ins] = seen_style.get(ins, 0) + 1
    for idx, (cm, z) in enumerate(work):
        if idx % ctx.nworkers != ctx.worker:
            continue
        if ctx.out_of_time():
            complete[0] = False
            break

        state = {"n": 0}

        def body(drawn, state=state):
            spec, seed, frags = drawn
            state["n"] += 1
            if state["n"] == 1:
                return  # hypothesis' first example is the all-minimal one (empty bodies, K=1): not worth an enumeration
            stream = _try_record(ctx, pkt.norm_case(spec))
            if stream is None:
                complete[0] = False
                return
            if exhaustive_stream(ctx, stream, seed, extra_masks, frags) is False:
                complete[0] = False

        # generated streams per class (sender role and strict flag alternate with the class index);
        # collect-then-continue: a failing (stream, single edit) is already minimal, no shrinking over streams
        strat = st.tuples(
            _stream_spec_strategy(S, cm, (z,), rekey=True, role=("client", "server")[idx % 2], strict=bool((idx // 2) % 2), other_style=other_styles[idx] if ctx.quick else None),
            mask_seed,
            S.frags,
        )
        ctx.explore(strat, body, 1 + ctx.scale(1, 6), shrink=False, seed_offset=10 + idx)
        if ctx.unknown:
            complete[0] = False
            break
    ctx.exhaustive = complete[0]

    # -- long streams: replay / substitution / swap at structured distances, every framing class
    if ctx.quick:
        lwork = [(cm, "none") for cm in FRAMING_REPRESENTATIVES] + [(FRAMING_REPRESENTATIVES[i], "zlib") for i in (1, 5, 10)]
        structured, long_n, n_gen = DISTANCES_QUICK, (520, 560), 6
    else:
        lwork = work
        structured, long_n, n_gen = sorted(DISTANCES_THOROUGH), (2060, 2100), 24
    for idx, (cm, z) in enumerate(lwork):
        if idx % ctx.nworkers != ctx.worker or ctx.unknown:
            continue
        if ctx.out_of_time():
            complete[0] = False
            break

        state = {"n": 0}

        def lbody(drawn, state=state):
            spec, generated, raw, frags = drawn
            state["n"] += 1
            if state["n"] == 1:
                return  # the all-minimal first example
            stream = _try_record(ctx, pkt.norm_case(spec))
            if stream is None:
                complete[0] = False
                return
            if long_stream(ctx, stream, structured, generated, raw, frags) is False:
                complete[0] = False

        lstrat = st.tuples(
            _stream_spec_strategy(S, cm, (z,), rekey=True, role=("client", "server")[(idx + 1) % 2], strict=bool((idx // 2 + 1) % 2), long_n=long_n),
            st.lists(st.integers(0, 1 << 20), min_size=n_gen, max_size=n_gen),
            st.lists(st.integers(0, 1 << 20), min_size=16, max_size=16),
            st.one_of(st.just([]), st.just([]), S.frags),
        )
        ctx.explore(lstrat, lbody, 1 + ctx.scale(1, 2), shrink=False, seed_offset=500 + idx)
    # -- large packets: edits spread over every stripe of packets up to the largest sizes paramiko sends
    # (a full 32 KiB channel / SFTP data packet and beyond), every framing class
    big = st.one_of(st.integers(2100, 70000), st.integers(2100, 70000).map(lambda v: v), st.integers(32700, 32800), st.integers(2100, 4000))
    if ctx.quick:
        bwork = [(cm, "none") for cm in FRAMING_REPRESENTATIVES] + [(FRAMING_REPRESENTATIVES[i], "zlib") for i in (2, 3)]
    else:
        bwork = work
    for idx, (cm, z) in enumerate(bwork):
        if idx % ctx.nworkers != ctx.worker or ctx.unknown:
            continue
        if ctx.out_of_time():
            complete[0] = False
            break

        state = {"n": 0}

        def bbody(drawn, state=state):
            spec, seed, pos_seed, frags = drawn
            state["n"] += 1
            if state["n"] == 1:
                return  # the all-minimal first example
            stream = _try_record(ctx, pkt.norm_case(spec))
            if stream is None:
                complete[0] = False
                return
            if large_packets(ctx, stream, seed, pos_seed, frags, per_stripe=1 if ctx.quick else 3) is False:
                complete[0] = False

        bstrat = st.tuples(
            _stream_spec_strategy(S, cm, (z,), rekey=True, role=("client", "server")[(idx + 1) % 2], strict=bool(idx % 2), big=big),
            mask_seed,
            st.lists(st.integers(0, 1 << 16), min_size=37, max_size=37),
            st.one_of(st.just([]), st.just([]), S.frags),
        )
        ctx.explore(bstrat, bbody, 1 + ctx.scale(1, 3), shrink=False, seed_offset=700 + idx)
    # -- cross-epoch plans: every (earlier-epoch packet, later-epoch packet) pair, every framing class
    for idx, (cm, z) in enumerate(work):
        if idx % ctx.nworkers != ctx.worker or ctx.unknown:
            continue
        if ctx.out_of_time():
            complete[0] = False
            break

        state = {"n": 0}

        def xbody(drawn, state=state):
            spec, frags = drawn
            state["n"] += 1
            if state["n"] == 1:
                return  # the all-minimal first example
            stream = _try_record(ctx, pkt.norm_case(spec))
            if stream is None:
                complete[0] = False
                return
            if cross_epoch(ctx, stream, frags) is False:
                complete[0] = False

        xstrat = st.tuples(
            _stream_spec_strategy(S, cm, (z,), role=("client", "server")[idx % 2], strict=idx % 4 != 3, xepoch=True),
            st.one_of(st.just([]), st.just([]), S.frags),
        )
        ctx.explore(xstrat, xbody, 1 + ctx.scale(1, 4), shrink=False, seed_offset=900 + idx)
    ctx.exhaustive = complete[0]
    ctx.note("large_packets", "per framing class a stream whose larger message has a generated body of 2100-70000 bytes (incompressible / short period); in every 1024-byte stripe of every packet > 2 KiB a flip at a generated offset, flips of each of its last 16 bytes, a deletion and an insertion per 8 stripes")
    ctx.note("read_on", "after a read that raises, read_message is called again on the same Packetizer until the bytes run out or %d reads in a row have raised; everything delivered, in order, must be a prefix of the sent sequence" % READ_ON)
    ctx.note("cross_epoch", "per framing class a stream of 2-3 key epochs x 2-4 packets (tiny / 260-400 bytes); every (earlier-epoch packet i, later-epoch packet j) pair x {replay-at, subst-at, swap-at} enumerated")
    ctx.note(
        "long_streams",
        "per framing class a stream of %d-%d tiny pairwise different packets; replay-at / subst-at / swap-at of a generated packet i with i+d for every d in %r + %d generated d"
        % (long_n[0], long_n[1], structured, n_gen),
    )
    ctx.note("exhaustive_subdomain", "all single-byte XOR(one generated mask; thorough +0x01,0x80,0xFF)/deletion/insertion positions of every recorded stream enumerated in this run")
    ctx.assume("forging a 96-bit (or longer) MAC/tag by a random edit is treated as impossible")

    # -- generated multi-fault plans across generated suites
    pos = st.integers(0, 4000)
    op = st.one_of(
        st.tuples(st.just("flip"), pos, st.integers(1, 255)),
        st.tuples(st.just("del"), pos),
        st.tuples(st.just("ins"), pos, st.integers(0, 255)),
        st.tuples(st.just("trunc"), pos),
        st.tuples(st.just("swap"), st.integers(0, 7), st.integers(0, 7)),
        st.tuples(st.just("drop"), st.integers(0, 7)),
        st.tuples(st.just("dup"), st.integers(0, 7)),
        st.tuples(st.just("replay"), st.integers(0, 7), st.integers(0, 7)),
        st.tuples(st.sampled_from(["replay-at", "subst-at", "swap-at"]), st.integers(0, 7), st.integers(1, 7)),
    ).map(list)
    multi = st.tuples(_stream_spec_strategy(S), st.lists(op, min_size=1, max_size=4), S.frags)

    def body2(drawn):
        spec, plan, frags = drawn
        stream = _try_record(ctx, pkt.norm_case(spec))
        if stream is None:
            return
        judge(ctx, stream, pkt.norm_case(plan), frags, _classes(stream, sorted(set("plan:" + o[0] for o in plan)) + ["multi", "multi-ops:%d" % len(plan)]))

    if not ctx.unknown:
        ctx.explore(multi, body2, ctx.scale(1500, 40000), shrink=True, seed_offset=5)


def replay(ctx, case):
    case = pkt.norm_case(case)
    stream = case["stream"]
    judge(ctx, stream, case["plan"], case.get("frags", []), _classes(stream, ["replay"]))
