"""C37 - malformed private key files fail with SSHException (or PasswordRequiredException) only.

Domain: every bundled private key file (27 loadable + 2 foreign), plus files written at run time by
paramiko's own writers (PEM, plain/encrypted) and by `cryptography`'s OpenSSH serializer (RSA/ECDSA/
Ed25519, plain and bcrypt-encrypted) and a few wrong-type files (unsupported EC curves, PKCS#8); 1-4
mutations per case: byte level (bit flip, delete, insert, replace, truncate), line level (drop, dup,
swap), PEM header edits (Proc-Type/DEK-Info, BEGIN/END tag swaps), base64 body splices from another
file and structure-aware edits of the decoded body (DER bytes; OpenSSH container fields: cipher, kdf,
kdf options, key count, public blob, checkints, private fields, padding) re-encoded afterwards, and
edits of the key MATERIAL itself ("k-edit", vlib.keyedit): one named number / octet string inside the
decoded (and, for protected files, decrypted) private section - OpenSSH RSA n e d iqmp p q, ECDSA private
scalar / public point, Ed25519 seed / each public copy, the public blob's numbers, every copy of one value
together; PKCS#1 version n e d p q dmp1 dmq1 iqmp; SEC1 scalar / curve OID / public point - is bit-flipped,
moved by a small delta, replaced by another file's or another field's value, set to 0/1, encoded
non-minimally, or encoded across the sign boundary (first octet with its top bit set and no sign octet, 0xff
prepended, two's complement of the negated value - in the SSH mpint and the DER INTEGER form alike), and the file is rebuilt around it with correct lengths, checkints, padding and encryption.
Every run first ENUMERATES (seed file x field x base edit set) with the matching class and right password
(~2700 cases; thorough: additionally every bit position, sharded over the workers), then the random phase
mixes k-edits with all other mutations. Each file is loaded with one of the three key classes (usually
the matching one), password none/right/wrong/empty, through from_private_key(file object) or
from_private_key_file.
Oracle: the load raises SSHException (incl. PasswordRequiredException), or returns a key that signs
and whose signature verifies under Class(data=key.asbytes()) and under the independent verifier
(vlib.keys.RefPub built from key.asbytes()). Anything else is a violation bucketed by
(key class, exception class @ innermost paramiko frame) - collected, never raised, so one run lists
every root cause.
bcrypt is interposed (harness side): results are memoised and calls with more than 64 rounds are
refused and counted as excluded (they would only burn CPU).
"""
import base64
import io
import os

from hypothesis import strategies as st

from vlib import core
from vlib import keyedit as E
from vlib import keys as K
from vlib import refssh as R

PROPERTY = "C37"
LEVEL = "exploration"
RULE = (
    "hypothesis picks a seed file (29 bundled + ~16 written at run time: PEM and OpenSSH container, plain and "
    "encrypted, all three key types, wrong-type files), 1-4 mutations (byte flip/delete/insert/replace/truncate, line "
    "drop/dup/swap, Proc-Type/DEK-Info/BEGIN-END tag edits, base64 splice, structure-aware edits of the decoded DER or "
    "OpenSSH container fields incl. cipher/kdf names, kdf options, key count, checkints, private fields, padding, "
    "k-edit = one named key number/octet string inside the decoded+decrypted private section or PKCS#1/SEC1 DER "
    "flipped/shifted/replaced/re-encoded with the file rebuilt correctly around it), a key "
    "class (matching 70%), password none/right/wrong/empty and the entry point (file object or file name); before the "
    "random phase every run enumerates seed file x key field x base edit set (5 bit positions, deltas -1/+1/+2, other "
    "file's value, other field's value, 0, 1, non-minimal encoding, and the sign boundary of the encoding: top bit of the first "
    "octet set without sign octet, 0xff prepended, two's complement of the negated value, 0xff sign octet) with matching class "
    "and right password; non-trivial = "
    "mutated text differs from the seed and still contains a BEGIN line; distinct by SHA-1 of (class, password, entry "
    "point, file bytes)"
)
CLASSES = ["RSAKey", "ECDSAKey", "Ed25519Key"]
MAX_ROUNDS = 64


class _TooManyRounds(Exception):
    pass


# ----------------------------------------------------------------------------- bcrypt interposition

_kdf_memo = {}
_real_kdf = None


def _install_kdf():
    global _real_kdf
    import bcrypt

    if _real_kdf is not None:
        return
    _real_kdf = bcrypt.kdf

    def kdf(password, salt, desired_key_bytes, rounds, ignore_few_rounds=False):
        if isinstance(rounds, int) and rounds > MAX_ROUNDS:
            raise _TooManyRounds(rounds)
        try:
            key = (bytes(password), bytes(salt), desired_key_bytes, rounds)
        except TypeError:
            return _real_kdf(password, salt, desired_key_bytes, rounds, ignore_few_rounds)
        if key not in _kdf_memo:
            if len(_kdf_memo) > 5000:
                _kdf_memo.clear()
            _kdf_memo[key] = _real_kdf(password, salt, desired_key_bytes, rounds, ignore_few_rounds)
        return _kdf_memo[key]

    bcrypt.kdf = kdf


# ----------------------------------------------------------------------------- seeds

_seeds = None
GEN_PW = "secret"


def _generated():
    """(name, cls, password, text) written by paramiko's writers / cryptography's serializers."""
    import paramiko
    from cryptography.hazmat.primitives import serialization as S
    from cryptography.hazmat.primitives.asymmetric import ec

    out = []

    def pwrite(name, cls, key, pw):
        f = io.StringIO()
        key.write_private_key(f, password=pw)
        out.append((name, cls, pw, f.getvalue()))

    rsa = K.spec("rsa1024").ref_private()
    pwrite("g:rsa-pem", "RSAKey", paramiko.RSAKey(key=rsa), None)
    pwrite("g:rsa-pem-enc", "RSAKey", paramiko.RSAKey(key=rsa), GEN_PW)
    for nm in ("ecdsa256", "ecdsa384", "ecdsa521"):
        p = K.spec(nm).ref_private()
        pwrite("g:%s-pem-enc" % nm, "ECDSAKey", paramiko.ECDSAKey(vals=(p, p.public_key())), GEN_PW)

    def enc(pw):
        if pw is None:
            return S.NoEncryption()
        return S.PrivateFormat.OpenSSH.encryption_builder().kdf_rounds(2).build(pw.encode())

    for nm, cls in (("rsa1024", "RSAKey"), ("ecdsa256", "ECDSAKey"), ("ecdsa384", "ECDSAKey"), ("ecdsa521", "ECDSAKey"), ("ed25519", "Ed25519Key")):
        p = K.spec(nm).ref_private()
        for pw in (None, GEN_PW):
            text = p.private_bytes(S.Encoding.PEM, S.PrivateFormat.OpenSSH, enc(pw)).decode()
            out.append(("g:%s-ossh%s" % (nm, "-enc" if pw else ""), cls, pw, text))
    # wrong-type material in a correctly tagged envelope
    for curve, nm in ((ec.SECP256K1(), "k1"), (ec.SECP224R1(), "p224"), (ec.BrainpoolP256R1(), "bp256")):
        p = ec.derive_private_key(0x1234567890ABCDEF1234567890ABCDEF, curve)
        out.append(("g:ec-%s-pem" % nm, "ECDSAKey", None, p.private_bytes(S.Encoding.PEM, S.PrivateFormat.TraditionalOpenSSL, S.NoEncryption()).decode()))
    out.append(("g:rsa-pkcs8", "RSAKey", None, rsa.private_bytes(S.Encoding.PEM, S.PrivateFormat.PKCS8, S.NoEncryption()).decode()))
    return out


def seeds():
    """name -> (cls, password, text)"""
    global _seeds
    if _seeds is None:
        d = {}
        for s in K.specs():
            d[s.name] = (s.cls, s.password, s.text)
        for name, text in K.junk_files():
            d[name] = ("RSAKey", None, text)
        for name, cls, pw, text in _generated():
            d[name] = (cls, pw, text)
        _seeds = d
    return _seeds


SEED_NAMES = None


def seed_names():
    global SEED_NAMES
    if SEED_NAMES is None:
        SEED_NAMES = sorted(seeds())
    return SEED_NAMES


# ----------------------------------------------------------------------------- PEM / container helpers


def split_pem(text):
    """bytes -> (pre_lines, begin, header_lines, body_lines, end, post_lines) or None."""
    lines = text.split(b"\n")
    bi = next((i for i, l in enumerate(lines) if l.startswith(b"-----BEGIN ")), None)
    if bi is None:
        return None
    ei = next((i for i in range(bi + 1, len(lines)) if lines[i].startswith(b"-----END ")), None)
    if ei is None:
        return None
    inner = lines[bi + 1 : ei]
    h = 0
    while h < len(inner) and b": " in inner[h]:
        h += 1
    headers = inner[:h]
    body = inner[h:]
    if headers and body and body[0] == b"":
        headers = headers + [b""]
        body = body[1:]
    return lines[:bi], lines[bi], headers, body, lines[ei], lines[ei + 1 :]


def join_pem(parts):
    pre, begin, headers, body, end, post = parts
    return b"\n".join(pre + [begin] + headers + body + [end] + post)


def body_bytes(body_lines):
    try:
        return base64.b64decode(b"".join(body_lines), validate=False)
    except Exception:
        return None


def to_lines(raw, width=64):
    b = base64.b64encode(raw)
    return [b[i : i + width] for i in range(0, len(b), width)] or [b""]


MAGIC = b"openssh-key-v1\x00"


def parse_container(raw):
    """OpenSSH container -> dict or None."""
    if not raw.startswith(MAGIC):
        return None
    r = R.Reader(raw[len(MAGIC) :])
    try:
        d = {"cipher": r.string(), "kdf": r.string(), "kdfopts": r.string(), "nkeys": r.u32(), "pub": r.string(), "priv": r.string(), "rest": r.rest()}
    except R.RefError:
        return None
    return d


def build_container(d):
    return MAGIC + R.string(d["cipher"]) + R.string(d["kdf"]) + R.string(d["kdfopts"]) + R.u32(d["nkeys"] & 0xFFFFFFFF) + R.string(d["pub"]) + R.string(d["priv"]) + d["rest"]


def parse_priv(priv):
    """unencrypted private section -> (check1, check2, [fields], padding) or None."""
    if len(priv) < 8:
        return None
    r = R.Reader(priv)
    c1, c2 = r.u32(), r.u32()
    fields = []
    while True:
        save = r.p
        try:
            fields.append(r.string())
        except R.RefError:
            r.p = save
            break
    return c1, c2, fields, r.rest()


def build_priv(c1, c2, fields, pad):
    return R.u32(c1) + R.u32(c2) + b"".join(R.string(f) for f in fields) + pad


# ----------------------------------------------------------------------------- mutations

BYTE_MUTS = ["flip", "delete", "insert", "replace", "truncate"]
LINE_MUTS = ["line-drop", "line-dup", "line-swap"]
PROC_TYPES = [b"Proc-Type: 4,ENCRYPTED", b"Proc-Type: 4,ENCRYPTE", b"Proc-Type: ", b"Proc-Type: 4,MIC-ONLY"]
DEK_INFOS = [
    b"DEK-Info: AES-128-CBC,00112233445566778899AABBCCDDEEFF",
    b"DEK-Info: AES-256-CBC,00112233445566778899AABBCCDDEEFF",
    b"DEK-Info: DES-EDE3-CBC,0011223344556677",
    b"DEK-Info: AES-128-CBC,0011223344556677",
    b"DEK-Info: AES-128-CBC,00112233445566778899AABBCCDDEEF",
    b"DEK-Info: AES-128-CBC,zz112233445566778899AABBCCDDEEFF",
    b"DEK-Info: AES-128-CBC,",
    b"DEK-Info: AES-128-CBC",
    b"DEK-Info: DES-EDE3-CBC,00112233445566778899AABBCCDDEEFF",
    b"DEK-Info: AES-128-CBC,\xc3\xa9\xc3\xa9",
    b"DEK-Info: BF-CBC,0011223344556677",
    b"DEK-Info: AES-128-CBC,00112233445566778899AABBCCDDEEFF,1",
    b"DEK-Info: ",
]
TAGS = [b"RSA", b"EC", b"OPENSSH", b"DSA", b""]
CIPHERS = [b"none", b"aes256-ctr", b"aes256-cbc", b"aes128-ctr", b"aes128-cbc", b"3des-cbc", b"aes128-gcm@openssh.com", b"aes256-gcm@openssh.com", b"chacha20-poly1305@openssh.com", b"", b"\xff\xfe", b"none\x00"]
KDFS = [b"none", b"bcrypt", b"", b"\xff\xfe", b"bcrypt\x00", b"scrypt"]
KDFOPTS = [
    b"",
    R.string(b"") + R.u32(1),
    R.string(b"0123456789abcdef") + R.u32(0),
    R.string(b"0123456789abcdef") + R.u32(1),
    R.string(b"0123456789abcdef"),
    R.string(b"0123456789abcdef") + R.u32(1) + b"x",
    R.u32(400) + b"abc",
    b"\x00\x00",
]
PADS = [b"", b"\x01", b"\x01\x02", b"\x01\x02\x03\x05", b"\x00", b"\x02", b"\x10", b"\x7f", b"\xff", b"A", bytes(range(1, 16)), bytes(range(1, 17)), b"\x01\x02\x03\x04\x05\x06\x07\x08"]
FIELD_EDITS = ["empty", "drop-last", "drop-first", "append", "flip", "zero", "one", "other", "huge"]

byte_mut = st.tuples(st.sampled_from(BYTE_MUTS), st.integers(0, 9999), st.integers(0, 255)).map(list)
line_mut = st.tuples(st.sampled_from(LINE_MUTS), st.integers(0, 9999), st.integers(0, 9999)).map(list)
header_mut = st.one_of(
    st.tuples(st.just("proc-type"), st.sampled_from(PROC_TYPES)).map(list),
    st.tuples(st.just("dek-info"), st.sampled_from(DEK_INFOS)).map(list),
    st.tuples(st.just("add-enc-headers"), st.sampled_from(DEK_INFOS)).map(list),
    st.tuples(st.just("drop-headers")).map(list),
    st.tuples(st.just("tag"), st.sampled_from(["begin", "end", "both"]), st.sampled_from(TAGS)).map(list),
)
body_mut = st.one_of(
    [st.tuples(st.just("body-" + k), st.integers(0, 9999), st.integers(0, 255)).map(list) for k in ("flip", "delete", "insert", "truncate")]
)
container_mut = st.one_of(
    st.tuples(st.just("c-cipher"), st.sampled_from(CIPHERS)).map(list),
    st.tuples(st.just("c-kdf"), st.sampled_from(KDFS)).map(list),
    st.tuples(st.just("c-kdfopts"), st.sampled_from(KDFOPTS)).map(list),
    st.tuples(st.just("c-kdfopts-rounds"), st.integers(0, 70)).map(list),
    st.tuples(st.just("c-nkeys"), st.sampled_from([0, 1, 2, 3, 0xFFFFFFFF, 0x7FFFFFFF, 256])).map(list),
    st.tuples(st.just("c-pub"), st.sampled_from(["empty", "drop-last", "flip", "type", "trunc-half", "other"]), st.integers(0, 9999)).map(list),
    st.tuples(st.just("c-priv-len"), st.sampled_from(["empty", "drop-last", "drop-7", "append", "short8", "half"])).map(list),
    st.tuples(st.just("p-checkint")).map(list),
    st.tuples(st.just("p-field"), st.integers(0, 8), st.sampled_from(FIELD_EDITS), st.integers(0, 9999)).map(list),
    st.tuples(st.just("p-field-drop"), st.integers(0, 8)).map(list),
    st.tuples(st.just("p-field-dup"), st.integers(0, 8)).map(list),
    st.tuples(st.just("p-fields-clear")).map(list),
    st.tuples(st.just("p-pad"), st.sampled_from(PADS)).map(list),
    st.tuples(st.just("c-rest"), st.binary(min_size=1, max_size=6)).map(list),
)
# key material edit: field index into the view's names (or the name itself), op, argument (see vlib.keyedit)
kedit_mut = st.tuples(st.just("k-edit"), st.integers(0, 11), st.sampled_from(E.OPS), st.integers(-3, 4200)).map(list)
splice_mut = st.tuples(st.just("splice"), st.integers(0, 9999), st.integers(0, 9999), st.integers(0, 9999)).map(list)

mutation_openssh = st.one_of(byte_mut, line_mut, header_mut, body_mut, container_mut, container_mut, container_mut, splice_mut, kedit_mut, kedit_mut)
mutation_pem = st.one_of(byte_mut, line_mut, header_mut, header_mut, body_mut, body_mut, splice_mut, kedit_mut, kedit_mut)


@st.composite
def recipes(draw):
    names = seed_names()
    seed = draw(st.sampled_from(names))
    cls0 = seeds()[seed][0]
    cls = cls0 if draw(st.integers(0, 9)) < 7 else draw(st.sampled_from(CLASSES))
    return {
        "seed": seed,
        "cls": cls,
        "pw": draw(st.sampled_from(["right", "right", "right", "none", "wrong", "wrong", "empty"])),
        "via": draw(st.sampled_from(["fileobj", "fileobj", "file"])),
        "muts": draw(st.lists(mutation_openssh if "BEGIN OPENSSH" in seeds()[seed][2] else mutation_pem, min_size=1, max_size=4)),
    }


def _pos(frac, n):
    return min(n - 1, frac * n // 10000) if n > 0 else 0


def _edit_field(f, how, aux, other):
    if how == "empty":
        return b""
    if how == "drop-last":
        return f[:-1]
    if how == "drop-first":
        return f[1:]
    if how == "append":
        return f + bytes([aux % 256])
    if how == "flip":
        if not f:
            return b"\x01"
        p = _pos(aux, len(f))
        return f[:p] + bytes([f[p] ^ (1 << (aux % 8))]) + f[p + 1 :]
    if how == "zero":
        return b"\x00" * len(f)
    if how == "one":
        return b"\x01"
    if how == "other":
        return other
    if how == "huge":
        return b"\xff" * 600
    raise AssertionError(how)


def _mutate_body(parts, fn):
    """Apply fn(raw)->raw to the decoded base64 body; returns new parts or None."""
    raw = body_bytes(parts[3])
    if raw is None:
        return None
    new = fn(raw)
    if new is None:
        return None
    return (parts[0], parts[1], parts[2], to_lines(new, 70 if parts[1].startswith(b"-----BEGIN OPENSSH") else 64), parts[4], parts[5])


_views = None


def seed_views():
    """name -> vlib.keyedit.View of the unmodified seed file (seeds without recognisable key material are absent)."""
    global _views
    if _views is None:
        d = {}
        for name in seed_names():
            cls0, pw0, text = seeds()[name]
            parts = split_pem(text.encode("ascii"))
            raw = body_bytes(parts[3]) if parts else None
            v = E.open_view(parts[1], parts[2], raw, pw0) if raw else None
            if v is not None:
                d[name] = v
        _views = d
    return _views


def apply_mutation(text, m, aux_texts, pw0=None):
    """text (bytes) -> mutated bytes; returns (new_text, applied); pw0 = the seed file's real password.
    For "k-edit", applied is the string "<view kind>.<field>|<op>"."""
    kind = m[0]
    n = len(text)
    if kind in BYTE_MUTS:
        if n == 0:
            return (bytes([m[2]]), True) if kind == "insert" else (text, False)
        p = _pos(m[1], n)
        if kind == "flip":
            return text[:p] + bytes([text[p] ^ (1 << (m[2] % 8))]) + text[p + 1 :], True
        if kind == "delete":
            return text[:p] + text[p + 1 :], True
        if kind == "insert":
            return text[:p] + bytes([m[2]]) + text[p:], True
        if kind == "replace":
            return text[:p] + bytes([m[2]]) + text[p + 1 :], True
        return text[:p], True
    if kind in LINE_MUTS:
        lines = text.split(b"\n")
        i, j = _pos(m[1], len(lines)), _pos(m[2], len(lines))
        if kind == "line-drop":
            del lines[i]
        elif kind == "line-dup":
            lines.insert(i, lines[i])
        else:
            lines[i], lines[j] = lines[j], lines[i]
        return b"\n".join(lines), True
    parts = split_pem(text)
    if parts is None:
        return text, False
    pre, begin, headers, body, end, post = parts
    if kind == "proc-type":
        hs = [h for h in headers if not h.lower().startswith(b"proc-type")]
        return join_pem((pre, begin, [bytes(m[1])] + hs, body, end, post)), True
    if kind == "dek-info":
        hs = [h for h in headers if not h.lower().startswith(b"dek-info")]
        blank = [h for h in hs if h == b""]
        hs = [h for h in hs if h != b""]
        return join_pem((pre, begin, hs + [bytes(m[1])] + blank, body, end, post)), True
    if kind == "add-enc-headers":
        return join_pem((pre, begin, [PROC_TYPES[0], bytes(m[1]), b""], body, end, post)), True
    if kind == "drop-headers":
        return join_pem((pre, begin, [], body, end, post)), bool(headers)
    if kind == "tag":
        tag = bytes(m[2])
        nb = b"-----BEGIN " + tag + (b" " if tag else b"") + b"PRIVATE KEY-----"
        ne = b"-----END " + tag + (b" " if tag else b"") + b"PRIVATE KEY-----"
        if m[1] in ("begin", "both"):
            begin = nb
        if m[1] in ("end", "both"):
            end = ne
        return join_pem((pre, begin, headers, body, end, post)), True
    if kind == "splice":
        other = split_pem(aux_texts[_pos(m[1], len(aux_texts))])
        if other is None or not other[3] or not body:
            return text, False
        i = _pos(m[2], len(body))
        j = _pos(m[3], len(other[3]))
        return join_pem((pre, begin, headers, body[:i] + other[3][j:], end, post)), True
    if kind == "k-edit":
        raw = body_bytes(body)
        view = E.open_view(begin, headers, raw, pw0) if raw else None
        if view is None:
            return text, False
        name = m[1] if isinstance(m[1], str) else view.names[m[1] % len(view.names)]
        changed = E.edit(view, name, m[2], m[3], [seed_views()[n] for n in sorted(seed_views())])
        if changed is None:
            return text, False
        nh, nraw = view.rebuild(changed)
        wide = begin.startswith(b"-----BEGIN OPENSSH")
        op = m[2] if m[2] != "sign" else "sign-" + E.SIGN_FORMS[m[3] % len(E.SIGN_FORMS)]
        return join_pem((pre, begin, nh, to_lines(nraw, 70 if wide else 64), end, post)), "%s.%s|%s" % (view.kind, name, op)
    if kind.startswith("body-"):
        sub = kind[5:]

        def fn(raw):
            if not raw:
                return None
            p = _pos(m[1], len(raw))
            if sub == "flip":
                return raw[:p] + bytes([raw[p] ^ (1 << (m[2] % 8))]) + raw[p + 1 :]
            if sub == "delete":
                return raw[:p] + raw[p + 1 :]
            if sub == "insert":
                return raw[:p] + bytes([m[2]]) + raw[p:]
            return raw[:p]

        new = _mutate_body(parts, fn)
        return (join_pem(new), True) if new else (text, False)

    # container-level
    def cfn(raw):
        d = parse_container(raw)
        if d is None:
            return None
        if kind == "c-cipher":
            d["cipher"] = bytes(m[1])
        elif kind == "c-kdf":
            d["kdf"] = bytes(m[1])
        elif kind == "c-kdfopts":
            d["kdfopts"] = bytes(m[1])
        elif kind == "c-kdfopts-rounds":
            rd = R.Reader(d["kdfopts"])
            try:
                salt = rd.string()
            except R.RefError:
                salt = b"0123456789abcdef"
            d["kdfopts"] = R.string(salt) + R.u32(m[1])
        elif kind == "c-nkeys":
            d["nkeys"] = m[1]
        elif kind == "c-pub":
            p = d["pub"]
            how = m[1]
            if how == "empty":
                p = b""
            elif how == "drop-last":
                p = p[:-1]
            elif how == "flip":
                p = _edit_field(p, "flip", m[2], b"")
            elif how == "type":
                try:
                    rd = R.Reader(p)
                    rd.string()
                    p = R.string([b"ssh-rsa", b"ssh-ed25519", b"ecdsa-sha2-nistp256", b"\xff\xfe", b""][m[2] % 5]) + rd.rest()
                except R.RefError:
                    return None
            elif how == "trunc-half":
                p = p[: len(p) // 2]
            else:
                od = parse_container(body_bytes(split_pem(aux_texts[_pos(m[2], len(aux_texts))])[3]) or b"")
                if od is None:
                    return None
                p = od["pub"]
            d["pub"] = p
        elif kind == "c-priv-len":
            p = d["priv"]
            how = m[1]
            d["priv"] = {"empty": b"", "drop-last": p[:-1], "drop-7": p[:-7], "append": p + b"\x00", "short8": p[:8], "half": p[: len(p) // 2]}[how]
        elif kind == "c-rest":
            d["rest"] = bytes(m[1])
        else:
            pp = parse_priv(d["priv"])
            if pp is None or d["cipher"] != b"none":
                return None
            c1, c2, fields, pad = pp
            if kind == "p-checkint":
                c2 = (c2 + 1) & 0xFFFFFFFF
            elif kind == "p-field":
                if not fields:
                    return None
                i = m[1] % len(fields)
                fields[i] = _edit_field(fields[i], m[2], m[3], fields[(i + 1) % len(fields)])
            elif kind == "p-field-drop":
                if not fields:
                    return None
                del fields[m[1] % len(fields)]
            elif kind == "p-field-dup":
                if not fields:
                    return None
                i = m[1] % len(fields)
                fields.insert(i, fields[i])
            elif kind == "p-fields-clear":
                fields = fields[:1]
                pad = b""
            elif kind == "p-pad":
                pad = bytes(m[1])
            else:
                raise AssertionError(kind)
            d["priv"] = build_priv(c1, c2, fields, pad)
        return build_container(d)

    new = _mutate_body(parts, cfn)
    return (join_pem(new), True) if new else (text, False)


def realise(rc):
    cls0, pw0, text = seeds()[rc["seed"]]
    text = text.encode("ascii")
    aux = [seeds()[n][2].encode("ascii") for n in seed_names() if n.startswith("g:") or not n.startswith("t:")]
    applied = 0
    kinds = []
    for m in rc["muts"]:
        text, ok = apply_mutation(text, list(m), aux, pw0)
        if ok:
            applied += 1
            kinds.append(m[0])
            if isinstance(ok, str):
                kinds += ["k-field:" + ok.split("|")[0], "k-op:" + ok.split("|")[1]]
    if rc["pw"] == "none":
        password = None
    elif rc["pw"] == "right":
        password = pw0
    elif rc["pw"] == "empty":
        password = ""
    else:
        password = "wr0ng"
    return text, password, kinds


# ----------------------------------------------------------------------------- oracle


def load(ctx, cls_name, text, password, via):
    """-> ("key", obj) | ("ssh", exc) | ("excluded", exc) | ("other", exc)"""
    import paramiko
    from paramiko.ssh_exception import SSHException

    _install_kdf()
    cls = getattr(paramiko, cls_name)
    try:
        if via == "file":
            path = os.path.join(K.fast_tmpdir(ctx), "k")
            with open(path, "wb") as f:
                f.write(text)
            key = cls.from_private_key_file(path, password)
        else:
            key = cls.from_private_key(io.StringIO(text.decode("latin-1")), password)
    except SSHException as e:
        return "ssh", e
    except _TooManyRounds as e:
        return "excluded", e
    except RecursionError:
        raise
    except Exception as e:
        return "other", e
    return "key", key


def judge(ctx, cls_name, text, password, via):
    """-> (outcome_class, None | (clause, bucket, detail))"""
    import paramiko
    from paramiko.message import Message

    kind, val = load(ctx, cls_name, text, password, via)
    if kind == "ssh":
        return "rejected:" + type(val).__name__, None
    if kind == "excluded":
        return "excluded", None
    if kind == "other":
        return "raised-other", ("load-raises", "%s:%s" % (cls_name, K.exc_bucket(val, line=True)), "%s: %r" % (type(val).__name__, val))
    key = val
    cls = getattr(paramiko, cls_name)
    try:
        blob = key.asbytes()
        sig = key.sign_ssh_data(b"c37 probe").asbytes()
        pub = cls(data=blob)
        ok1 = pub.verify_ssh_sig(b"c37 probe", Message(sig))
    except Exception as e:
        return "loaded-unusable", ("loaded-key-unusable", "%s:%s" % (cls_name, K.exc_bucket(e, line=True)), "load succeeded but the key cannot sign/serialise: %r" % (e,))
    try:
        ok2, why = K.RefPub.from_blob(blob).verify(b"c37 probe", sig)
    except Exception as e:
        ok2, why = False, "reference cannot parse public blob: %r" % (e,)
    if ok1 is not True or not ok2:
        return "halves-disagree", ("halves-disagree", cls_name, "load succeeded; signature by the loaded key does not verify under its own public part (paramiko=%r reference=%r %s)" % (ok1, ok2, why))
    return "loaded", None


def _still_key(text):
    return b"-----BEGIN " in text


def execute(ctx, rc, state):
    text, password, kinds = realise(rc)
    seed_text = seeds()[rc["seed"]][2].encode("ascii")
    nontrivial = text != seed_text and _still_key(text)
    ident = {"cls": rc["cls"], "password": password, "via": rc["via"], "text": text}
    outcome, res = judge(ctx, rc["cls"], text, password, rc["via"])
    fmt = "openssh" if b"BEGIN OPENSSH" in seed_text else ("pem" if b"BEGIN" in seed_text else "junk")
    ctx.case(ident, nontrivial, ["cls:" + rc["cls"], "fmt:" + fmt, "pw:" + rc["pw"], "via:" + rc["via"], "outcome:" + outcome] + ["mut:" + k for k in sorted(set(kinds))])
    if outcome == "excluded":
        ctx.exclude("bcrypt-rounds>%d" % MAX_ROUNDS)
        return
    if res is None:
        return
    clause, bucket, detail = res
    sig = "%s|%s" % (clause, bucket)
    case = {"recipe": rc, "cls": rc["cls"], "password": password, "via": rc["via"], "text": text}
    if sig not in state["seen"] and sig not in state["known"]:
        # new root cause: greedy minimisation of the recipe (fewer mutations, simpler entry point)
        state["seen"].add(sig)
        best = rc
        progress = True
        while progress:
            progress = False
            cands = []
            if len(best["muts"]) >= 1:
                for i in range(len(best["muts"])):
                    cands.append(dict(best, muts=best["muts"][:i] + best["muts"][i + 1 :]))
            if best["via"] == "file":
                cands.append(dict(best, via="fileobj"))
            if best["cls"] != seeds()[best["seed"]][0]:
                cands.append(dict(best, cls=seeds()[best["seed"]][0]))
            for cand in cands:
                t2, p2, _ = realise(cand)
                o2, r2 = judge(ctx, cand["cls"], t2, p2, cand["via"])
                if r2 is not None and "%s|%s" % (r2[0], r2[1]) == sig:
                    best, progress = cand, True
                    detail = r2[2]
                    break
        t2, p2, _ = realise(best)
        case = {"recipe": best, "cls": best["cls"], "password": p2, "via": best["via"], "text": t2}
    ctx.violation(clause, bucket, case, detail)


# ----------------------------------------------------------------------------- atheris (thorough only, optional)

ATHERIS_PASSWORDS = [None, "television", GEN_PW, "wr0ng", "abc123", "asdf", ""]


def _atheris_decode(data):
    """fuzz input -> (cls, password, text): first byte selects class and password."""
    sel = data[0]
    return CLASSES[sel % 3], ATHERIS_PASSWORDS[(sel // 3) % len(ATHERIS_PASSWORDS)], bytes(data[1:])


def _atheris_main():
    """Child process: argv = [out.json, corpus_dir, seconds, dict file]. Coverage-guided run of the same oracle."""
    import atexit
    import json
    import sys

    import atheris

    out, corpus, seconds = sys.argv[1], sys.argv[2], int(sys.argv[3])
    core.setup_paths()
    with atheris.instrument_imports(include=["paramiko.pkey", "paramiko.rsakey", "paramiko.ecdsakey", "paramiko.ed25519key", "paramiko.message", "paramiko.util"]):
        import paramiko  # noqa: F401
    found = {}
    stats = {"runs": 0, "outcomes": {}}

    def dump():
        with open(out + ".tmp", "w") as f:
            json.dump({"stats": stats, "found": found}, f)
        os.replace(out + ".tmp", out)

    atexit.register(dump)  # libFuzzer normally leaves through _exit: results are also written periodically

    def one(data):
        if len(data) < 1:
            return
        cls, pw, text = _atheris_decode(data)
        outcome, res = judge(None, cls, text, pw, "fileobj")
        stats["runs"] += 1
        stats["outcomes"][outcome] = stats["outcomes"].get(outcome, 0) + 1
        new = False
        if res is not None:
            sig = "%s|%s" % (res[0], res[1])
            if sig not in found or len(text) < len(bytes.fromhex(found[sig]["text"])):
                new = sig not in found
                found[sig] = {"clause": res[0], "bucket": res[1], "detail": res[2][:1000], "cls": cls, "password": pw, "text": text.hex()}
        if new or stats["runs"] % 500 == 0:
            dump()

    atheris.Setup([sys.argv[0], corpus, "-dict=" + sys.argv[4], "-max_total_time=%d" % seconds, "-timeout=60", "-max_len=6000", "-artifact_prefix=" + os.path.join(os.path.dirname(corpus), "artifact-"), "-print_final_stats=0", "-verbosity=0"], one)
    atheris.Fuzz()


def run_atheris(ctx, seconds, with_seed_corpus):
    """Run the atheris child and fold its findings into ctx. Returns False when atheris is unavailable."""
    import json
    import subprocess
    import sys

    try:
        import atheris  # noqa: F401
    except Exception:
        ctx.inconc("atheris-not-importable")
        return False
    d = K.fast_tmpdir(ctx)
    corpus = os.path.join(d, "corpus-%d" % int(with_seed_corpus))
    os.makedirs(corpus, exist_ok=True)
    if with_seed_corpus:
        for i, name in enumerate(seed_names()):
            cls, pw, text = seeds()[name]
            pwi = ATHERIS_PASSWORDS.index(pw) if pw in ATHERIS_PASSWORDS else 0
            with open(os.path.join(corpus, "seed-%02d" % i), "wb") as f:
                f.write(bytes([CLASSES.index(cls) + 3 * pwi]) + text.encode("ascii"))
    out = os.path.join(d, "atheris-%d.json" % int(with_seed_corpus))
    # libFuzzer dictionary: the envelope tokens (the only way an empty corpus gets past the BEGIN-line check)
    tokens = []
    for tag in ("RSA", "EC", "OPENSSH"):
        tokens += ["-----BEGIN %s PRIVATE KEY-----\\x0a" % tag, "-----END %s PRIVATE KEY-----\\x0a" % tag]
    tokens += ["Proc-Type: 4,ENCRYPTED\\x0a", "DEK-Info: AES-128-CBC,", "DEK-Info: DES-EDE3-CBC,", "b3BlbnNzaC1rZXktdjEA", "AAAABG5vbmUAAAAEbm9uZQAAAAAAAAAB", "\\x0a"]
    with open(os.path.join(d, "dict.txt"), "w") as f:
        for t in tokens:
            f.write('"%s"\n' % t)
    env = dict(os.environ)
    env["PYTHONPATH"] = core.VERIF + os.pathsep + env.get("PYTHONPATH", "")
    code = "import sys; sys.path.insert(0, %r); from vlib import core; core.setup_paths(); import props.c37 as m; m._atheris_main()" % core.VERIF
    try:
        subprocess.run([sys.executable, "-c", code, out, corpus, str(seconds), os.path.join(d, "dict.txt")], env=env, stdout=subprocess.DEVNULL, stderr=subprocess.DEVNULL, timeout=seconds + 300, cwd=core.VERIF)
    except subprocess.TimeoutExpired:
        ctx.inconc("atheris-timeout")
    if not os.path.exists(out):
        ctx.inconc("atheris-no-result")
        return True
    with open(out) as f:
        res = json.load(f)
    tag = "atheris-seeded" if with_seed_corpus else "atheris-empty-corpus"
    ctx.count(tag + "-runs", res["stats"]["runs"])
    for k, v in res["stats"]["outcomes"].items():
        ctx.count(tag + ":" + k, v)
    for sig, f_ in sorted(res["found"].items()):
        text = bytes.fromhex(f_["text"])
        case = {"recipe": {"atheris": tag}, "cls": f_["cls"], "password": f_["password"], "via": "fileobj", "text": text}
        ctx.case({"cls": f_["cls"], "password": f_["password"], "via": "fileobj", "text": text}, True, [tag + "-finding"])
        ctx.violation(f_["clause"], f_["bucket"], case, f_["detail"])
    return True


def enumerated_recipes(ctx):
    """seed file x key field x edit: the base edit set in every run (quick: one seed file per distinct (format,
    key material, protected or not)); thorough adds every bit position of every field, sharded over the workers
    by (running index mod nworkers). Edits that do not apply to a field (no other file holds a different value,
    constant already there) are skipped."""
    i = 0
    done = set()
    others = [seed_views()[n] for n in sorted(seed_views())]
    for name in seed_names():
        view = seed_views().get(name)
        if view is None:
            continue
        ident = (view.kind, seeds()[name][1] is None, repr(sorted(view.values.items())))
        if ctx.tier == "quick" and ident in done:
            continue
        done.add(ident)
        for field in view.names:
            edits = [(op, arg, True) for op, arg in E.base_edits(view, field)]
            if ctx.tier == "thorough":
                edits += [(op, arg, False) for op, arg in E.all_flips(view, field) if (op, arg, True) not in edits]
            for op, arg, base in edits:
                i += 1
                if (base or i % ctx.nworkers == ctx.worker) and E.edit(view, field, op, arg, others) is not None:
                    yield {"seed": name, "cls": seeds()[name][0], "pw": "right", "via": "fileobj", "muts": [["k-edit", field, op, arg]]}


def run(ctx):
    ctx.set_budget(60, 800)
    state = {"seen": set(), "known": set(k for k, e in core.load_known(PROPERTY).items() if e.get("status") == "open")}
    ctx.assume("file objects handed to from_private_key are text streams (bytes of the mutated file mapped through latin-1)")
    ctx.assume("bcrypt.kdf is interposed by the harness: memoised, calls with more than %d rounds refused and counted as excluded" % MAX_ROUNDS)
    seeds()
    fuzz = ctx.tier == "thorough" and ctx.worker in (0, 1)
    n = 0
    for rc in enumerated_recipes(ctx):
        if ctx.out_of_time():
            break
        execute(ctx, rc, state)
        n += 1
    ctx.note("enumerated_key_material_edits", n)
    ctx.note("key_material_views", len(seed_views()))
    ctx.explore(recipes(), lambda rc: execute(ctx, rc, state), ctx.scale(5000, 20000 if fuzz else 60000), shrink=False)
    ctx.note("seed_files", len(seeds()))
    if fuzz:
        # coverage-guided campaign on the same oracle: worker 0 from the seed corpus, worker 1 from an empty corpus
        run_atheris(ctx, 300, with_seed_corpus=(ctx.worker == 0))


def replay(ctx, case):
    text = bytes(case["text"])
    outcome, res = judge(ctx, case["cls"], text, case["password"], case["via"])
    ctx.case({"cls": case["cls"], "password": case["password"], "via": case["via"], "text": text}, True, ["replay", "outcome:" + outcome])
    if res is not None:
        ctx.violation(res[0], res[1], case, res[2])
