"""C40 - ssh_config lookup follows OpenSSH first-obtained-value semantics.

Domain: generated configs of <= 12 blocks (optional leading global section, `Host` blocks with 1-4
lowercase / wildcard / negated / quoted patterns, `Match all`, `Match [!]host|originalhost <pattern-list>`),
keys User, Port, HostName, IdentityFile (repeatable), ProxyCommand (incl. `none`), ControlPath,
ForwardAgent, Compression - repeated inside and across blocks, written as `key value`, `key=value`,
`key = value`, quoted values, mixed key case, comments, blank lines, indentation, LF/CRLF.
%-tokens only where ssh_config(5) *and* paramiko's docs allow them: %h in HostName; %h %r %u %d (%C %l) in
IdentityFile; %h %p %r in ProxyCommand; %h %p %r %u %n %L (%C %l) in ControlPath.
Soundness restriction: a config that uses `Match host` has no HostName key (the statement does not define
the two-pass interaction); no Match exec/canonical/final/user/localuser.

Reference model (below, independent of paramiko): walk blocks in file order, a Host block applies iff some
positive pattern matches and no negated one does, every key keeps its first value, IdentityFile concatenates
without duplicates, HostName defaults to the looked-up name, then tokens expand with the OpenSSH meanings.
Oracle: lookup(name) == model for every key (no extra keys); repeated lookups on one object agree;
get_hostnames() == all Host pattern tokens plus the implicit "*" and never raises.
"""
import getpass
import os
import re
import socket
import traceback

from hypothesis import strategies as st

from vlib import core

PROPERTY = "C40"
LEVEL = "exploration"
RULE = (
    "hypothesis-generated ssh_config texts (<=12 Host/Match blocks over a small host-name/pattern pool so that several "
    "blocks apply, repeated keys, IdentityFile lists, %-tokens, syntactic noise) each looked up for 1-4 names and compared "
    "key-by-key with an independent first-obtained-value model; non-trivial = for some looked-up name >=2 applicable blocks "
    "define the same key, or a negated pattern/criterion decides applicability, or a %-token is expanded; distinct by SHA-1 "
    "of (config structure, names)"
)

NAMES = ["a", "b", "ab", "ba", "a1", "web1", "web2", "db", "a.example.com", "db.example.com", "x.y"]
PATTERNS = NAMES + ["*", "?", "??", "a*", "*b", "a?", "web?", "*.example.com", "*.*", "?b", "w*1", "db*", "*a*"]
VALUES = {
    "User": ["alice", "bob", "root"],
    "Port": ["22", "2222", "2200"],
    "HostName": ["%h", "%h.example.com", "10.0.0.1", "real.example.com", "gw-%h", "%h.%h"],
    "IdentityFile": ["/k/id_%h", "/k/%r@%h", "%d/.ssh/id_rsa", "/k/%u.key", "/k/plain", "/k/other", "/k/%u-%r-%h", "/k/%C", "/k/%l.key"],
    "ProxyCommand": ["ssh -W %h:%p gw", "nc %h %p", "none", "None", "connect -l %r %h %p", "plainproxy"],
    "ControlPath": ["/tmp/cp-%r@%h:%p", "/tmp/%u-%n-%L", "/tmp/%C", "/tmp/%l-%h", "/tmp/static", "/tmp/%n.%h"],
    "ForwardAgent": ["yes", "no"],
    "Compression": ["yes", "no"],
}
# tokens asserted per key (subset of both ssh_config(5) TOKENS and paramiko's TOKENS_BY_CONFIG_KEY docs)
TOKENS = {"hostname": "h", "identityfile": "hrudCl", "proxycommand": "hpr", "controlpath": "hprunLCl"}


# ----------------------------------------------------------------------------- generator


def _casings(word):
    return [word, word.lower(), word.upper(), word.capitalize()]


# Few draws per element (generation cost dominates): one draw picks (key, value), one integer picks the
# whole syntactic style by mixed radix; 0 is the plainest style so that shrunk cases are readable.
_SEP = [" ", "  ", "\t", "=", " = ", "= ", " ="]
_INDENT = ["", "    ", "\t", "  \t "]
_PRE = [None, None, None, "", "# a comment", "   # Host commented-out", "#User nobody", "  "]
_TRAIL = ["", "", " ", "\t"]
_RADIX = (4, len(_SEP), 4, len(_INDENT), len(_PRE), len(_TRAIL))  # casing, sep, quoted(1 in 4), indent, pre, trail
_NSTYLE = 1
for _r in _RADIX:
    _NSTYLE *= _r
_style = st.one_of(st.just(0), st.integers(0, _NSTYLE - 1))


def _digits(n):
    out = []
    for r in _RADIX:
        out.append(n % r)
        n //= r
    return out


def _mk_line(kv, style):
    key, value = kv
    c, s, qd, i, p, t = _digits(style)
    return [_casings(key)[c], _SEP[s], value, qd == 3 and value.lower() != "none", _INDENT[i], _PRE[p], _TRAIL[t]]


def _mk_pat(p, f):
    return [p, f % 4 == 3, f // 4 == 3]  # [pattern, negated, quoted]


_pat = st.builds(_mk_pat, st.sampled_from(PATTERNS), st.integers(0, 15))


def _mk_host(style, pats, lines):
    c, s, _q, i, _p, _t = _digits(style)
    return {"kind": "host", "kw": [_casings("Host")[c], _SEP[s], _INDENT[i]], "pats": pats, "lines": lines}


def _mk_match(style, crit, lines):
    c, s, _q, i, _p, _t = _digits(style)
    return {"kind": "match", "kw": [_casings("Match")[c], [" ", "  ", "\t"][s % 3], _INDENT[i]], "crit": crit, "lines": lines}


def _mk_crit(typ, f, pats):
    return [typ, f % 3 == 2, [[p, g % 4 == 3] for p, g in pats], f >= 3]  # [type, negated, [[pattern, negated]], quoted]


def _blocks(match_host):
    keys = [k for k in VALUES if not (match_host and k == "HostName")]
    kv = [(k, v) for k in keys for v in VALUES[k]]
    # bias towards the accumulating / token-bearing keys
    kv += [("IdentityFile", v) for v in VALUES["IdentityFile"]] * 2 + ([] if match_host else [("HostName", v) for v in VALUES["HostName"]])
    lines = st.lists(st.builds(_mk_line, st.sampled_from(kv), _style), max_size=5)
    host = st.builds(_mk_host, _style, st.lists(_pat, min_size=1, max_size=4), lines)
    crit = st.builds(
        _mk_crit,
        st.sampled_from(["host", "originalhost"] if match_host else ["originalhost"]),
        st.integers(0, 5),
        st.lists(st.tuples(st.sampled_from(PATTERNS), st.integers(0, 3)), min_size=1, max_size=3),
    )
    crits = st.one_of(st.just([["all", False, [], False]]), st.lists(crit, min_size=1, max_size=2), st.lists(crit, min_size=1, max_size=2))
    match = st.builds(_mk_match, _style, crits, lines)
    glob = st.builds(lambda ls: {"kind": "global", "lines": ls}, lines)
    rest = st.lists(st.one_of(host, host, host, match), max_size=11)
    return st.builds(lambda first, more: [first] + more, st.one_of(host, host, match, glob), rest)


_names = st.lists(st.one_of(st.sampled_from(NAMES), st.text(alphabet="ab1.x", min_size=1, max_size=5)), min_size=1, max_size=4)
_case = st.builds(
    lambda blocks, names, eol: {"blocks": blocks, "names": names, "eol": eol},
    st.one_of(_blocks(False), _blocks(True)),
    _names,
    st.sampled_from(["\n", "\n", "\n", "\r\n"]),
)


def case_st():
    return _case


def render(case):
    def q(s, quoted):
        return '"%s"' % s if quoted else s

    out = []
    for b in case["blocks"]:
        if b["kind"] == "host":
            kw, sep, ind = b["kw"]
            out.append(ind + kw + sep + " ".join(q(("!" if neg else "") + p, quoted) for p, neg, quoted in b["pats"]))
        elif b["kind"] == "match":
            kw, sep, ind = b["kw"]
            words = []
            for typ, neg, pats, quoted in b["crit"]:
                words.append(("!" if neg else "") + typ)
                if typ != "all":
                    words.append(q(",".join(("!" if pneg else "") + p for p, pneg in pats), quoted))
            out.append(ind + kw + sep + " ".join(words))
        for key, sep, value, quoted, ind, pre, trail in b["lines"]:
            if pre is not None:
                out.append(pre)
            out.append(ind + key + sep + q(value, quoted) + trail)
    return case["eol"].join(out) + case["eol"]


# ----------------------------------------------------------------------------- reference model


def _glob(p, s):
    """'*' = any run of characters, '?' = exactly one (ssh_config(5) PATTERNS)."""
    pi = si = 0
    star, mark = None, 0
    while si < len(s):
        if pi < len(p) and p[pi] == "*":
            star, mark = pi, si
            pi += 1
        elif pi < len(p) and (p[pi] == "?" or p[pi] == s[si]):
            pi, si = pi + 1, si + 1
        elif star is not None:
            mark += 1
            pi, si = star + 1, mark
        else:
            return False
    return all(c == "*" for c in p[pi:])


def _patlist(pats, name):
    """pats: [(pattern, negated)] -> (applies, decided_by_negation)."""
    pos = any(_glob(p, name) for p, neg in pats if not neg)
    veto = any(_glob(p, name) for p, neg in pats if neg)
    return (pos and not veto), (pos and veto)


def model_lookup(case, name):
    """-> (raw options before token expansion, info for the non-trivial rule)."""
    opts, ndefs, negdec, idf_blocks = {}, {}, False, []
    for b in case["blocks"]:
        if b["kind"] == "host":
            ok, nd = _patlist([(p, neg) for p, neg, _ in b["pats"]], name)
            negdec = negdec or nd
        elif b["kind"] == "match":
            ok = True
            for typ, neg, pats, _ in b["crit"]:
                if typ == "all":
                    continue
                m, _nd = _patlist([(p, pneg) for p, pneg in pats], name)  # host == originalhost: no HostName in such configs
                negdec = negdec or neg or _nd
                ok = ok and (m != neg)
        else:
            ok = True
        if not ok:
            continue
        seen = set()
        idf_blocks.append([line[2] for line in b["lines"] if line[0].lower() == "identityfile"])
        for line in b["lines"]:
            key, value = line[0].lower(), line[2]
            seen.add(key)
            if key == "identityfile":
                lst = opts.setdefault(key, [])
                if value not in lst:
                    lst.append(value)
            elif key not in opts:
                opts[key] = None if (key == "proxycommand" and value.lower() == "none") else value
        for key in seen:
            ndefs[key] = ndefs.get(key, 0) + 1
    opts.setdefault("hostname", name)
    # what the known defect "duplicates inside the first defining block are kept" would produce (bucket diagnosis only)
    idf_blocks = [x for x in idf_blocks if x]
    dup_first = list(idf_blocks[0]) if idf_blocks else []
    for blk in idf_blocks[1:]:
        for v in blk:
            if v not in dup_first:
                dup_first.append(v)
    return opts, {"multi": any(v >= 2 for v in ndefs.values()), "neg": negdec, "idf_dup_first": dup_first}


def _env(opts, name, hostname_expanded=True):
    local = getpass.getuser()
    host = opts["hostname"].replace("%h", name) if hostname_expanded else opts["hostname"]
    return {
        "h": host,
        "p": opts.get("port", "22"),
        "r": opts.get("user", local),
        "u": local,
        "n": name,
        "d": os.path.expanduser("~"),
        "L": socket.gethostname().split(".")[0],
        "_user": opts.get("user"),
    }


def _pattern(key, value, env, name):
    """Regex that the expanded value must fullmatch."""
    allowed = TOKENS.get(key, "")
    out, i = [], 0
    while i < len(value):
        c = value[i : i + 2]
        if len(c) == 2 and c[0] == "%" and c[1] in allowed:
            t = c[1]
            if key == "hostname":
                out.append(re.escape(name))
            elif t == "C":
                out.append("[0-9a-f]{40}")  # resolver/implementation dependent: only "no literal token left"
            elif t == "l":
                out.append("[A-Za-z0-9._-]+")
            elif t == "u" and env["_user"] is not None:
                # ssh_config(5): local user; paramiko docs: "configured User value, or the local user" -> accept both
                out.append("(?:%s|%s)" % (re.escape(env["u"]), re.escape(env["_user"])))
            else:
                out.append(re.escape(env[t]))
            i += 2
        else:
            out.append(re.escape(value[i]))
            i += 1
    return "".join(out)


def _matches(key, raw, got, env, name):
    return isinstance(got, str) and re.fullmatch(_pattern(key, raw, env, name), got, re.S) is not None


# ----------------------------------------------------------------------------- oracle


def exc_bucket(exc):
    root = os.path.join(os.path.realpath(core.repo_path()), "paramiko") + os.sep
    where = "outside-paramiko"
    for fs in traceback.extract_tb(exc.__traceback__):
        fn = os.path.realpath(fs.filename)
        if fn.startswith(root):
            where = "%s:%s" % (fn[len(root) :], fs.name)
    return "%s@%s" % (type(exc).__name__, where)


def _check_lookup(ctx, case, text, name, got, opts, info):
    env = _env(opts, name)
    env_raw = _env(opts, name, hostname_expanded=False)
    for key in sorted(set(opts) | set(got)):
        if key not in got:
            ctx.violation("lookup-keys", "missing:%s" % key, case, "name=%r model has %s=%r, lookup has no such key\n%s" % (name, key, opts[key], text))
            continue
        if key not in opts:
            ctx.violation("lookup-keys", "extra:%s" % key, case, "name=%r lookup has %s=%r, no applicable block sets it\n%s" % (name, key, got[key], text))
            continue
        want, have = opts[key], got[key]
        if want is None:
            ok = have is None
        elif isinstance(want, list):
            ok = isinstance(have, list) and len(have) == len(want) and all(_matches(key, w, h, env, name) for w, h in zip(want, have))
        else:
            ok = _matches(key, want, have, env, name)
        if ok:
            continue
        # root-cause buckets
        wl = want if isinstance(want, list) else [want]
        hl = have if isinstance(have, list) else [have]
        bucket = "%s:differs" % key
        if key == "proxycommand" and have is None and want is not None:
            bucket = "proxycommand-none-overrides-first-value"
        elif want is not None and isinstance(have, type(want)):
            if env_raw["h"] != env["h"] and len(wl) == len(hl) and all(_matches(key, w, h, env_raw, name) for w, h in zip(wl, hl)):
                bucket = "h-token-uses-unexpanded-hostname"
            elif isinstance(want, list) and len(hl) > len(wl):
                wd = info["idf_dup_first"]
                if len(wd) == len(hl) and any(all(_matches(key, w, h, e, name) for w, h in zip(wd, hl)) for e in (env, env_raw)):
                    bucket = "identityfile-duplicate-within-block"
        ctx.violation(
            "lookup-value",
            bucket,
            case,
            "lookup(%r)[%r] = %r; model (first obtained value, tokens expanded): raw %r with %%h=%r %%p=%r %%r=%r %%u=%r %%n=%r\n%s"
            % (name, key, have, want, env["h"], env["p"], env["r"], env["u"], env["n"], text),
        )


def execute(ctx, case):
    from paramiko.config import SSHConfig

    text = render(case)
    models = [model_lookup(case, n) for n in case["names"]]
    tokens = any("%" in (v if isinstance(v, str) else " ".join(v)) for o, _ in models for v in o.values() if v is not None)
    classes = set(b["kind"] for b in case["blocks"])
    if any(i["multi"] for _, i in models):
        classes.add("first-value-decides")
    if any(i["neg"] for _, i in models):
        classes.add("negation-decides")
    if tokens:
        classes.add("token-expanded")
    if any(o.get("proxycommand", "") is None for o, _ in models):
        classes.add("proxycommand-none")
    if any(len(o.get("identityfile", [])) >= 2 for o, _ in models):
        classes.add("identityfile-accumulates")
    nontrivial = bool(classes & {"first-value-decides", "negation-decides", "token-expanded"})
    ctx.case(case, nontrivial, sorted(classes))

    try:
        conf = SSHConfig.from_text(text)
    except Exception as e:
        ctx.violation("parse-raises", exc_bucket(e), case, "%r\n%s" % (e, text))
        return
    # get_hostnames
    want_hosts = {"*"} | {("!" if neg else "") + p for b in case["blocks"] if b["kind"] == "host" for p, neg, _ in b["pats"]}
    try:
        hosts = conf.get_hostnames()
    except Exception as e:
        ctx.violation("get_hostnames-raises", exc_bucket(e), case, "%r\n%s" % (e, text))
    else:
        if set(hosts) != want_hosts:
            ctx.violation("get_hostnames", "wrong-set", case, "got %r want %r\n%s" % (sorted(hosts), sorted(want_hosts), text))
    # lookups (all on the same object; the first name is looked up once more at the end)
    results = []
    for name, (opts, info) in zip(case["names"] + case["names"][:1], models + models[:1]):
        try:
            got = conf.lookup(name)
        except Exception as e:
            ctx.violation("lookup-raises", exc_bucket(e), case, "lookup(%r): %r\n%s" % (name, e, text))
            return
        results.append(dict(got))
        if len(results) <= len(case["names"]):
            _check_lookup(ctx, case, text, name, dict(got), opts, info)
    if results[-1] != results[0]:
        ctx.violation("lookup-repeat", "result-changes-on-repeated-lookup", case, "first %r\nagain %r\n%s" % (results[0], results[-1], text))


def run(ctx):
    ctx.set_budget(60, 800)
    ctx.assume("local user, home directory and short local host name are taken from getpass/os.path/socket (as documented for %u %d %L)")
    ctx.assume("%C and %l are only checked for 'token replaced by a hash / host name', their values depend on the resolver")
    ctx.assume("%u with a configured User: both the local user (ssh_config(5)) and the configured User (paramiko docs) are accepted")
    ctx.explore(case_st(), lambda c: execute(ctx, c), ctx.scale(2500, 40000))


def replay(ctx, case):
    execute(ctx, case)
