"""C40 - ssh_config lookup follows OpenSSH first-obtained-value semantics.

Domain: generated configs of <= 12 blocks (optional leading global section, `Host` blocks with 1-4
lowercase / wildcard / negated / quoted patterns, `Match all`, `Match [final] [!]host|originalhost|user|localuser
<pattern-list> ...`), keys User, Port, HostName, IdentityFile (repeatable), ProxyCommand (incl. `none`), ControlPath,
ForwardAgent, Compression - repeated inside and across blocks, written as `key value`, `key=value`,
`key = value`, quoted values, mixed key case, comments, blank lines, indentation, LF/CRLF.
%-tokens only where ssh_config(5) *and* paramiko's docs allow them: %h in HostName; %h %r %u %d (%C %l) in
IdentityFile; %h %p %r in ProxyCommand; %h %p %r %u %n %L (%C %l) in ControlPath.
No Match exec/canonical (need a subprocess / a resolver).

Reference model (below, independent of paramiko): walk blocks in file order, a Host block applies iff some
positive pattern matches and no negated one does, every key keeps its first value, IdentityFile concatenates
without duplicates, HostName defaults to the looked-up name, then tokens expand with the OpenSSH meanings.
Match criteria follow the documented two-walk semantics (ssh_config(5) Match / `final`; paramiko docs: "Match user
... can match against loaded User values", "Added support for the final keyword"): `host` is compared with the
HostName obtained so far (else the looked-up name), `user` with the User obtained so far (else the local user),
`originalhost` with the looked-up name, `localuser` with the local user, `final` holds only on the second walk;
the file is walked twice and the second walk sees everything the first one obtained (after the HostName default).
Where the statement ("first block in file order that applies") and the two-walk order disagree, nothing is asserted:
 * a scalar key for which "first applying block in file order" and "first obtained over the two walks" differ is
   not compared (if it is HostName/User/Port, which feed criteria and tokens, the whole name is only run, not compared);
 * IdentityFile is then compared as a duplicate-free set instead of a list;
 * a `host` criterion whose outcome differs between the raw and the %h-expanded HostName: name only run, not compared.
Oracle: lookup(name) == model for every key (no extra keys); repeated lookups on one object agree;
get_hostnames() == all Host pattern tokens plus the implicit "*" and never raises.

History dimension (round 3): half of the cases feed ONE SSHConfig object incrementally - the config text is cut into
2-3 chunks (a chunk may start with its own global section: every parse() opens a new implicit `Host *` block), the
object is built with SSHConfig() + parse(chunk) per chunk, and between the parse() calls a generated subset of the
names is looked up (and get_hostnames() called). After every parse() the object must answer like the model over all
blocks parsed SO FAR (in order): the intermediate lookups are compared with the model of the prefix, the final ones
(same names, same object) with the model of the whole - parse / lookup / parse / lookup histories.
"""
import getpass
import io
import os
import re
import socket
import traceback

from hypothesis import strategies as st

from vlib import core

PROPERTY = "C40"
LEVEL = "exploration"
RULE = (
    "hypothesis-generated ssh_config texts (<=12 Host/Match blocks over a small host-name/pattern pool so that several "
    "blocks apply, repeated keys, IdentityFile lists, %-tokens, syntactic noise; Match criteria all/final/host/originalhost/"
    "user/localuser whose outcome may depend on HostName/User values set by EARLIER or LATER blocks - two-walk model) each "
    "looked up for 1-4 names and compared key-by-key with an independent first-obtained-value model; non-trivial = for some looked-up name >=2 applicable blocks "
    "define the same key, or a negated pattern/criterion decides applicability, or a %-token is expanded; distinct by SHA-1 "
    "of (config structure, names). Half of the cases are HISTORIES on one SSHConfig object: the text is cut into 2-3 chunks "
    "(optionally starting with their own global section) fed by successive parse() calls, with a generated subset of the names "
    "looked up (and get_hostnames called) between the parse() calls; every answer is compared with the model over the blocks "
    "parsed so far (classes history:*)"
)

NAMES = ["a", "b", "ab", "ba", "a1", "web1", "web2", "db", "a.example.com", "db.example.com", "x.y"]
PATTERNS = NAMES + ["*", "?", "??", "a*", "*b", "a?", "web?", "*.example.com", "*.*", "?b", "w*1", "db*", "*a*", "10.*", "gw-*", "real*"]
UPATTERNS = ["alice", "bob", "root", "carol", "a*", "*b", "?ob", "r*", "*", "b??", "*o*"]
VALUES = {
    "User": ["alice", "bob", "root"],
    "Port": ["22", "2222", "2200"],
    "HostName": ["%h", "%h.example.com", "10.0.0.1", "real.example.com", "gw-%h", "%h.%h", "db.example.com", "web1", "b"],
    "IdentityFile": ["/k/id_%h", "/k/%r@%h", "%d/.ssh/id_rsa", "/k/%u.key", "/k/plain", "/k/other", "/k/%u-%r-%h", "/k/%C", "/k/%l.key"],
    "ProxyCommand": ["ssh -W %h:%p gw", "nc %h %p", "none", "None", "connect -l %r %h %p", "plainproxy"],
    "ControlPath": ["/tmp/cp-%r@%h:%p", "/tmp/%u-%n-%L", "/tmp/%C", "/tmp/%l-%h", "/tmp/static", "/tmp/%n.%h"],
    "ForwardAgent": ["yes", "no"],
    "Compression": ["yes", "no"],
}
# tokens asserted per key (subset of both ssh_config(5) TOKENS and paramiko's TOKENS_BY_CONFIG_KEY docs)
TOKENS = {"hostname": "h", "identityfile": "hrudCl", "proxycommand": "hpr", "controlpath": "hprunLCl"}


# ----------------------------------------------------------------------------- generator


def _casings(word):
    return [word, word.lower(), word.upper(), word.capitalize()]


# Few draws per element (generation cost dominates): one draw picks (key, value), one integer picks the
# whole syntactic style by mixed radix; 0 is the plainest style so that shrunk cases are readable.
_SEP = [" ", "  ", "\t", "=", " = ", "= ", " ="]
_INDENT = ["", "    ", "\t", "  \t "]
_PRE = [None, None, None, "", "# a comment", "   # Host commented-out", "#User nobody", "  "]
_TRAIL = ["", "", " ", "\t"]
_RADIX = (4, len(_SEP), 4, len(_INDENT), len(_PRE), len(_TRAIL))  # casing, sep, quoted(1 in 4), indent, pre, trail
_NSTYLE = 1
for _r in _RADIX:
    _NSTYLE *= _r
_style = st.one_of(st.just(0), st.integers(0, _NSTYLE - 1))


def _digits(n):
    out = []
    for r in _RADIX:
        out.append(n % r)
        n //= r
    return out


def _mk_line(kv, style):
    key, value = kv
    c, s, qd, i, p, t = _digits(style)
    return [_casings(key)[c], _SEP[s], value, qd == 3 and value.lower() != "none", _INDENT[i], _PRE[p], _TRAIL[t]]


def _mk_pat(p, f):
    return [p, f % 4 == 3, f // 4 == 3]  # [pattern, negated, quoted]


_pat = st.builds(_mk_pat, st.sampled_from(PATTERNS), st.integers(0, 15))


def _mk_host(style, pats, lines):
    c, s, _q, i, _p, _t = _digits(style)
    return {"kind": "host", "kw": [_casings("Host")[c], _SEP[s], _INDENT[i]], "pats": pats, "lines": lines}


def _mk_match(style, crit, lines):
    c, s, _q, i, _p, _t = _digits(style)
    return {"kind": "match", "kw": [_casings("Match")[c], [" ", "  ", "\t"][s % 3], _INDENT[i]], "crit": crit, "lines": lines}


def _mk_crit(typ, f, pats):
    return [typ, f % 3 == 2, [[p, g % 4 == 3] for p, g in pats], f >= 3]  # [type, negated, [[pattern, negated]], quoted]


def _blocks(full, with_final=False):
    kv = [(k, v) for k in VALUES for v in VALUES[k]]
    # bias towards the accumulating / token-bearing keys (and, in the full mode, the keys Match criteria depend on)
    kv += [("IdentityFile", v) for v in VALUES["IdentityFile"]] * 2 + [("HostName", v) for v in VALUES["HostName"]]
    if full:
        kv += [("User", v) for v in VALUES["User"]] * 2
    lines = st.lists(st.builds(_mk_line, st.sampled_from(kv), _style), max_size=5)
    host = st.builds(_mk_host, _style, st.lists(_pat, min_size=1, max_size=4), lines)
    hpats = st.lists(st.tuples(st.sampled_from(PATTERNS), st.integers(0, 3)), min_size=1, max_size=3)
    upats = st.lists(st.tuples(st.sampled_from(UPATTERNS), st.integers(0, 3)), min_size=1, max_size=3)
    ocrit = st.builds(_mk_crit, st.just("originalhost"), st.integers(0, 5), hpats)
    if full:
        hcrit = st.builds(_mk_crit, st.just("host"), st.integers(0, 5), hpats)
        ucrit = st.builds(_mk_crit, st.sampled_from(["user", "user", "localuser"]), st.integers(0, 5), upats)
        final = st.just(["final", False, [], False])
        crit = st.one_of(hcrit, hcrit.map(lambda v: v), ucrit, ucrit.map(lambda v: v), ocrit, *([final] if with_final else []))
    else:
        crit = ocrit
    crits = st.one_of(st.just([["all", False, [], False]]), st.lists(crit, min_size=1, max_size=2), st.lists(crit, min_size=1, max_size=3))
    match = st.builds(_mk_match, _style, crits, lines)
    glob = st.builds(lambda ls: {"kind": "global", "lines": ls}, lines)
    rest = st.lists(st.one_of(host, match), max_size=11)
    return st.builds(lambda first, more: [first] + more, st.one_of(host, host, match, glob), rest)


# "Coupled" configs: few blocks over SMALL pools chosen so that Match host/user pattern lists relate to the HostName/User
# VALUES of the same config (not to the looked-up names / the local user): whether a Match block applies is then decided
# by what other blocks - standing earlier or later in the file - have contributed.  One integer per block (mixed radix;
# 0 = `Host a` without lines), so generation is cheap and shrinking works on the block list.
C_NAMES = ["a", "web1", "db", "web2"]
C_HOSTPATS = ["a", "web1", "db", "*", "web?", "a*", "d?"]
C_HOSTNAMES = ["real.example.com", "10.0.0.1", "gw-%h", "%h.example.com", "web1", "db.example.com"]
C_HCRIT = ["real.example.com", "*.example.com", "10.*", "gw-*", "real*", "web1", "db*", "a", "*"]
C_UCRIT = ["alice", "bob", "a*", "*b", "?ob", "b??", "carol", "root", "*o*", "*"]
C_KV = (
    [("User", v) for v in VALUES["User"]]
    + [("HostName", v) for v in C_HOSTNAMES]
    + [("IdentityFile", v) for v in VALUES["IdentityFile"]]
    + [(k, v) for k in ("Port", "ProxyCommand", "ControlPath", "ForwardAgent", "Compression") for v in VALUES[k]]
)
C_KV_PLAIN = [kv for kv in C_KV if kv[0] not in ("User", "HostName", "Port")]
C_TYPES = ["host", "user", "host", "user", "host", "user", "originalhost", "localuser"]
# pattern lists that match a given HostName / User value (the coupling)
C_FOR_HOSTNAME = {
    "real.example.com": ["real.example.com", "*.example.com", "real*"],
    "10.0.0.1": ["10.*", "10.0.0.1", "*.1"],
    "gw-%h": ["gw-*", "gw-*"],
    "%h.example.com": ["*.example.com", "?*.example.com"],
    "web1": ["web1", "web?"],
    "db.example.com": ["db*", "*.example.com", "db.example.com"],
}
C_FOR_USER = {"alice": ["alice", "a*"], "bob": ["bob", "*b", "?ob", "b??"], "root": ["root", "*o*", "r*"]}


def _coupled_block(n, anchor_host, anchor_user, anchor_name):
    def take(k):
        nonlocal n
        n, r = divmod(n, k)
        return r

    def pick(pool):
        return pool[take(len(pool))]

    is_match = take(2)
    # (low digit: hypothesis prefers small integers, the high digits are mostly 0)
    fin = take(6) if is_match else 0
    lines = []
    for _ in range(take(4)):
        c = take(4)
        if fin >= 4:
            # a block bound to the final walk that sets HostName/User/Port suspends the comparison of the whole name (open
            # hostname/user/port): give it the other keys, so that what it contributes - on which walk - is compared
            kv = pick(C_KV_PLAIN)
        else:
            kv = ("HostName", anchor_host) if c == 1 else ("User", anchor_user) if c == 2 else pick(C_KV)
        lines.append(_mk_line(kv, take(_NSTYLE) if take(4) == 3 else 0))
    if not is_match:
        pats = [[anchor_name if take(2) else pick(C_HOSTPATS), take(8) == 7, False] for _ in range(1 + (take(3) == 2))]
        return {"kind": "host", "kw": ["Host", " ", ""], "pats": pats, "lines": lines}
    crit = []
    for _ in range(1 + (take(3) == 2)):
        typ = pick(C_TYPES)
        # tied patterns: matching the value another block may contribute; in a block bound to the final walk: matching
        # the value the criterion falls back to while nothing is obtained yet (looked-up name / local user), so that the
        # criterion holds before and fails after some other block has contributed HostName / User
        if typ in ("user", "localuser"):
            pool, tied = C_UCRIT, ([getpass.getuser()] if fin >= 4 else C_FOR_USER[anchor_user])
        elif typ == "host":
            pool, tied = C_HCRIT, ([anchor_name] if fin >= 4 else C_FOR_HOSTNAME[anchor_host])
        else:
            pool, tied = C_HOSTPATS, [anchor_name]
        pats = [[pick(tied) if take(2) else pick(pool), take(8) == 7] for _ in range(1 + (take(3) == 2))]
        crit.append([typ, take(6) == 5, pats, False])
    # `final` next to a criterion that depends on obtained values: the block may hold on one walk only
    if fin == 4:
        crit.append(["final", False, [], False])
    elif fin == 5:
        crit.insert(0, ["final", False, [], False])
    return {"kind": "match", "kw": ["Match", " ", ""], "crit": crit, "lines": lines}


def _mk_coupled(anchor, ns, names):
    ah = C_HOSTNAMES[anchor % len(C_HOSTNAMES)]
    au = VALUES["User"][(anchor // len(C_HOSTNAMES)) % 3]
    return {"blocks": [_coupled_block(n, ah, au, names[0]) for n in ns], "names": names, "eol": "\n"}


_coupled = st.builds(
    _mk_coupled,
    st.integers(0, 3 * len(C_HOSTNAMES) - 1),
    st.lists(st.integers(0, (1 << 96) - 1), min_size=2, max_size=8),
    st.lists(st.sampled_from(C_NAMES), min_size=1, max_size=2),
)

_names = st.lists(st.one_of(st.sampled_from(NAMES), st.text(alphabet="ab1.x", min_size=1, max_size=5)), min_size=1, max_size=4)
_case = st.builds(
    lambda blocks, names, eol: {"blocks": blocks, "names": names, "eol": eol},
    st.one_of(_blocks(False), _blocks(True), _blocks(True, with_final=True)),
    _names,
    st.sampled_from(["\n", "\n", "\n", "\r\n"]),
)


# Histories on one object: parse(chunk 1), lookups, parse(chunk 2), lookups ...  A chunk boundary is a block
# {"kind": "global", "lines": [...], "lookups": mask} at an index > 0: the text is cut there, the (possibly empty) lines are
# the new chunk's global section, and bit i of mask says that names[i] is looked up on the object before this chunk is parsed.
_KV_ALL = [(k, v) for k in VALUES for v in VALUES[k]]
_glines = st.lists(st.builds(_mk_line, st.sampled_from(_KV_ALL), _style), max_size=2)
_cuts = st.lists(
    st.tuples(st.integers(0, 11), st.one_of(st.just([]), _glines), st.one_of(st.integers(1, 15), st.integers(0, 15))), min_size=1, max_size=2
)


def _mk_history(case, cuts):
    blocks = list(case["blocks"])
    for pos, lines, mask in cuts:
        blocks.insert(1 + pos % len(blocks), {"kind": "global", "lines": lines, "lookups": mask})
    return dict(case, blocks=blocks)


def case_st():
    return st.one_of(_case, _coupled, st.builds(_mk_history, _case, _cuts), st.builds(_mk_history, _coupled, _cuts))


def chunks(case):
    """-> [(first block index, end block index, lookups mask before this chunk)] (one entry = plain single-parse case)."""
    starts = [0] + [i for i, b in enumerate(case["blocks"]) if i > 0 and b["kind"] == "global"]
    ends = starts[1:] + [len(case["blocks"])]
    return [(a, e, case["blocks"][a].get("lookups", 0) if a > 0 else 0) for a, e in zip(starts, ends)]


def render(case, first=0, end=None):
    """Text of blocks[first:end] (default: everything - for a multi-chunk case that is NOT what one parse() sees)."""

    def q(s, quoted):
        return '"%s"' % s if quoted else s

    out = []
    for b in case["blocks"][first:end]:
        if b["kind"] == "host":
            kw, sep, ind = b["kw"]
            out.append(ind + kw + sep + " ".join(q(("!" if neg else "") + p, quoted) for p, neg, quoted in b["pats"]))
        elif b["kind"] == "match":
            kw, sep, ind = b["kw"]
            words = []
            for typ, neg, pats, quoted in b["crit"]:
                words.append(("!" if neg else "") + typ)
                if typ not in ("all", "final"):
                    words.append(q(",".join(("!" if pneg else "") + p for p, pneg in pats), quoted))
            out.append(ind + kw + sep + " ".join(words))
        for key, sep, value, quoted, ind, pre, trail in b["lines"]:
            if pre is not None:
                out.append(pre)
            out.append(ind + key + sep + q(value, quoted) + trail)
    return case["eol"].join(out) + case["eol"] if out else ""


# ----------------------------------------------------------------------------- reference model


def _glob(p, s):
    """'*' = any run of characters, '?' = exactly one (ssh_config(5) PATTERNS)."""
    pi = si = 0
    star, mark = None, 0
    while si < len(s):
        if pi < len(p) and p[pi] == "*":
            star, mark = pi, si
            pi += 1
        elif pi < len(p) and (p[pi] == "?" or p[pi] == s[si]):
            pi, si = pi + 1, si + 1
        elif star is not None:
            mark += 1
            pi, si = star + 1, mark
        else:
            return False
    return all(c == "*" for c in p[pi:])


def _patlist(pats, name):
    """pats: [(pattern, negated)] -> (applies, decided_by_negation)."""
    pos = any(_glob(p, name) for p, neg in pats if not neg)
    veto = any(_glob(p, name) for p, neg in pats if neg)
    return (pos and not veto), (pos and veto)


def _block_applies(b, name, opts, final, info):
    """Does block b apply now?  opts = options obtained so far (raw)."""
    if b["kind"] == "global":
        return True
    if b["kind"] == "host":
        ok, nd = _patlist([(p, neg) for p, neg, _ in b["pats"]], name)
        info["neg"] = info["neg"] or nd
        return ok
    local = getpass.getuser()
    ok = True
    for typ, neg, pats, _ in b["crit"]:
        if typ == "all":
            continue
        if typ == "final":
            info["final-kw"] = True
            ok = ok and final
            continue
        pl = [(p, pneg) for p, pneg in pats]
        if typ == "host":
            raw = opts.get("hostname") or name
            m, _nd = _patlist(pl, raw)
            if "%" in raw:
                m2, _ = _patlist(pl, raw.replace("%h", name))
                if m2 != m:
                    info["host-vs-token"] = True  # raw or expanded HostName? not defined: the name is not compared
            if m != _patlist(pl, name)[0]:
                info["crit-on-obtained"] = True
        elif typ == "originalhost":
            m, _nd = _patlist(pl, name)
        elif typ == "user":
            m, _nd = _patlist(pl, opts.get("user") or local)
            if m != _patlist(pl, local)[0]:
                info["crit-on-obtained"] = True
        elif typ == "localuser":
            m, _nd = _patlist(pl, local)
        else:
            raise AssertionError(typ)
        info["neg"] = info["neg"] or neg or _nd
        ok = ok and (m != neg)
    return ok


def _obtain(opts, b):
    """First obtained value per key; IdentityFile accumulates without duplicates. -> did opts change?"""
    changed = False
    for line in b["lines"]:
        key, value = line[0].lower(), line[2]
        if key == "identityfile":
            lst = opts.setdefault(key, [])
            if value not in lst:
                lst.append(value)
                changed = True
        elif key not in opts:
            opts[key] = None if (key == "proxycommand" and value.lower() == "none") else value
            changed = True
    return changed


def model_lookup(case, name):
    """-> (raw options before token expansion, info for the non-trivial rule / the not-asserted keys)."""
    info = {"neg": False, "final-kw": False, "host-vs-token": False, "crit-on-obtained": False, "final-only": False, "final-adds": False}
    opts, applied = {}, {}
    for walk in (1, 2):
        for i, b in enumerate(case["blocks"]):
            if not _block_applies(b, name, opts, walk == 2, info):
                continue
            changed = _obtain(opts, b)
            if i not in applied:
                applied[i] = walk
                if walk == 2:
                    info["final-only"] = True
                    info["final-adds"] = info["final-adds"] or changed
        opts.setdefault("hostname", name)
    # the statement's reading: the blocks that applied, in FILE order
    stmt, ndefs, idf_blocks = {}, {}, []
    for i in sorted(applied):
        b = case["blocks"][i]
        _obtain(stmt, b)
        idf_blocks.append([line[2] for line in b["lines"] if line[0].lower() == "identityfile"])
        for key in set(line[0].lower() for line in b["lines"]):
            ndefs[key] = ndefs.get(key, 0) + 1
    stmt.setdefault("hostname", name)
    assert set(stmt) == set(opts)
    open_keys = sorted(k for k in opts if k != "identityfile" and opts[k] != stmt[k])
    info["open-keys"] = open_keys
    info["idf-unordered"] = opts.get("identityfile") != stmt.get("identityfile")
    info["skip-name"] = info["host-vs-token"] or bool(set(open_keys) & {"hostname", "user", "port"})
    # what the known defect "duplicates inside the first defining block are kept" would produce (bucket diagnosis only)
    idf_blocks = [x for x in idf_blocks if x]
    dup_first = list(idf_blocks[0]) if idf_blocks else []
    for blk in idf_blocks[1:]:
        for v in blk:
            if v not in dup_first:
                dup_first.append(v)
    info["multi"] = any(v >= 2 for v in ndefs.values())
    info["idf_dup_first"] = dup_first
    return opts, info


def _env(opts, name, hostname_expanded=True):
    local = getpass.getuser()
    host = opts["hostname"].replace("%h", name) if hostname_expanded else opts["hostname"]
    return {
        "h": host,
        "p": opts.get("port", "22"),
        "r": opts.get("user", local),
        "u": local,
        "n": name,
        "d": os.path.expanduser("~"),
        "L": socket.gethostname().split(".")[0],
        "_user": opts.get("user"),
    }


def _pattern(key, value, env, name):
    """Regex that the expanded value must fullmatch."""
    allowed = TOKENS.get(key, "")
    out, i = [], 0
    while i < len(value):
        c = value[i : i + 2]
        if len(c) == 2 and c[0] == "%" and c[1] in allowed:
            t = c[1]
            if key == "hostname":
                out.append(re.escape(name))
            elif t == "C":
                out.append("[0-9a-f]{40}")  # resolver/implementation dependent: only "no literal token left"
            elif t == "l":
                out.append("[A-Za-z0-9._-]+")
            elif t == "u" and env["_user"] is not None:
                # ssh_config(5): local user; paramiko docs: "configured User value, or the local user" -> accept both
                out.append("(?:%s|%s)" % (re.escape(env["u"]), re.escape(env["_user"])))
            else:
                out.append(re.escape(env[t]))
            i += 2
        else:
            out.append(re.escape(value[i]))
            i += 1
    return "".join(out)


def _matches(key, raw, got, env, name):
    return isinstance(got, str) and re.fullmatch(_pattern(key, raw, env, name), got, re.S) is not None


def _match_unordered(key, want, have, env, name):
    """Is there a one-to-one assignment of the expected raw values to the returned values? (lists are short)"""
    if not want:
        return not have
    w = want[0]
    for i, h in enumerate(have):
        if _matches(key, w, h, env, name) and _match_unordered(key, want[1:], have[:i] + have[i + 1 :], env, name):
            return True
    return False


# ----------------------------------------------------------------------------- oracle


def exc_bucket(exc):
    root = os.path.join(os.path.realpath(core.repo_path()), "paramiko") + os.sep
    where = "outside-paramiko"
    for fs in traceback.extract_tb(exc.__traceback__):
        fn = os.path.realpath(fs.filename)
        if fn.startswith(root):
            where = "%s:%s" % (fn[len(root) :], fs.name)
    return "%s@%s" % (type(exc).__name__, where)


def _check_lookup(ctx, case, text, name, got, opts, info, fresh=None):
    """fresh (histories only): callable -> lookup(name) of a NEW object given the same parse() calls and nothing else; when
    that differs from `got`, the answer depends on what was done with the object before: bucket suffix @history."""
    hist = []

    def suffix():
        if fresh is None:
            return ""
        if not hist:
            try:
                hist.append("@history-on-the-object" if fresh() != got else "")
            except Exception:
                hist.append("")
        return hist[0]

    env = _env(opts, name)
    env_raw = _env(opts, name, hostname_expanded=False)
    for key in sorted(set(opts) | set(got)):
        if key not in got:
            ctx.violation("lookup-keys", "missing:%s%s" % (key, suffix()), case, "name=%r model has %s=%r, lookup has no such key\n%s" % (name, key, opts[key], text))
            continue
        if key not in opts:
            ctx.violation("lookup-keys", "extra:%s%s" % (key, suffix()), case, "name=%r lookup has %s=%r, no applicable block sets it\n%s" % (name, key, got[key], text))
            continue
        if key in info["open-keys"]:
            continue  # file order and two-walk order disagree on this key: not defined, not compared
        want, have = opts[key], got[key]
        if want is None:
            ok = have is None
        elif isinstance(want, list) and info["idf-unordered"]:
            ok = isinstance(have, list) and len(have) == len(want) and _match_unordered(key, want, have, env, name)
        elif isinstance(want, list):
            ok = isinstance(have, list) and len(have) == len(want) and all(_matches(key, w, h, env, name) for w, h in zip(want, have))
        else:
            ok = _matches(key, want, have, env, name)
        if ok:
            continue
        # root-cause buckets
        wl = want if isinstance(want, list) else [want]
        hl = have if isinstance(have, list) else [have]
        bucket = "%s:differs" % key
        if key == "proxycommand" and have is None and want is not None:
            bucket = "proxycommand-none-overrides-first-value"
        elif want is not None and isinstance(have, type(want)):
            if env_raw["h"] != env["h"] and len(wl) == len(hl) and all(_matches(key, w, h, env_raw, name) for w, h in zip(wl, hl)):
                bucket = "h-token-uses-unexpanded-hostname"
            elif isinstance(want, list) and len(hl) > len(wl):
                wd = info["idf_dup_first"]
                if len(wd) == len(hl) and any(all(_matches(key, w, h, e, name) for w, h in zip(wd, hl)) for e in (env, env_raw)):
                    bucket = "identityfile-duplicate-within-block"
        ctx.violation(
            "lookup-value",
            bucket + suffix(),
            case,
            "lookup(%r)[%r] = %r; model (first obtained value, tokens expanded): raw %r with %%h=%r %%p=%r %%r=%r %%u=%r %%n=%r\n%s"
            % (name, key, have, want, env["h"], env["p"], env["r"], env["u"], env["n"], text),
        )


def _history_text(case, parts, upto):
    """The chunks fed so far, for violation details."""
    out = []
    for ci, (a, e, mask) in enumerate(parts[:upto]):
        if len(parts) > 1:
            looked = [n for i, n in enumerate(case["names"]) if mask >> i & 1]
            out.append("---- %sparse() of chunk %d:" % ("lookups %r, then " % looked if ci else "SSHConfig(), ", ci + 1))
        out.append(render(case, a, e))
    return "\n".join(out)


def _check_hostnames(ctx, case, conf, blocks, text):
    want_hosts = {"*"} | {("!" if neg else "") + p for b in blocks if b["kind"] == "host" for p, neg, _ in b["pats"]}
    try:
        hosts = conf.get_hostnames()
    except Exception as e:
        ctx.violation("get_hostnames-raises", exc_bucket(e), case, "%r\n%s" % (e, text))
    else:
        if set(hosts) != want_hosts:
            ctx.violation("get_hostnames", "wrong-set", case, "got %r want %r\n%s" % (sorted(hosts), sorted(want_hosts), text))


def execute(ctx, case):
    from paramiko.config import SSHConfig

    parts = chunks(case)
    text = _history_text(case, parts, len(parts))
    models = [model_lookup(case, n) for n in case["names"]]
    tokens = any("%" in (v if isinstance(v, str) else " ".join(v)) for o, _ in models for v in o.values() if v is not None)
    classes = set(b["kind"] for b in case["blocks"])
    if any(i["multi"] for _, i in models):
        classes.add("first-value-decides")
    if any(i["neg"] for _, i in models):
        classes.add("negation-decides")
    if tokens:
        classes.add("token-expanded")
    if any(o.get("proxycommand", "") is None for o, _ in models):
        classes.add("proxycommand-none")
    if any(len(o.get("identityfile", [])) >= 2 for o, _ in models):
        classes.add("identityfile-accumulates")
    for b in case["blocks"]:
        if b["kind"] == "match":
            classes.update("match-" + c[0] for c in b["crit"])
    for _, i in models:
        if i["crit-on-obtained"]:
            classes.add("criterion-decided-by-obtained-hostname-or-user")
        if i["final-only"]:
            classes.add("block-applies-on-final-walk-only")
        if i["final-adds"] and not i["skip-name"]:
            classes.add("final-walk-only-block-contributes")
            if not i["final-kw"]:
                classes.add("final-walk-only-block-contributes:value-from-later-block")
        if i["skip-name"]:
            classes.add("not-compared:host-criterion-vs-token" if i["host-vs-token"] else "not-compared:open-hostname-user-port")
        elif i["open-keys"]:
            classes.add("open-key-not-compared")
        if i["idf-unordered"] and not i["skip-name"]:
            classes.add("identityfile-compared-as-set")
    # the history: which names are looked up after which parse(), and the model over the blocks parsed by then
    mids = []  # (chunk index, name, (opts, info) over the prefix)
    if len(parts) > 1:
        classes.add("history:%d-parse-calls-on-one-object" % len(parts))
        if any(e > a and case["blocks"][a]["lines"] for a, e, _ in parts[1:]):
            classes.add("history:later-chunk-with-own-global-section")
        for ci, (a, e, mask) in enumerate(parts):
            if ci == 0:
                continue
            prefix = {"blocks": case["blocks"][:a]}
            for ni, name in enumerate(case["names"]):
                if mask >> ni & 1:
                    mids.append((ci, name, model_lookup(prefix, name)))
        if mids:
            classes.add("history:parse-lookup-parse-lookup")
        else:
            classes.add("history:parse-parse-lookup")
        for ci, name, (popts, _pi) in mids:
            fopts = models[case["names"].index(name)][0]
            if popts != fopts:
                classes.add("history:later-parse-changes-answer-for-a-name-looked-up-before")
    nontrivial = bool(classes & {"first-value-decides", "negation-decides", "token-expanded", "final-walk-only-block-contributes"})
    ctx.case(case, nontrivial, sorted(classes))

    def fresh_lookup(nchunks, name):
        other = SSHConfig()
        for a, e, _ in parts[:nchunks]:
            other.parse(io.StringIO(render(case, a, e)))
        return dict(other.lookup(name))

    if len(parts) == 1:
        try:
            conf = SSHConfig.from_text(text)
        except Exception as e:
            ctx.violation("parse-raises", exc_bucket(e), case, "%r\n%s" % (e, text))
            return
    else:
        conf = SSHConfig()
        for ci, (a, e, mask) in enumerate(parts):
            if ci > 0:
                sofar = _history_text(case, parts, ci)
                _check_hostnames(ctx, case, conf, case["blocks"][:a], sofar)
                for mci, name, (opts, info) in mids:
                    if mci != ci:
                        continue
                    try:
                        got = conf.lookup(name)
                    except Exception as ex:
                        ctx.violation("lookup-raises", exc_bucket(ex), case, "lookup(%r) after %d parse() calls: %r\n%s" % (name, ci, ex, sofar))
                        return
                    if not info["skip-name"]:
                        _check_lookup(ctx, case, sofar, name, dict(got), opts, info, fresh=lambda: fresh_lookup(ci, name))
            try:
                conf.parse(io.StringIO(render(case, a, e)))
            except Exception as ex:
                ctx.violation("parse-raises", exc_bucket(ex), case, "parse() call %d: %r\n%s" % (ci + 1, ex, text))
                return
    # get_hostnames
    _check_hostnames(ctx, case, conf, case["blocks"], text)
    # lookups (all on the same object; the first name is looked up once more at the end)
    results = []
    for name, (opts, info) in zip(case["names"] + case["names"][:1], models + models[:1]):
        try:
            got = conf.lookup(name)
        except Exception as e:
            ctx.violation("lookup-raises", exc_bucket(e), case, "lookup(%r): %r\n%s" % (name, e, text))
            return
        results.append(dict(got))
        if len(results) <= len(case["names"]) and not info["skip-name"]:
            _check_lookup(ctx, case, text, name, dict(got), opts, info, fresh=(lambda: fresh_lookup(len(parts), name)) if len(parts) > 1 else None)
    if results[-1] != results[0]:
        ctx.violation("lookup-repeat", "result-changes-on-repeated-lookup", case, "first %r\nagain %r\n%s" % (results[0], results[-1], text))


def run(ctx):
    ctx.set_budget(60, 800)
    ctx.assume("local user, home directory and short local host name are taken from getpass/os.path/socket (as documented for %u %d %L)")
    ctx.assume("%C and %l are only checked for 'token replaced by a hash / host name', their values depend on the resolver")
    ctx.assume("%u with a configured User: both the local user (ssh_config(5)) and the configured User (paramiko docs) are accepted")
    ctx.explore(case_st(), lambda c: execute(ctx, c), ctx.scale(2500, 40000))


def replay(ctx, case):
    execute(ctx, case)
