"""C19 - channel senders never exceed the peer's window / maximum packet size; a receiver never
grants more window than its application consumed.

Engine E3: one production transport (client or server role) against a raw-mode puppet peer on the
in-memory link. The puppet never answers by itself: the harness decides which window/packet sizes
the channel gets, when WINDOW_ADJUSTs are sent, and what data arrives.

Family "snd" (tested side sends): the puppet grants (window, max_packet) drawn from
{0, 1, 4095, 4096, 4097, 32768, 2^20, 2^32-1}^2 in OPEN_CONFIRMATION (client role) or CHANNEL_OPEN
(server role); 1-4 application threads call send / send_stderr / sendall / sendall_stderr with
sizes 0..200 KiB in blocking, timeout and non-blocking mode; the harness sends WINDOW_ADJUSTs
(0, 1, small, medium, exact-fit, 2^32-1) either when the tested side has gone quiet (all senders
blocked: the sharpest moment) or immediately (racing the senders).
Oracle = history invariant over the puppet's ordered log of everything the tested side sent. For every
prefix: sum(CHANNEL_DATA + EXTENDED_DATA bytes of the channel) <= initial window + sum of the adjusts the
harness had *sent before that log entry was recorded* (L_j = log length read just before adjust j was
sent; an entry with index >= L_j may already profit from it - lenient, never the other way round);
every data string <= peer max packet when that is >= 4096.

Family "rcv" (tested side receives): the puppet sends CHANNEL_DATA / EXTENDED_DATA(1) within the window
and packet size the tested side advertised; the application (harness main thread, one call at a time)
calls recv / recv_stderr with generated sizes. After every step a sentinel round trip makes the log
complete. Oracle at every step: sum(WINDOW_ADJUST sent by the tested side) <= bytes returned to the
application so far. Client role also: the CHANNEL_OPEN advertises exactly the clamped request
(window into [32768, 2^32-1], packet into [4096, 2^32-1]).
"""
import socket
import threading

from hypothesis import strategies as st

from vlib import peers
from vlib import refssh as R

PROPERTY = "C19"
LEVEL = "exploration"
RULE = (
    "E3 puppet. snd: role x (window, max_packet) from {0,1,4095,4096,4097,32768,2^20,2^32-1}^2 x 1-4 sender threads (send/send_stderr/"
    "sendall/sendall_stderr, 0..200 KiB, blocking/timeout/non-blocking) x WINDOW_ADJUST plan (0,1,small,medium,2^32-1; at quiescence or "
    "racing); rcv: role x requested/advertised window and packet sizes across the clamp boundaries x generated interleaving of puppet "
    "data/extended data (within the advertised window) and application recv/recv_stderr sizes; non-trivial = snd: offered bytes > "
    "initial window (a sender had to wait for an adjust) or >= 2 sender threads; rcv: at least one WINDOW_ADJUST was observed; "
    "distinct by the whole case"
)

TO = 20.0
SENTINEL_TYPE = 193
SIZES = [0, 1, 4095, 4096, 4097, 32768, 1 << 20, 0xFFFFFFFF]
MIN_W, MAX_W, MIN_P = 32768, 0xFFFFFFFF, 4096


def clamp(lo, v, hi):
    return max(lo, min(v, hi))


class Env:
    """One session: tested transport + puppet; one channel opened with the given sizes."""

    def __init__(self, role, tested_kw=None):
        self.role = role
        if role == "client":
            self.link, tc, ts, _ = peers.connected_pair(client_cls=peers.VTransport, server_cls=peers.Puppet, client_kw=tested_kw)
            self.tested, self.puppet = tc, ts
        else:
            self.link, tc, ts, _ = peers.connected_pair(client_cls=peers.Puppet, server_cls=peers.VTransport, server_kw=tested_kw)
            self.tested, self.puppet = ts, tc
        self.puppet.raw()
        self.seen = 0
        self.pid = 77
        self.chan = None
        self.tid = None  # tested side's channel id
        self.adv = None  # (window, maxpkt) advertised by the tested side

    def close(self):
        self.chan = None
        peers.shutdown(self.tested, self.puppet)

    def wait_entry(self, pred, what):
        start = self.seen

        def got(lg):
            for i in range(start, len(lg)):
                if pred(lg[i]):
                    return i + 1
            return None

        r = self.puppet.wait_log(got, timeout=TO)
        if not r:
            raise peers.core.HarnessError("C19 harness: tested side never sent %s" % what)
        return self.puppet.log[r - 1]

    def open(self, window, maxpkt, req_window=None, req_maxpkt=None):
        """window/maxpkt: what the puppet grants. req_*: what the tested client asks for itself."""
        if self.role == "client":
            res = {}

            def op():
                try:
                    res["c"] = self.tested.open_session(window_size=req_window, max_packet_size=req_maxpkt, timeout=TO)
                except Exception as e:
                    res["e"] = e

            th = threading.Thread(target=op, daemon=True)
            th.start()
            e = self.wait_entry(lambda e: e[1] == 90, "CHANNEL_OPEN")
            rd = R.Reader(e[2])
            rd.string()
            self.tid = rd.u32()
            self.adv = (rd.u32(), rd.u32())
            self.puppet.send_raw_seq(peers.m_channel_open_confirm(self.tid, self.pid, window, maxpkt))
            th.join(TO)
            if "c" not in res:
                raise peers.core.HarnessError("C19 harness: open_session failed %r" % (res.get("e"),))
            self.chan = res["c"]
        else:
            self.puppet.send_raw_seq(peers.m_channel_open(b"session", self.pid, window, maxpkt))
            e = self.wait_entry(lambda e: e[1] in (91, 92), "OPEN_CONFIRMATION")
            if e[1] != 91:
                raise peers.core.HarnessError("C19 harness: server refused the session channel")
            rd = R.Reader(e[2])
            rd.u32()
            self.tid = rd.u32()
            self.adv = (rd.u32(), rd.u32())
            self.chan = self.tested.accept(TO)
            if self.chan is None:
                raise peers.core.HarnessError("C19 harness: accept() returned nothing")
        self.sync()

    def sync(self):
        """Sentinel round trip; returns log entries since the previous sync."""
        s = self.puppet.send_raw_seq(bytes([SENTINEL_TYPE]) + b"verif")
        echo = R.u32(s)
        start = self.seen

        def got(lg):
            for i in range(start, len(lg)):
                if lg[i][1] == 3 and lg[i][2] == echo:
                    return i + 1
            return None

        r = self.puppet.wait_log(got, timeout=TO)
        if not r:
            raise peers.core.HarnessError("C19 harness: no sentinel echo (tested active=%s, exc=%r)" % (self.tested.is_active(), self.tested.get_exception()))
        new = list(self.puppet.log)[start : r - 1]
        self.seen = r
        return new


# ----------------------------------------------------------------------------- snd family


def run_snd(ctx, case):
    role, W, P = case["role"], case["window"], case["maxpkt"]
    threads_ops = case["threads"]
    offered = sum(op[1] for ops in threads_ops for op in ops)
    nontrivial = offered > W or len(threads_ops) >= 2
    classes = ["snd:" + role, "snd:threads=%d" % len(threads_ops), "snd:window=%d" % W, "snd:maxpkt=%d" % P]
    env = Env(role)
    try:
        env.open(W, P)
        chan = env.chan
        errors = []
        payload = bytes(range(256)) * 801  # > 200 KiB

        def worker(ops):
            for kind, size, mode in ops:
                try:
                    chan.settimeout({"block": None, "timeout": 0.05, "nonblock": 0.0}[mode])
                    getattr(chan, kind)(payload[:size])
                except socket.timeout:
                    pass
                except Exception as e:  # nothing else is expected on an open channel
                    errors.append(repr(e))
                    return

        ths = [threading.Thread(target=worker, args=(ops,), daemon=True) for ops in threads_ops]
        for t in ths:
            t.start()
        marks = []  # (log length before the adjust was sent, amount)
        for amount, when in case["adjusts"]:
            if when == "idle":
                env.link.wait_quiescent(timeout=2.0)
            L = len(env.puppet.log)
            marks.append((L, amount))
            env.puppet.send_raw_seq(peers.m_window_adjust(env.tid, amount))
        # release whatever is still blocked: grant everything that was offered (+1: send(b"") waits for a
        # non-zero window as well)
        env.link.wait_quiescent(timeout=2.0)
        marks.append((len(env.puppet.log), offered + 1))
        env.puppet.send_raw_seq(peers.m_window_adjust(env.tid, offered + 1))
        # blocking-mode senders end once the window is there; a thread may have set a short timeout on the
        # shared channel object meanwhile, which only makes somebody give up earlier
        for t in ths:
            t.join(TO)
        if any(t.is_alive() for t in ths):
            # not this property (C20 is about progress); make sure nothing outlives the case
            chan.close()
            for t in ths:
                t.join(TO)
            ctx.inconc("snd:sender-still-blocked-after-full-grant")
        if errors:
            raise peers.core.HarnessError("C19 harness: sender raised %r" % errors[:3])
        env.sync()
        log = list(env.puppet.log)
        ctx.case(case, nontrivial, classes + (["snd:had-to-wait"] if offered > W else []))
        cum = 0
        mi = 0
        allowed = W
        waited = False
        for i, (seq, ptype, body) in enumerate(log):
            while mi < len(marks) and marks[mi][0] <= i:
                allowed += marks[mi][1]
                mi += 1
            if ptype not in (94, 95) or body[:4] != R.u32(env.pid):
                continue
            rd = R.Reader(body)
            rd.u32()
            if ptype == 95:
                rd.u32()
            n = len(rd.string())
            cum += n
            if P >= MIN_P and n > P:
                ctx.violation("max-packet-respected", "%s:%s" % (role, "data" if ptype == 94 else "ext"), case, "data string of %d bytes, peer max packet %d (log index %d)" % (n, P, i))
                return
            if cum > allowed:
                ctx.violation(
                    "window-respected",
                    "%s:threads=%s" % (role, "1" if len(threads_ops) == 1 else ">1"),
                    case,
                    "log index %d: %d data bytes sent so far, window granted so far %d (initial %d + adjusts %r)" % (i, cum, allowed, W, marks[:mi]),
                )
                return
            if cum > W:
                waited = True
        if waited:
            ctx.count("snd:used-adjusted-window")
    finally:
        env.close()


# ----------------------------------------------------------------------------- rcv family


def run_rcv(ctx, case):
    role = case["role"]
    kw = {}
    if case.get("dws") is not None:
        kw["default_window_size"] = case["dws"]
    if case.get("dmp") is not None:
        kw["default_max_packet_size"] = case["dmp"]
    env = Env(role, kw or None)
    classes = ["rcv:" + role]
    try:
        env.open(1 << 20, 32768, case.get("req_w"), case.get("req_p"))
        chan = env.chan
        adv_w, adv_p = env.adv
        if role == "client":
            want_w = clamp(MIN_W, case["req_w"] if case.get("req_w") is not None else case.get("dws", 2097152) or 2097152, MAX_W)
            want_p = clamp(MIN_P, case["req_p"] if case.get("req_p") is not None else case.get("dmp", 32768) or 32768, MAX_W)
            if (adv_w, adv_p) != (want_w, want_p):
                ctx.case(case, False, classes)
                ctx.violation("advertised-equals-clamped-request", "client", case, "advertised window/packet %r, clamped request %r" % ((adv_w, adv_p), (want_w, want_p)))
                return
        chan.settimeout(0.0)
        credit = adv_w
        sent = 0
        consumed = 0
        granted = 0
        n_adjust = 0
        payload = bytes(range(256)) * 200
        steps = []
        for op in case["ops"]:
            kind, n = op
            if kind in ("data", "ext"):
                n = min(n, credit)
                while n > 0:
                    k = min(n, adv_p, len(payload))
                    if kind == "data":
                        env.puppet.send_raw_seq(peers.m_channel_data(env.tid, payload[:k]))
                    else:
                        env.puppet.send_raw_seq(peers.m_channel_ext_data(env.tid, 1, payload[:k]))
                    n -= k
                    credit -= k
                    sent += k
            else:
                f = chan.recv if kind == "recv" else chan.recv_stderr
                ready = chan.recv_ready() if kind == "recv" else chan.recv_stderr_ready()
                if ready:
                    consumed += len(f(n))
            new = env.sync()
            for seq, ptype, body in new:
                if ptype == 93 and body[:4] == R.u32(env.pid):
                    a = R.Reader(body[4:]).u32()
                    granted += a
                    credit += a
                    n_adjust += 1
            steps.append((kind, n, sent, consumed, granted))
            if granted > consumed:
                ctx.case(case, True, classes)
                ctx.violation(
                    "grant-at-most-consumed",
                    "%s:after-%s" % (role, "arrival" if kind in ("data", "ext") else "read"),
                    case,
                    "window granted %d > consumed %d (sent %d); last steps (op, n, sent, consumed, granted): %r" % (granted, consumed, sent, steps[-4:]),
                )
                return
        ctx.case(case, n_adjust >= 1, classes + (["rcv:adjust-observed"] if n_adjust else []) + ["rcv:adv-window=%d" % adv_w])
    finally:
        env.close()


# ----------------------------------------------------------------------------- strategies

send_sizes = st.one_of(st.sampled_from([0, 1, 100, 4032, 4096, 4097, 32704, 32768, 32769, 204800]), st.integers(0, 204800))
send_op = st.tuples(st.sampled_from(["send", "send_stderr", "sendall", "sendall_stderr"]), send_sizes, st.sampled_from(["block", "block", "timeout", "nonblock"]))
adjust = st.tuples(
    st.one_of(st.sampled_from([0, 1, 63, 64, 65, 4095, 4096, 32768, 0xFFFFFFFF]), st.integers(0, 5000), st.integers(0, 150000)),
    st.sampled_from(["idle", "idle", "now"]),
)
snd_case = st.fixed_dictionaries(
    {
        "fam": st.just("snd"),
        "role": st.sampled_from(["client", "server"]),
        "window": st.sampled_from(SIZES),
        "maxpkt": st.sampled_from(SIZES),
        "threads": st.lists(st.lists(send_op, min_size=1, max_size=5), min_size=1, max_size=4),
        "adjusts": st.lists(adjust, max_size=8),
    }
)

req_sizes_w = st.one_of(st.none(), st.sampled_from([0, 1, 32767, 32768, 32769, 40000, 65536, 100000, 2097152, 0xFFFFFFFF, 0x100000000, 1 << 40]))
req_sizes_p = st.one_of(st.none(), st.sampled_from([0, 1, 4095, 4096, 4097, 32768, 65536, 0xFFFFFFFF, 0x100000000]))
rcv_op = st.one_of(
    st.tuples(st.sampled_from(["data", "data", "ext"]), st.one_of(st.sampled_from([1, 3276, 3277, 4096, 32768, 40000]), st.integers(1, 40000))),
    st.tuples(st.sampled_from(["recv", "recv", "recv_stderr"]), st.sampled_from([1, 100, 3276, 3277, 5000, 40000, 1 << 20])),
)
rcv_case = st.one_of(
    st.fixed_dictionaries(
        {
            "fam": st.just("rcv"),
            "role": st.just("client"),
            "req_w": req_sizes_w,
            "req_p": req_sizes_p,
            "dws": st.sampled_from([None, 32768, 32768, 65537, 2097152]),
            "dmp": st.sampled_from([None, None, 4096, 32768]),
            "ops": st.lists(rcv_op, min_size=2, max_size=60),
        }
    ),
    st.fixed_dictionaries(
        {
            "fam": st.just("rcv"),
            "role": st.just("server"),
            "dws": st.sampled_from([32768, 32768, 32769, 65536, 65536, 100000, 2097152, 0xFFFFFFFF]),
            "dmp": st.sampled_from([4096, 4097, 32768, 65536, 0xFFFFFFFF]),
            "ops": st.lists(rcv_op, min_size=2, max_size=60),
        }
    ),
)


def body(ctx, case):
    if case["fam"] == "snd":
        run_snd(ctx, case)
    else:
        run_rcv(ctx, case)


def run(ctx):
    ctx.set_budget(75, 800)
    ctx.assume("window/packet sizes are uint32 on the wire; transport-wide defaults are taken from the documented range (>= 32768 / >= 4096) because the server side advertises them unclamped")
    ctx.explore(snd_case, lambda c: body(ctx, c), ctx.scale(220, 2200), shrink=False)
    ctx.explore(rcv_case, lambda c: body(ctx, c), ctx.scale(200, 1800), shrink=False, seed_offset=1)


def replay(ctx, case):
    if case.get("fam") == "snd":
        case = dict(case)
        case["threads"] = [[tuple(op) for op in ops] for ops in case["threads"]]
        case["adjusts"] = [tuple(a) for a in case["adjusts"]]
    body(ctx, case)
