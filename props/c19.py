"""C19 - channel senders never exceed the peer's window / maximum packet size; a receiver never
grants more window than its application consumed.

Engine E3: one production transport (client or server role) against a raw-mode puppet peer on the
in-memory link. The puppet never answers by itself: the harness decides which window/packet sizes
the channel gets, when WINDOW_ADJUSTs are sent, and what data arrives.

Family "snd" (tested side sends): the puppet grants (window, max_packet) drawn from
{0, 1, 4095, 4096, 4097, 32768, 2^20, 2^32-1}^2 in OPEN_CONFIRMATION (client role) or CHANNEL_OPEN
(server role); 1-4 application threads call send / send_stderr / sendall / sendall_stderr with
sizes 0..200 KiB in blocking, timeout and non-blocking mode; the harness sends WINDOW_ADJUSTs
(0, 1, small, medium, exact-fit, 2^32-1) either when the tested side has gone quiet (all senders
blocked: the sharpest moment) or immediately (racing the senders).
Oracle = history invariant over the puppet's ordered log of everything the tested side sent. For every
prefix: sum(CHANNEL_DATA + EXTENDED_DATA bytes of the channel) <= initial window + sum of the adjusts the
harness had *sent before that log entry was recorded* (L_j = log length read just before adjust j was
sent; an entry with index >= L_j may already profit from it - lenient, never the other way round);
every data string <= peer max packet when that is >= 4096.

Family "rcv" (tested side receives): the puppet sends CHANNEL_DATA / EXTENDED_DATA(1) and EXTENDED_DATA with other type
codes (0, 2..6, 2^32-1: not delivered to any application, hence consumed exactly once, on arrival) within the window
and packet size the tested side advertised; the application (harness main thread, one call at a time)
calls recv / recv_stderr with generated sizes and set_combine_stderr(True / False) at generated moments (stderr data of
any amount - below, around and above the window//10 grant threshold - may sit unread in the buffer at that moment:
moving it into the stdout buffer is not consumption). After every step a sentinel round trip makes the log
complete. Oracle at every step: sum(WINDOW_ADJUST sent by the tested side) <= min(bytes returned to the
application so far, bytes the peer sent on the readable streams) + bytes of discarded extended-data types (reading
bytes the peer never sent on a readable stream is not consumption of window). Client role also: the CHANNEL_OPEN advertises exactly the clamped request
(window into [32768, 2^32-1], packet into [4096, 2^32-1]).

Channel numbering (round 3): the two ends of a channel number it independently (RFC 4254 "sender channel" / "recipient
channel").  snd: the puppet's own number for the channel is drawn from {77, 0, 1, 2, 2^32-1} (equal to / different from the tested
side's number 0); a data message naming any other number than the puppet's is data for which no window was ever granted.  rcv: one
session carries 1-3 channels open at the same time; the puppet's numbers for them are equal to the tested side's (0, 1, 2), a
permutation of them (the puppet's number of one channel is the tested side's own number of ANOTHER open channel), overlapping or
disjoint; every step acts on one of the channels.  Grants are booked to the channel number the WINDOW_ADJUST names - that is all a
peer can go by: per puppet channel number, sum(adjusts naming it) <= bytes consumed on that channel; an adjust naming a number under
which the puppet has no channel is a grant for a channel on which nothing was consumed.  E4: the bench channel is 1 here / 7 at the
peer; the same two clauses on the fake wire.

Key exchange in progress while the senders run (round 4, snd): a quarter of the snd cases and a sub-family of its own run the
sender threads while a key re-exchange is under way - started by the tested side (renegotiate_keys) or by the puppet - and either
racing it or with the peer slow to take part: the tested side's KEXINIT is held on the link for 0.1 / 0.2 s, i.e. longer than the
0.05 s channel timeout of the "timeout" mode (and than the non-blocking mode), then the exchange completes and the adjust plan
goes on (the peer sends no WINDOW_ADJUST between its KEXINIT and NEWKEYS).  Same history invariant: whatever a sender that gave
up or was held up during the exchange did to the books, the data on the wire stays within initial window + adjusts.

Adjust in flight (round 4, e4rcv "tight" sub-family): everything the peer may send is fed first (both streams and discarded
extended-data types - the transport task is then a consumer too), 2-3 reader tasks take amounts at/above the grant threshold, and
the directed preemptions sit on the switch point where a WINDOW_ADJUST has left the channel but is not on the wire yet (wide open
during a key exchange / on a slow socket): another consumer finishes while the first grant is still in flight.  Same clause
(sum of grants <= bytes taken out of the pipes) at every hand-over.

The fake transport accepts (and ignores) extra arguments of _send_user_message and shows clear_to_send (set) / in_kex (False):
a channel that passes a timeout to the transport or asks whether keys are being exchanged is a matter for the verdict, not a
harness error.

Engine E4 (vlib.sched + vlib.chanbench: the real Channel on a fake transport, every lock operation, the
transport's send point and optionally every source line of the send / receive paths of channel.py is
a switch point; the interleaving is a generated preemption list, fully deterministic):
Family "e4snd": 2-3 application tasks (send / send_stderr / sendall / sendall_stderr, small sizes so that
the window matters) || one transport task delivering WINDOW_ADJUSTs through the real handler. Same history
invariant, evaluated on the scheduler's totally ordered event log (adjust noted before it is delivered).
Family "e4rcv": transport task feeding DATA / EXTENDED_DATA(1) / EXTENDED_DATA(0|2|5) within the advertised window || 1-2 application
tasks calling recv / recv_stderr / set_combine_stderr(True|False). At the moment every WINDOW_ADJUST reaches the transport's send point:
sum(adjusts incl. this one) <= bytes fed - bytes still in the two pipes (= what applications took out).
"""
import socket
import threading
import time

from hypothesis import strategies as st

from vlib import chanbench as CB
from vlib import peers
from vlib import refssh as R
from vlib import sched as S

PROPERTY = "C19"
LEVEL = "exploration"
RULE = (
    "E3 puppet + E4 scheduler. snd: role x (window, max_packet) from {0,1,4095,4096,4097,32768,2^20,2^32-1}^2 x 1-4 sender threads (send/send_stderr/"
    "sendall/sendall_stderr, 0..200 KiB, blocking/timeout/non-blocking) x WINDOW_ADJUST plan (0,1,small,medium,2^32-1; at quiescence or "
    "racing); rcv: role x requested/advertised window and packet sizes across the clamp boundaries x generated interleaving of puppet "
    "data/extended data type 1 and types 0,2..6,2^32-1 (discarded on arrival = consumed once) (within the advertised window), application recv/recv_stderr sizes and set_combine_stderr(True/False) calls; non-trivial = snd: offered bytes > "
    "initial window (a sender had to wait for an adjust) or >= 2 sender threads; rcv: at least one WINDOW_ADJUST was observed; "
    "distinct by the whole case. E4 (real Channel on a fake transport under the deterministic scheduler, lock- and line-level switch points, "
    "generated preemption lists): e4snd = window {0,1,100,4095,4096,4097,32768} x max packet x 2-3 sender tasks (sizes 0..9000) || "
    "transport task delivering 0-4 adjusts; e4rcv = window {32768,32769,40000} x transport task feeding <= 8 messages (data / ext type 1 / ext types 0,2,5) within the window || 1-2 "
    "reader tasks (recv / recv_stderr / set_combine_stderr); non-trivial as above. e4snd 'tight' sub-family: 2-3 tasks with one blocking call each (sizes at/above a window from "
    "{1,100,4095,4096,4097}), no adjust before the final grant, preemptions directed at the switch points of _send between leaving the channel "
    "lock and the transmit (two senders allotted the same window bytes). Channel numbering: snd: puppet's number for the channel from "
    "{77,0,1,2,2^32-1} (data naming another number = data without window); rcv: 1-3 channels open at once, puppet numbers equal / permuted / "
    "overlapping / disjoint w.r.t. the tested side's own 0,1,2, every step on one of the channels, grants booked per channel number named by the "
    "WINDOW_ADJUST (a number the puppet has no channel under = nothing consumed there); E4: own number 1, peer's 7, same clauses. "
    "Round 4: snd x key exchange in progress while the senders run {none, started by tested side | puppet} x {racing, tested side's KEXINIT held 0.1/0.2 s "
    "= longer than the 0.05 s channel timeout} (1/4 of the snd cases + a sub-family with an exchange in every case), adjust plan after the exchange "
    "(classes snd:key-exchange-in-progress:*, snd:senders-busy-while-key-exchange-held); e4rcv 'tight' sub-family: window {32768,32769,40000} x 2-6 feeds "
    "(data / ext 1 / ext 0,2; 3277..32768 bytes) fed first x 2-3 reader tasks (1-3 reads of 1..40000) x preemptions directed at the switch point where a "
    "WINDOW_ADJUST is between channel and wire (classes e4rcv:preempted-while-adjust-in-flight, e4rcv:adjust-handed-over-while-another-adjust-is-in-flight)"
)

TO = 20.0
SENTINEL_TYPE = 193
SIZES = [0, 1, 4095, 4096, 4097, 32768, 1 << 20, 0xFFFFFFFF]
MIN_W, MAX_W, MIN_P = 32768, 0xFFFFFFFF, 4096
# channel numbers the puppet uses for ITS end of a channel (each side of an SSH channel numbers it independently)
PEER_NUMBERS = [77, 77, 0, 1, 2, 0xFFFFFFFF]


def clamp(lo, v, hi):
    return max(lo, min(v, hi))


class Env:
    """One session: tested transport + puppet; one channel opened with the given sizes."""

    def __init__(self, role, tested_kw=None):
        self.role = role
        if role == "client":
            self.link, tc, ts, _ = peers.connected_pair(client_cls=peers.VTransport, server_cls=peers.Puppet, client_kw=tested_kw)
            self.tested, self.puppet = tc, ts
        else:
            self.link, tc, ts, _ = peers.connected_pair(client_cls=peers.Puppet, server_cls=peers.VTransport, server_kw=tested_kw)
            self.tested, self.puppet = ts, tc
        self.puppet.raw()
        self.seen = 0
        self.pid = 77
        self.chan = None
        self.tid = None  # tested side's channel id
        self.adv = None  # (window, maxpkt) advertised by the tested side

    def close(self):
        self.chan = None
        peers.shutdown(self.tested, self.puppet)

    def wait_entry(self, pred, what):
        start = self.seen

        def got(lg):
            for i in range(start, len(lg)):
                if pred(lg[i]):
                    return i + 1
            return None

        r = self.puppet.wait_log(got, timeout=TO)
        if not r:
            raise peers.core.HarnessError("C19 harness: tested side never sent %s" % what)
        return self.puppet.log[r - 1]

    def open(self, window, maxpkt, req_window=None, req_maxpkt=None, pid=None):
        """window/maxpkt: what the puppet grants. req_*: what the tested client asks for itself. pid: the puppet's own number
        for the channel (RFC 4254: each side numbers a channel independently).  May be called several times (several channels
        in one session); returns {"chan", "tid", "pid", "adv"} and keeps the latest channel in self.chan/tid/pid/adv."""
        if pid is not None:
            self.pid = pid
        if self.role == "client":
            res = {}

            def op():
                try:
                    res["c"] = self.tested.open_session(window_size=req_window, max_packet_size=req_maxpkt, timeout=TO)
                except Exception as e:
                    res["e"] = e

            th = threading.Thread(target=op, daemon=True)
            th.start()
            e = self.wait_entry(lambda e: e[1] == 90, "CHANNEL_OPEN")
            rd = R.Reader(e[2])
            rd.string()
            self.tid = rd.u32()
            self.adv = (rd.u32(), rd.u32())
            self.puppet.send_raw_seq(peers.m_channel_open_confirm(self.tid, self.pid, window, maxpkt))
            th.join(TO)
            if "c" not in res:
                raise peers.core.HarnessError("C19 harness: open_session failed %r" % (res.get("e"),))
            self.chan = res["c"]
        else:
            self.puppet.send_raw_seq(peers.m_channel_open(b"session", self.pid, window, maxpkt))
            e = self.wait_entry(lambda e: e[1] in (91, 92), "OPEN_CONFIRMATION")
            if e[1] != 91:
                raise peers.core.HarnessError("C19 harness: server refused the session channel")
            rd = R.Reader(e[2])
            rd.u32()
            self.tid = rd.u32()
            self.adv = (rd.u32(), rd.u32())
            self.chan = self.tested.accept(TO)
            if self.chan is None:
                raise peers.core.HarnessError("C19 harness: accept() returned nothing")
        self.sync()
        return {"chan": self.chan, "tid": self.tid, "pid": self.pid, "adv": self.adv}

    def sync(self):
        """Sentinel round trip; returns log entries since the previous sync."""
        s = self.puppet.send_raw_seq(bytes([SENTINEL_TYPE]) + b"verif")
        echo = R.u32(s)
        start = self.seen

        def got(lg):
            for i in range(start, len(lg)):
                if lg[i][1] == 3 and lg[i][2] == echo:
                    return i + 1
            return None

        r = self.puppet.wait_log(got, timeout=TO)
        if not r:
            raise peers.core.HarnessError("C19 harness: no sentinel echo (tested active=%s, exc=%r)" % (self.tested.is_active(), self.tested.get_exception()))
        new = list(self.puppet.log)[start : r - 1]
        self.seen = r
        return new


# ----------------------------------------------------------------------------- snd family


def run_snd(ctx, case):
    role, W, P = case["role"], case["window"], case["maxpkt"]
    threads_ops = case["threads"]
    offered = sum(op[1] for ops in threads_ops for op in ops)
    nontrivial = offered > W or len(threads_ops) >= 2
    classes = ["snd:" + role, "snd:threads=%d" % len(threads_ops), "snd:window=%d" % W, "snd:maxpkt=%d" % P]
    env = Env(role)
    try:
        env.open(W, P, pid=case.get("pid"))
        chan = env.chan
        classes.append("snd:peer-channel-number-%s" % ("equals-own" if env.pid == env.tid else "differs-from-own"))
        errors = []
        payload = bytes(range(256)) * 801  # > 200 KiB

        def worker(ops):
            for kind, size, mode in ops:
                try:
                    chan.settimeout({"block": None, "timeout": 0.05, "nonblock": 0.0}[mode])
                    getattr(chan, kind)(payload[:size])
                except socket.timeout:
                    pass
                except Exception as e:  # nothing else is expected on an open channel
                    errors.append(repr(e))
                    return

        ths = [threading.Thread(target=worker, args=(ops,), daemon=True) for ops in threads_ops]
        rk = case.get("rekey")
        if rk:
            # a key exchange is in progress while the senders run: started by the tested side or by the peer; with hold > 0 the
            # peer is slow to take part (the tested side's KEXINIT stays on the link for that long, which outlasts the 0.05 s
            # channel timeout of the "timeout" mode and of course the non-blocking mode), with hold == 0 the senders race it.
            # The peer sends no WINDOW_ADJUST between its KEXINIT and NEWKEYS (RFC 4253 7.1), so the adjust plan starts after it.
            out_d = env.link.ab if role == "client" else env.link.ba
            classes.append("snd:key-exchange-in-progress:started-by-%s:%s" % (rk["who"], "held-beyond-the-channel-timeout" if rk["hold"] else "racing"))
            kres = {}

            def rekey():
                try:
                    (env.tested if rk["who"] == "tested" else env.puppet).renegotiate_keys()
                    kres["ok"] = True
                except Exception as e:
                    kres["e"] = e

            if rk["hold"]:
                out_d.set_hold(True)
            kth = threading.Thread(target=rekey, daemon=True)
            kth.start()
            try:
                if rk["hold"]:
                    # the tested side's KEXINIT (its own, or its answer to the peer's) is on the link: from now on it holds
                    # user messages back
                    if not out_d.wait_pending(1, TO):
                        raise peers.core.HarnessError("C19 harness: no KEXINIT from the tested side")
                for t in ths:
                    t.start()
                if rk["hold"]:
                    time.sleep(rk["hold"])
                    if any(t.is_alive() for t in ths):
                        classes.append("snd:senders-busy-while-key-exchange-held")
            finally:
                out_d.set_hold(False)
            kth.join(TO)
            if "ok" not in kres:
                # not this property (key exchange completion is C09-C13's business); nothing may outlive the case
                chan.close()
                for t in ths:
                    t.join(TO)
                ctx.inconc("snd:key-exchange-did-not-complete")
                ctx.case(case, False, classes)
                return
        else:
            for t in ths:
                t.start()
        marks = []  # (log length before the adjust was sent, amount)
        for amount, when in case["adjusts"]:
            if when == "idle":
                env.link.wait_quiescent(timeout=2.0)
            L = len(env.puppet.log)
            marks.append((L, amount))
            env.puppet.send_raw_seq(peers.m_window_adjust(env.tid, amount))
        # release whatever is still blocked: grant everything that was offered (+1: send(b"") waits for a
        # non-zero window as well)
        env.link.wait_quiescent(timeout=2.0)
        marks.append((len(env.puppet.log), offered + 1))
        env.puppet.send_raw_seq(peers.m_window_adjust(env.tid, offered + 1))
        # blocking-mode senders end once the window is there; a thread may have set a short timeout on the
        # shared channel object meanwhile, which only makes somebody give up earlier
        for t in ths:
            t.join(TO)
        if any(t.is_alive() for t in ths):
            # not this property (C20 is about progress); make sure nothing outlives the case
            chan.close()
            for t in ths:
                t.join(TO)
            ctx.inconc("snd:sender-still-blocked-after-full-grant")
        if errors:
            raise peers.core.HarnessError("C19 harness: sender raised %r" % errors[:3])
        env.sync()
        log = list(env.puppet.log)
        ctx.case(case, nontrivial, classes + (["snd:had-to-wait"] if offered > W else []))
        cum = 0
        mi = 0
        allowed = W
        waited = False
        for i, (seq, ptype, body) in enumerate(log):
            while mi < len(marks) and marks[mi][0] <= i:
                allowed += marks[mi][1]
                mi += 1
            if ptype not in (94, 95):
                continue
            if body[:4] != R.u32(env.pid):
                # the only channel of the session is the one the puppet numbered env.pid: the window it granted belongs to that
                # number; a data message naming any other number is data on a channel for which no window was ever granted
                ctx.violation(
                    "window-respected",
                    "%s:data-addressed-to-a-channel-number-without-window" % role,
                    case,
                    "log index %d: %s addressed to channel %d; the peer's number for the channel is %d (own number %d): no window was granted for that number"
                    % (i, "CHANNEL_DATA" if ptype == 94 else "CHANNEL_EXTENDED_DATA", R.Reader(body).u32(), env.pid, env.tid),
                )
                return
            rd = R.Reader(body)
            rd.u32()
            if ptype == 95:
                rd.u32()
            n = len(rd.string())
            cum += n
            if P >= MIN_P and n > P:
                ctx.violation("max-packet-respected", "%s:%s" % (role, "data" if ptype == 94 else "ext"), case, "data string of %d bytes, peer max packet %d (log index %d)" % (n, P, i))
                return
            if cum > allowed:
                ctx.violation(
                    "window-respected",
                    "%s:threads=%s" % (role, "1" if len(threads_ops) == 1 else ">1"),
                    case,
                    "log index %d: %d data bytes sent so far, window granted so far %d (initial %d + adjusts %r)" % (i, cum, allowed, W, marks[:mi]),
                )
                return
            if cum > W:
                waited = True
        if waited:
            ctx.count("snd:used-adjusted-window")
    finally:
        env.close()


# ----------------------------------------------------------------------------- rcv family


def _numbering_class(chans):
    own = [c["tid"] for c in chans]
    peer = [c["pid"] for c in chans]
    if own == peer:
        return "equal"
    if set(own) == set(peer):
        return "permuted"  # every peer number is the tested side's own number of ANOTHER open channel
    return "overlapping" if set(own) & set(peer) else "disjoint"


def run_rcv(ctx, case):
    role = case["role"]
    kw = {}
    if case.get("dws") is not None:
        kw["default_window_size"] = case["dws"]
    if case.get("dmp") is not None:
        kw["default_max_packet_size"] = case["dmp"]
    env = Env(role, kw or None)
    classes = ["rcv:" + role]
    pids = list(case.get("pids") or [77])
    try:
        # one session, len(pids) channels open at the same time; the puppet numbers its end of channel i pids[i], the tested
        # side numbers its own end itself (0, 1, 2 in opening order)
        chans = []
        for pid in pids:
            c = env.open(1 << 20, 32768, case.get("req_w"), case.get("req_p"), pid=pid)
            adv_w, adv_p = c["adv"]
            if role == "client":
                want_w = clamp(MIN_W, case["req_w"] if case.get("req_w") is not None else case.get("dws", 2097152) or 2097152, MAX_W)
                want_p = clamp(MIN_P, case["req_p"] if case.get("req_p") is not None else case.get("dmp", 32768) or 32768, MAX_W)
                if (adv_w, adv_p) != (want_w, want_p):
                    ctx.case(case, False, classes)
                    ctx.violation("advertised-equals-clamped-request", "client", case, "advertised window/packet %r, clamped request %r" % ((adv_w, adv_p), (want_w, want_p)))
                    return
            c["chan"].settimeout(0.0)
            # credit: what the puppet may still send; read: bytes the application's recv/recv_stderr calls returned; legit: bytes
            # the peer sent that an application CAN read (DATA, EXTENDED_DATA type 1); discarded: bytes of extended-data types
            # the tested side does not deliver (consumed once, on arrival); granted: sum of the WINDOW_ADJUSTs naming this channel
            c.update(credit=adv_w, sent=0, read=0, legit=0, discarded=0, granted=0, consumed=0)
            chans.append(c)
        bypid = dict((c["pid"], c) for c in chans)
        classes.append("rcv:chans=%d" % len(chans))
        classes.append("rcv:channel-numbering=" + _numbering_class(chans))
        n_adjust = 0
        payload = bytes(range(256)) * 200
        steps = []
        for op in case["ops"]:
            kind, n = op[0], op[1]
            ci = (op[2] if len(op) > 2 else 0) % len(chans)
            c = chans[ci]
            chan = c["chan"]
            adv_w, adv_p = c["adv"]
            if kind in ("data", "ext") or kind.startswith("ext:"):
                code = 1 if kind == "ext" else (int(kind[4:]) if kind != "data" else None)
                if code is not None and code != 1:
                    classes.append("rcv:ext-type-%s" % ("0" if code == 0 else ("2..5" if code <= 5 else ">5")))
                n = min(n, c["credit"])
                while n > 0:
                    k = min(n, adv_p, len(payload))
                    if kind == "data":
                        env.puppet.send_raw_seq(peers.m_channel_data(c["tid"], payload[:k]))
                    else:
                        env.puppet.send_raw_seq(peers.m_channel_ext_data(c["tid"], code, payload[:k]))
                    n -= k
                    c["credit"] -= k
                    c["sent"] += k
                    if code is None or code == 1:
                        c["legit"] += k
                    else:
                        c["discarded"] += k
            elif kind == "combine":
                # every earlier message has been processed (sentinel round trip of the previous step), so this is what
                # the application left unread on the stderr stream at the moment it flips combining
                unread = len(chan.in_stderr_buffer)
                chan.set_combine_stderr(bool(n))
                if n and unread:
                    classes.append("rcv:combine-on-with-unread-stderr:%s-grant-threshold" % ("above" if unread > adv_w // 10 else "at-or-below"))
                else:
                    classes.append("rcv:combine-%s" % ("on" if n else "off"))
            else:
                f = chan.recv if kind == "recv" else chan.recv_stderr
                ready = chan.recv_ready() if kind == "recv" else chan.recv_stderr_ready()
                if ready:
                    c["read"] += len(f(n))
                    if kind == "recv_stderr" and c["discarded"]:
                        classes.append("rcv:stderr-read-after-discarded-ext-type")
            # what the application has consumed: the bytes its reads returned, but never more than the peer sent on the streams
            # an application can read; plus, once, the bytes of types that are discarded on arrival
            c["consumed"] = min(c["read"], c["legit"]) + c["discarded"]
            new = env.sync()
            after = "arrival" if (kind in ("data", "ext") or kind.startswith("ext:")) else ("set_combine_stderr" if kind == "combine" else "read")
            for seq, ptype, body in new:
                if ptype != 93:
                    continue
                rd = R.Reader(body)
                rcpt, a = rd.u32(), rd.u32()
                n_adjust += 1
                g = bypid.get(rcpt)
                if g is None:
                    # a grant is a grant for the channel it names (that is all the peer can go by): here a number under which the
                    # peer has no channel at all, i.e. no application consumed anything there
                    ctx.case(case, True, sorted(set(classes)))
                    ctx.violation(
                        "grant-at-most-consumed",
                        "%s:grant-names-a-number-the-peer-has-no-channel-under" % role,
                        case,
                        "after %s on channel %d (own number %d, peer's number %d): WINDOW_ADJUST of %d bytes addressed to channel number %d; the peer's channel numbers are %r - "
                        "nothing was consumed on a channel of that number" % (after, ci, c["tid"], c["pid"], a, rcpt, [x["pid"] for x in chans]),
                    )
                    return
                g["granted"] += a
                g["credit"] += a
            steps.append((kind, n, ci, c["sent"], c["consumed"], c["granted"]))
            for gi, g in enumerate(chans):
                if g["granted"] > g["consumed"]:
                    ctx.case(case, True, sorted(set(classes)))
                    ctx.violation(
                        "grant-at-most-consumed",
                        ("%s:after-%s" % (role, after)) if gi == ci else ("%s:granted-on-a-channel-other-than-the-consuming-one" % role),
                        case,
                        "channel %d (own number %d, peer's number %d): window granted %d > consumed %d (peer sent %d = %d readable + %d of discarded types; reads returned %d); the step acted on "
                        "channel %d; last steps (op, n, channel, sent, consumed, granted): %r"
                        % (gi, g["tid"], g["pid"], g["granted"], g["consumed"], g["sent"], g["legit"], g["discarded"], g["read"], ci, steps[-4:]),
                    )
                    return
        ctx.case(case, n_adjust >= 1, sorted(set(classes)) + (["rcv:adjust-observed"] if n_adjust else []) + sorted(set("rcv:adv-window=%d" % c["adv"][0] for c in chans)))
    finally:
        chans = None
        env.close()


# ----------------------------------------------------------------------------- strategies

send_sizes = st.one_of(st.sampled_from([0, 1, 100, 4032, 4096, 4097, 32704, 32768, 32769, 204800]), st.integers(0, 204800))
send_op = st.tuples(st.sampled_from(["send", "send_stderr", "sendall", "sendall_stderr"]), send_sizes, st.sampled_from(["block", "block", "timeout", "nonblock"]))
adjust = st.tuples(
    st.one_of(st.sampled_from([0, 1, 63, 64, 65, 4095, 4096, 32768, 0xFFFFFFFF]), st.integers(0, 5000), st.integers(0, 150000)),
    st.sampled_from(["idle", "idle", "now"]),
)
# a key exchange in progress while the senders run: who starts it, and for how long the peer leaves the tested side's KEXINIT
# unanswered (0 = the senders race an exchange that runs at full speed; otherwise longer than the 0.05 s channel timeout of the
# "timeout" mode)
snd_rekey = st.fixed_dictionaries({"who": st.sampled_from(["tested", "puppet"]), "hold": st.sampled_from([0, 0.1, 0.1, 0.2])})


def _snd_case(rekey):
    return st.fixed_dictionaries(
        {
            "fam": st.just("snd"),
            "role": st.sampled_from(["client", "server"]),
            "window": st.sampled_from(SIZES),
            "maxpkt": st.sampled_from(SIZES),
            "threads": st.lists(st.lists(send_op, min_size=1, max_size=5), min_size=1, max_size=4),
            "adjusts": st.lists(adjust, max_size=8),
            # the puppet's own number for the channel (the tested side's is 0: first channel of the session)
            "pid": st.sampled_from(PEER_NUMBERS),
            # a key exchange in progress while the senders run (None: no exchange)
            "rekey": rekey,
        }
    )


snd_case = _snd_case(st.one_of(st.none(), st.none().map(lambda v: v), st.none().map(lambda v: v), snd_rekey))
snd_rekey_case = _snd_case(snd_rekey)

req_sizes_w = st.one_of(st.none(), st.sampled_from([0, 1, 32767, 32768, 32769, 40000, 65536, 100000, 2097152, 0xFFFFFFFF, 0x100000000, 1 << 40]))
req_sizes_p = st.one_of(st.none(), st.sampled_from([0, 1, 4095, 4096, 4097, 32768, 65536, 0xFFFFFFFF, 0x100000000]))
rcv_feed_op = st.tuples(st.sampled_from(["data", "data", "ext"]), st.one_of(st.sampled_from([1, 3276, 3277, 4096, 32768, 40000]), st.integers(1, 40000)))
rcv_read_op = st.tuples(st.sampled_from(["recv", "recv", "recv_stderr"]), st.sampled_from([1, 100, 3276, 3277, 5000, 40000, 1 << 20]))
# ("combine", 1|0) = set_combine_stderr(True|False)
# EXTENDED_DATA with a type code other than 1 ("ext:<code>"): RFC 4254 allows any code; the tested side does not deliver them
RCV_EXT_CODES = ["ext:0", "ext:2", "ext:2", "ext:3", "ext:5", "ext:6", "ext:4294967295"]
rcv_feedx_op = st.tuples(st.sampled_from(RCV_EXT_CODES), st.one_of(st.sampled_from([1, 3276, 3277, 4096, 32768]), st.integers(1, 40000)))
rcv_op1 = st.one_of(rcv_feed_op, rcv_feed_op.map(lambda v: v), rcv_feedx_op, rcv_read_op, rcv_read_op.map(lambda v: v), st.tuples(st.just("combine"), st.sampled_from([1, 1, 0])))
# third element: which of the open channels the step acts on (index modulo the number of channels)
rcv_op = st.tuples(rcv_op1, st.integers(0, 2)).map(lambda t: t[0] + (t[1],))
# the puppet's numbers for its ends of the 1-3 channels (the tested side numbers its own ends 0, 1, 2): equal, permuted (a number
# is the tested side's own number of ANOTHER open channel), overlapping, disjoint
RCV_PIDS = [[77], [0], [1], [4294967295], [0, 1], [1, 0], [1, 0], [1, 2], [5, 0], [77, 78], [0, 1, 2], [1, 2, 0], [2, 0, 1], [0, 2, 1], [7, 1, 0]]
rcv_case = st.one_of(
    st.fixed_dictionaries(
        {
            "fam": st.just("rcv"),
            "role": st.just("client"),
            "req_w": req_sizes_w,
            "req_p": req_sizes_p,
            "dws": st.sampled_from([None, 32768, 32768, 65537, 2097152]),
            "dmp": st.sampled_from([None, None, 4096, 32768]),
            "ops": st.lists(rcv_op, min_size=6, max_size=60),
            "pids": st.sampled_from(RCV_PIDS),
        }
    ),
    st.fixed_dictionaries(
        {
            "fam": st.just("rcv"),
            "role": st.just("server"),
            "dws": st.sampled_from([32768, 32768, 32769, 65536, 65536, 100000, 2097152, 0xFFFFFFFF]),
            "dmp": st.sampled_from([4096, 4097, 32768, 65536, 0xFFFFFFFF]),
            "ops": st.lists(rcv_op, min_size=6, max_size=60),
            "pids": st.sampled_from(RCV_PIDS),
        }
    ),
)



# ----------------------------------------------------------------------------- E4 families

E4_TRACED = {"send", "send_stderr", "sendall", "sendall_stderr", "_send", "_wait_for_send_window", "_window_adjust", "recv", "recv_stderr", "_check_add_window", "_feed", "_feed_extended", "set_combine_stderr"}


E4_OWN_NUMBER, E4_PEER_NUMBER = 1, 7  # the two ends of the bench channel are numbered differently


def _after_reservation(tag):
    """Switch points of a sender between leaving the channel lock (window share reserved) and the transmit."""
    if tag[0] == "send":
        return True
    if tag[0] == "release" and tag[1] == "chan.lock":
        return True
    return tag[0] == "line" and tag[2] == "_send"


def _adjust_in_flight(tag):
    """The switch point at which a WINDOW_ADJUST of the tested side has been handed to the transport but is not on the wire yet
    (as long as a key exchange or a slow socket holds user messages up)."""
    return tag[0] == "send" and tag[1] == "WINDOW_ADJUST"


def _bench(case, hot_pred=_after_reservation, **chan_kw):
    import paramiko.channel as PC

    tf = {PC.__file__: E4_TRACED} if case.get("trace") else None
    # the directed ("hot") part of a schedule exists only in the tight cases (e4snd: after the reservation; e4rcv: adjust in flight)
    sch = S.Scheduler(S.strategy_from_case(case["sched"], hot_pred), trace_files=tf, max_steps=60000)
    ft = CB.FakeTransport(sch)
    chan = CB.make_channel(sch, ft, chanid=E4_OWN_NUMBER, remote_chanid=E4_PEER_NUMBER, **chan_kw)
    return sch, ft, chan


def run_e4snd(ctx, case):
    W, P = case["window"], case["maxpkt"]
    sch, ft, chan = _bench(case, out_window=W, out_max_packet=P)
    offered = sum(op[1] for ops in case["apps"] for op in ops)
    data = bytes(range(256)) * 40

    def app(ops):
        def body():
            for kind, size, mode in ops:
                chan.settimeout({"block": None, "timeout": 0.5, "nonblock": 0.0}[mode])
                try:
                    getattr(chan, kind)(data[:size])
                except socket.timeout:
                    pass

        return body

    def transport():
        for n in list(case["adjusts"]) + [offered + 1]:
            sch.note(("adjust", n))
            ft.deliver(CB.MSG_CHANNEL_WINDOW_ADJUST, 1, n)

    for i, ops in enumerate(case["apps"]):
        sch.spawn("app%d" % i, app([tuple(o) for o in ops]))
    sch.spawn("transport", transport)
    with S.patch_time(sch, *CB.chan_time_modules()):
        res = sch.run()
    classes = ["e4snd", "e4snd:apps=%d" % len(case["apps"]), "e4snd:outcome=" + str(res.outcome)]
    if res.switched_in(lambda t: t[0] == "line"):
        classes.append("e4snd:preempted-at-channel.py-line")
    for name, info in res.tasks.items():
        if info.exc is not None:
            raise peers.core.HarnessError("C19 e4snd: task %s raised %s" % (name, info.tb))
    cum, allowed = 0, W
    waited = False
    bad = None
    for ev in res.log:
        if ev[0] == "adjust":
            allowed += ev[1]
        elif ev[0] == "wire" and ev[1]["type"] in ("DATA", "EXTENDED_DATA"):
            n = len(ev[1]["data"])
            if bad is None and ev[1]["chan"] != E4_PEER_NUMBER:
                bad = ("window-respected", "e4:data-addressed-to-a-channel-number-without-window", "%s by %s addressed to channel %d; the peer's number for the channel is %d (own number %d)" % (ev[1]["type"], ev[1]["task"], ev[1]["chan"], E4_PEER_NUMBER, E4_OWN_NUMBER))
            cum += n
            if cum > W:
                waited = True
            if bad is None and P >= MIN_P and n > P:
                bad = ("max-packet-respected", "e4:%s" % ev[1]["type"].lower(), "data string of %d bytes by %s, peer max packet %d" % (n, ev[1]["task"], P))
            if bad is None and cum > allowed:
                bad = ("window-respected", "e4:apps=%d" % len(case["apps"]), "%d data bytes on the wire, window granted so far %d (initial %d); last message %d bytes by %s" % (cum, allowed, W, n, ev[1]["task"]))
    ctx.case(case, waited or len(case["apps"]) >= 2, classes + (["e4snd:used-adjusted-window"] if waited else []))
    if bad:
        ctx.violation(bad[0], bad[1], case, bad[2])


def _buffered(chan):
    """Bytes sitting in the channel's two receive pipes (nobody has consumed them).  Observation through the pipes' private
    arrays (reading them takes no lock, hence adds no switch point); when they are not there: 0, which turns the oracle into
    'granted <= bytes fed' - weaker, never wrong."""
    try:
        return len(chan.in_buffer._buffer) + len(chan.in_stderr_buffer._buffer)
    except AttributeError:
        return 0


def run_e4rcv(ctx, case):
    W = case["window"]
    sch, ft, chan = _bench(case, hot_pred=_adjust_in_flight, in_window=W, in_max_packet=32768)
    st_ = {"fed": 0, "granted": 0, "bad": None, "adjusts": 0, "combine": set(), "inflight": 0}
    orig = ft._send_user_message

    def send_user_message(m, *a, **kw):
        raw = m.asbytes()
        if raw[0] == CB.MSG_CHANNEL_WINDOW_ADJUST:
            if st_["inflight"]:
                # another consumer (a second reader, or the transport task discarding an undelivered extended-data type)
                # finished while an earlier WINDOW_ADJUST was still between the channel and the wire
                st_["combine"].add("e4rcv:adjust-handed-over-while-another-adjust-is-in-flight")
            st_["inflight"] += 1
            try:
                return _adjust(m, raw, a, kw)
            finally:
                st_["inflight"] -= 1
        return orig(m, *a, **kw)

    def _adjust(m, raw, a, kw):
        if st_["bad"] is None:
            n = int.from_bytes(raw[5:9], "big")
            rcpt = int.from_bytes(raw[1:5], "big")
            st_["granted"] += n
            st_["adjusts"] += 1
            taken = st_["fed"] - _buffered(chan)
            if rcpt != E4_PEER_NUMBER:
                st_["bad"] = ("e4:grant-names-a-number-the-peer-has-no-channel-under", "WINDOW_ADJUST(%d) by %s addressed to channel number %d; the peer's number for the channel is %d (own number %d)" % (n, sch.current_name(), rcpt, E4_PEER_NUMBER, E4_OWN_NUMBER))
            elif st_["granted"] > taken:
                st_["bad"] = ("e4:apps=%d" % len(case["apps"]), "WINDOW_ADJUST(%d) by %s brings the granted total to %d; applications have taken %d bytes out of the pipes (fed %d)" % (n, sch.current_name(), st_["granted"], taken, st_["fed"]))
        return orig(m, *a, **kw)

    ft._send_user_message = send_user_message
    data = bytes(range(256)) * 160

    def transport():
        sent = 0
        for kind, n in case["feeds"]:
            n = min(n, W + st_["granted"] - sent, len(data))
            if n <= 0:
                continue
            st_["fed"] += n  # before the bytes are in the pipe: the oracle may only over-estimate "taken"
            sent += n
            if kind == "data":
                ft.deliver(CB.MSG_CHANNEL_DATA, 1, data[:n])
            else:
                code = 1 if kind == "ext" else int(kind[4:])
                if code != 1:
                    st_["combine"].add("e4rcv:ext-type-other-than-1")
                ft.deliver(CB.MSG_CHANNEL_EXTENDED_DATA, 1, code, data[:n])

    def app(ops):
        def body():
            for kind, n in ops:
                try:
                    if kind == "set_combine_stderr":
                        unread = len(getattr(chan.in_stderr_buffer, "_buffer", b""))  # what this task sees while it holds the baton (class only)
                        if n and unread and not chan.combine_stderr:
                            st_["combine"].add("e4rcv:combine-on-with-unread-stderr:%s-grant-threshold" % ("above" if unread > W // 10 else "at-or-below"))
                        else:
                            st_["combine"].add("e4rcv:combine-%s" % ("on" if n else "off"))
                        chan.set_combine_stderr(bool(n))
                    else:
                        getattr(chan, kind)(n)
                except socket.timeout:
                    pass

        return body

    chan.settimeout(0.5)
    sch.spawn("transport", transport)
    for i, ops in enumerate(case["apps"]):
        sch.spawn("app%d" % i, app([tuple(o) for o in ops]))
    with S.patch_time(sch, *CB.chan_time_modules()):
        res = sch.run()
    for name, info in res.tasks.items():
        if info.exc is not None:
            raise peers.core.HarnessError("C19 e4rcv: task %s raised %s" % (name, info.tb))
    classes = ["e4rcv", "e4rcv:apps=%d" % len(case["apps"]), "e4rcv:outcome=" + str(res.outcome)] + (["e4rcv:adjust-observed"] if st_["adjusts"] else []) + sorted(st_["combine"])
    if res.switched_in(_adjust_in_flight):
        classes.append("e4rcv:preempted-while-adjust-in-flight")
    ctx.case(case, st_["adjusts"] >= 1, classes)
    if st_["bad"]:
        ctx.violation("grant-at-most-consumed", st_["bad"][0], case, st_["bad"][1])


e4_send_op = st.tuples(st.sampled_from(["send", "send_stderr", "sendall", "sendall_stderr"]), st.one_of(st.sampled_from([0, 1, 50, 100, 4032, 4033, 5000]), st.integers(0, 9000)), st.sampled_from(["block", "block", "timeout", "nonblock"]))
e4snd_case = st.fixed_dictionaries(
    {
        "fam": st.just("e4snd"),
        "window": st.sampled_from([0, 1, 100, 4095, 4096, 4097, 32768]),
        "maxpkt": st.sampled_from([0, 1, 4095, 4096, 4097, 32768, 0xFFFFFFFF]),
        "apps": st.lists(st.lists(e4_send_op, min_size=1, max_size=3), min_size=2, max_size=3),
        "adjusts": st.lists(st.one_of(st.sampled_from([0, 1, 63, 64, 65, 100, 4096]), st.integers(0, 6000)), max_size=4),
        "sched": S.schedule_strategy(max_pre=4, max_gap=50, max_forced=12),
        "trace": st.sampled_from([True, True, False]),
    }
)
# "tight" e4snd cases: two or three tasks, one blocking call each, sizes at or above a small window, no adjust before
# everybody has been served from the initial window, preemptions directed (schedule part "hot") at the switch points of
# _send between leaving the channel lock and the transmit - the shape in which a reservation that is not atomic with the
# window test (two senders allotted the same bytes) shows up
e4snd_tight_case = st.fixed_dictionaries(
    {
        "fam": st.just("e4snd"),
        "window": st.sampled_from([1, 100, 4095, 4096, 4097]),
        "maxpkt": st.sampled_from([4096, 32768, 0xFFFFFFFF]),
        "apps": st.lists(
            st.lists(st.tuples(st.sampled_from(["send", "send_stderr", "sendall", "sendall_stderr"]), st.sampled_from([1, 50, 100, 4032, 4033, 5000]), st.just("block")), min_size=1, max_size=1),
            min_size=2,
            max_size=3,
        ),
        "adjusts": st.just([]),
        "sched": S.schedule_strategy(max_pre=2, max_gap=30, max_forced=12, max_hot=3, hot_range=8),
        "trace": st.sampled_from([True, False]),
    }
)
e4_rcv_read_op = st.tuples(st.sampled_from(["recv", "recv", "recv_stderr"]), st.sampled_from([1, 100, 3276, 3277, 5000, 40000]))
e4_rcv_app_op = st.one_of(e4_rcv_read_op, e4_rcv_read_op, e4_rcv_read_op, st.tuples(st.just("set_combine_stderr"), st.sampled_from([1, 1, 0])))
e4rcv_case = st.fixed_dictionaries(
    {
        "fam": st.just("e4rcv"),
        "window": st.sampled_from([32768, 32769, 40000]),
        "feeds": st.lists(st.tuples(st.sampled_from(["data", "data", "ext", "ext", "ext:2", "ext:0", "ext:5"]), st.one_of(st.sampled_from([1, 3276, 3277, 4096, 32768]), st.integers(1, 40000))), min_size=1, max_size=8),
        "apps": st.lists(st.lists(e4_rcv_app_op, min_size=1, max_size=6), min_size=1, max_size=2),
        "sched": S.schedule_strategy(max_pre=4, max_gap=50, max_forced=12),
        "trace": st.sampled_from([True, True, False]),
    }
)
# "tight" e4rcv cases: several consumers of ONE channel at the moment a WINDOW_ADJUST is in flight.  Everything the peer may send
# is fed first (both streams, and extended-data types that are discarded on arrival: then the transport task is a consumer too),
# 2-3 reader tasks take amounts at/above the grant threshold (window // 10, counted over both streams), and the preemptions are
# directed (schedule part "hot") at the switch point where a WINDOW_ADJUST has left the channel but has not reached the wire -
# a window that is microseconds wide on an idle link and as wide as you like during a key exchange or on a slow socket
_tight_feed = st.tuples(st.sampled_from(["data", "ext", "data", "ext", "ext:2", "ext:0"]), st.sampled_from([3277, 4001, 4096, 8000, 32768]))
_tight_read = st.tuples(st.sampled_from(["recv", "recv_stderr"]), st.sampled_from([1, 3276, 3277, 4001, 5000, 40000]))
e4rcv_tight_case = st.fixed_dictionaries(
    {
        "fam": st.just("e4rcv"),
        "window": st.sampled_from([32768, 32769, 40000]),
        "feeds": st.lists(_tight_feed, min_size=2, max_size=6),
        "apps": st.lists(st.lists(_tight_read, min_size=1, max_size=3), min_size=2, max_size=3),
        "sched": S.schedule_strategy(max_pre=2, max_gap=30, max_forced=6, max_hot=3, hot_range=3),
        "trace": st.sampled_from([True, False]),
    }
)


def body(ctx, case):
    {"snd": run_snd, "rcv": run_rcv, "e4snd": run_e4snd, "e4rcv": run_e4rcv}[case["fam"]](ctx, case)


def run(ctx):
    ctx.set_budget(75, 800)
    ctx.assume("window/packet sizes are uint32 on the wire; transport-wide defaults are taken from the documented range (>= 32768 / >= 4096) because the server side advertises them unclamped")
    ctx.explore(snd_case, lambda c: body(ctx, c), ctx.scale(80, 600), shrink=False)
    ctx.explore(snd_rekey_case, lambda c: body(ctx, c), ctx.scale(40, 300), shrink=False, seed_offset=6)
    ctx.explore(rcv_case, lambda c: body(ctx, c), ctx.scale(140, 700), shrink=False, seed_offset=1)
    # E4: deterministic, so failing cases are shrunk
    ctx.explore(e4snd_case, lambda c: body(ctx, c), ctx.scale(500, 6000), seed_offset=2)
    ctx.explore(e4rcv_case, lambda c: body(ctx, c), ctx.scale(420, 4000), seed_offset=3)
    ctx.explore(e4snd_tight_case, lambda c: body(ctx, c), ctx.scale(300, 3000), seed_offset=4)
    ctx.explore(e4rcv_tight_case, lambda c: body(ctx, c), ctx.scale(250, 2500), seed_offset=5)


def replay(ctx, case):
    if case.get("fam") == "snd":
        case = dict(case)
        case["threads"] = [[tuple(op) for op in ops] for ops in case["threads"]]
        case["adjusts"] = [tuple(a) for a in case["adjusts"]]
    body(ctx, case)
