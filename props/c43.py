"""C43 - group-exchange modulus selection honours the client's size range.

Domain: a moduli file of 0-40 lines written to disk and loaded with ModulusPack.read_file:
  * structured lines "timestamp type tests tries size generator modulus" with type 0..5,
    tests 0..15, tries in {0, 99, 100, 200}, generator in {0, 2, 5}, modulus an odd integer of
    bit length bl in {1023..16384 (around the usual sizes)}, reported size = bl-1 (as real
    moduli files do), bl, or wrong (bl+1, bl-2, bl+7, 0), or derived from the WRITTEN width (4 bits per hex digit
    incl. padding: 4n, 4n-1, 4(n-1), 4(n-1)-1, 4n-3); the modulus is written in upper / lower / mixed case hex with
    0-9 leading zero digits (the number, not its spelling, has a bit length); generated leading / trailing
    whitespace (blanks, tabs, CR before the newline) and separators;
  * malformed lines (too few/many fields, non-numeric fields, bad hex), comments, blanks.
  1-6 requests (min, prefer, max) in [0, 20000]^3, dense around the generated sizes,
  including inverted (min > max, prefer outside [min, max]) and out-of-range triples (a quarter each: unordered,
  min <= prefer <= max, prefer <= min <= max, min <= max <= prefer);
  get_modulus is called 20x per request (it picks at random among equal sizes).
"size" of a group is the bit length of its modulus (RFC 4419; it is also the key of
ModulusPack.pack).

Oracle: valid := lines accepted by an independent re-implementation of the documented rule
(type >= 2, tests >= 4, (tests & 4 and tests < 8) => tries >= 100, bit length in {size, size+1}).
  (a) every returned (g, p) is in valid (g == 2 where the file says 0);
  (b) if some valid size lies in [min, max]: returned size == min{s in range, s >= prefer} if
      that set is non-empty, else max{s in range};
  (c) no valid line => SSHException; otherwise no exception.
"""
import os

from hypothesis import strategies as st

from vlib import core

PROPERTY = "C43"
LEVEL = "exploration"
RULE = (
    "hypothesis-generated moduli files (0-40 lines: structured lines with type 0-5, tests 0-15, tries {0,99,100,200}, "
    "generator {0,2,5}, odd moduli of 16 bit lengths 1023..16384 spelled in upper/lower/mixed-case hex with 0-9 leading zero digits, "
    "reported size bl-1/bl/wrong or derived from the written digit count; leading/trailing blanks, tabs, CRLF; malformed/comment/blank lines) "
    "loaded with read_file, and 1-6 (min, prefer, max) requests from [0,20000]^3 dense at size+-1, each asked 20 times; "
    "non-trivial = the file has >= 2 distinct valid sizes and some request's [min,max] contains at least one valid size but not all of them; "
    "distinct by SHA-1 of (lines, requests)"
)

BITLENS = [1023, 1024, 1025, 1535, 1536, 2047, 2048, 2049, 3071, 3072, 4095, 4096, 8191, 8192, 16383, 16384]
CALLS = 20

mod_line = st.fixed_dictionaries(
    {
        "k": st.just("mod"),
        "type": st.one_of(st.sampled_from([2, 2, 2, 1]), st.integers(0, 5)),
        "tests": st.one_of(st.sampled_from([6, 6, 6, 4, 3, 8]), st.integers(0, 15)),
        "tries": st.sampled_from([100, 100, 200, 99, 0]),
        "rep": st.sampled_from([-1, -1, -1, -1, 0, 0, 1, -2, 7, None]),  # reported size = bl + rep (None: 0)
        "gen": st.sampled_from([2, 2, 5, 0]),
        "bl": st.sampled_from(BITLENS),
        "tag": st.integers(0, (1 << 32) - 1),
        "sep": st.sampled_from([" ", " ", " ", "\t", "  ", " \t "]),
        "pad": st.sampled_from([0, 0, 0, 1, 2, 3, 4, 9]),  # leading zero hex digits
        "hexcase": st.integers(0, 2),  # upper, lower, mixed
        "reptext": st.sampled_from([None, None, None, None, 0, -1, -4, -5, -3]),  # not None: reported size = 4 * written digits + reptext
        "lead": st.sampled_from(["", "", "", " ", "\t", "   "]),
        "trail": st.sampled_from(["", "", "", " ", "\t", "\r", " \r"]),
    }
)

RAW = [
    "",
    "   ",
    "# $OpenBSD: moduli,v 1.2 $",
    "#20240101000000 2 6 100 2047 2 F",
    "20240101000000 2 6 100 2047 2",
    "20240101000000 2 6 100 2047 2 F7 extra",
    "20240101000000 two 6 100 2047 2 F7",
    "20240101000000 2 6 100 2047 2 XYZ",
    "20240101000000 2 6 100 big 2 F7",
    "20240101000000 2 6 1e2 2047 2 F7",
    "garbage",
    "20240101000000 2 6 100 2047 five F7",
]
raw_line = st.fixed_dictionaries({"k": st.just("raw"), "text": st.sampled_from(RAW)})

# lines that satisfy every requirement (so that most files offer several sizes to choose from)
good_line = st.fixed_dictionaries(
    {
        "k": st.just("mod"),
        "type": st.sampled_from([2, 2, 3, 5]),
        "tests": st.sampled_from([6, 6, 4, 8, 12, 15]),
        "tries": st.sampled_from([100, 200]),
        "rep": st.sampled_from([-1, -1, -1, 0]),
        "gen": st.sampled_from([2, 2, 5, 0]),
        "bl": st.sampled_from(BITLENS),
        "tag": st.integers(0, (1 << 32) - 1),
        "sep": st.just(" "),
        "pad": st.sampled_from([0, 0, 0, 1, 2, 3, 9]),
        "hexcase": st.integers(0, 2),
        "lead": st.sampled_from(["", "", "", " ", "\t"]),
        "trail": st.sampled_from(["", "", "", " ", "\r"]),
    }
)
_line = st.one_of(good_line, good_line, good_line, mod_line, mod_line, raw_line)
lines_st = st.one_of(st.lists(_line, max_size=40), st.lists(_line, min_size=3, max_size=14))

_near = st.builds(lambda b, d: max(0, b + d), st.sampled_from(BITLENS), st.sampled_from([-1, 0, 1, -2, 2]))
bound = st.one_of(_near, _near, st.integers(0, 20000), st.sampled_from([0, 1, 1024, 2048, 4096, 8192, 20000]))
request = st.tuples(bound, bound, bound)
ordered_request = request.map(lambda t: tuple(sorted(t)))
# out-of-range preferred sizes with a proper [min, max]: prefer <= min <= max and min <= max <= prefer
prefer_below_min = ordered_request.map(lambda t: (t[1], t[0], t[2]))
prefer_above_max = ordered_request.map(lambda t: (t[0], t[2], t[1]))
case_st = st.tuples(lines_st, st.lists(st.one_of(request, ordered_request, prefer_below_min, prefer_above_max), min_size=1, max_size=6))


def _modulus(ln):
    return (1 << (ln["bl"] - 1)) | (ln["tag"] << 1) | 1


def _hex(ln):
    """The modulus as written: case and leading zeros do not change the number."""
    h = "0" * ln.get("pad", 0) + "%X" % _modulus(ln)
    c = ln.get("hexcase", 0)
    if c == 1:
        h = h.lower()
    elif c == 2:
        h = h[: len(h) // 3] + h[len(h) // 3 :].lower()
    return h


def _ndigits(ln):
    return ln.get("pad", 0) + (ln["bl"] + 3) // 4


def _reported(ln):
    if ln.get("reptext") is not None:
        return 4 * _ndigits(ln) + ln["reptext"]
    return 0 if ln["rep"] is None else ln["bl"] + ln["rep"]


def _text(ln):
    if ln["k"] == "raw":
        return ln["text"]
    fields = ["20240101000000", str(ln["type"]), str(ln["tests"]), str(ln["tries"]), str(_reported(ln)), str(ln["gen"]), _hex(ln)]
    return ln.get("lead", "") + ln["sep"].join(fields) + ln.get("trail", "")


def _why_invalid(ln):
    """Independent acceptance rule (from the docs in primes.py / moduli(5)); None when valid."""
    if ln["type"] < 2:
        return "type<2"
    if ln["tests"] < 4:
        return "tests<4"
    if (ln["tests"] & 4) and ln["tests"] < 8 and ln["tries"] < 100:
        return "miller-rabin-tries<100"
    bl = _modulus(ln).bit_length()
    size = _reported(ln)
    if bl != size and bl != size + 1:
        return "reported-bit-length"
    return None


def execute(ctx, case):
    """case = (lines, requests[, lines2, requests2, how]); with a second file the SAME pack is reloaded after it
    served the first requests (how = 'read_file' on the object, or 'load_server_moduli' via Transport) and the
    second batch of requests is judged against the second file only."""
    from paramiko.primes import ModulusPack
    from paramiko.transport import Transport

    lines, requests = case[0], [tuple(r) for r in case[1]]
    jcase = {"lines": lines, "requests": requests}
    second = len(case) > 2 and case[2] is not None
    if second:
        jcase.update({"lines2": case[2], "requests2": [tuple(r) for r in case[3]], "how": case[4]})
    how = case[4] if second else "read_file"
    old_pack = Transport._modulus_pack
    try:
        if how == "load_server_moduli":
            Transport._modulus_pack = None
            holder = {"pack": None}
        else:
            holder = {"pack": ModulusPack()}
        if not _phase(ctx, jcase, holder, how, lines, requests, 1, second):
            return False
        if second:
            _phase(ctx, jcase, holder, how, case[2], jcase["requests2"], 2, second)
    finally:
        Transport._modulus_pack = old_pack


def _phase(ctx, jcase, holder, how, lines, requests, phase, second):
    from paramiko.ssh_exception import SSHException
    from paramiko.transport import Transport

    mods = [ln for ln in lines if ln["k"] == "mod"]
    valid = set()
    by_p = {}
    for ln in mods:
        p = _modulus(ln)
        why = _why_invalid(ln)
        by_p.setdefault(p, []).append(why)
        if why is None:
            valid.add((ln["gen"] or 2, p))
    vsizes = sorted(set(p.bit_length() for _, p in valid))

    def in_range(r):
        return [s for s in vsizes if r[0] <= s <= r[2]]

    nontrivial = len(vsizes) >= 2 and any(0 < len(in_range(r)) < len(vsizes) for r in requests)
    classes = []
    if any(r[1] < r[0] for r in requests):
        classes.append("prefer<min")
    if any(r[1] > r[2] for r in requests):
        classes.append("prefer>max")
    if any(r[0] > r[2] for r in requests):
        classes.append("min>max")
    if any(not in_range(r) for r in requests) and vsizes:
        classes.append("no-size-in-range")
    if not vsizes:
        classes.append("no-valid-line")
    if len(valid) < len(mods):
        classes.append("has-invalid-lines")
    if any(ln["k"] == "raw" for ln in lines):
        classes.append("has-malformed-lines")
    for ln in mods:
        ok = _why_invalid(ln) is None
        if ln.get("pad"):
            classes.append("zero-padded-hex:" + ("valid-line" if ok else "invalid-line"))
            if not ok and _why_invalid(ln) == "reported-bit-length" and 4 * _ndigits(ln) - _reported(ln) in (0, 1, 4, 5):
                classes.append("zero-padded-hex:reported-size-fits-written-width-only")
        if ln.get("hexcase"):
            classes.append("lowercase-or-mixed-hex")
        if ln.get("lead") or ln.get("trail"):
            classes.append("leading-or-trailing-whitespace")
    classes = sorted(set(classes))
    if phase == 1:
        if second:
            classes.append("history:reload-via-" + how)
            nontrivial = nontrivial or len(vsizes) >= 1
        ctx.case(jcase, nontrivial, classes)

    path = os.path.join(ctx.tmpdir(), "moduli%d" % phase)
    with open(path, "w") as f:
        for ln in lines:
            f.write(_text(ln) + "\n")
    try:
        if how == "load_server_moduli":
            if not Transport.load_server_moduli(path):
                raise core.HarnessError("load_server_moduli did not read %s" % path)
            holder["pack"] = Transport._modulus_pack
        else:
            holder["pack"].read_file(path)
    except core.HarnessError:
        raise
    except Exception as e:
        ctx.violation("read_file-raises", type(e).__name__, jcase, repr(e))
        return False
    pack = holder["pack"]
    jcase = dict(jcase, failing_phase=phase)

    for r in requests:
        mn, pf, mx = r
        rng = in_range(r)
        if rng:
            ge = [s for s in rng if s >= pf]
            want = min(ge) if ge else max(rng)
        else:
            want = None
        for _ in range(CALLS):
            try:
                got = pack.get_modulus(mn, pf, mx)
            except SSHException as e:
                if vsizes:
                    ctx.violation("get_modulus-raises", "SSHException-with-valid-lines", jcase, "request %r: %r" % (r, e))
                    return False
                break  # (c) satisfied
            except Exception as e:
                ctx.violation("get_modulus-raises", type(e).__name__, jcase, "request %r: %r" % (r, e))
                return False
            if not vsizes:
                ctx.violation("no-valid-moduli", "no-exception", jcase, "request %r returned a %d-bit group" % (r, got[1].bit_length()))
                return False
            g, p = got
            if (g, p) not in valid:
                whys = by_p.get(p)
                if whys is None:
                    bucket = "modulus-not-in-file"
                elif all(w is not None for w in whys):
                    bucket = "rejected-line:" + sorted(w for w in whys)[0]
                else:
                    bucket = "generator-differs"
                ctx.violation("offered-invalid-line", bucket, jcase, "request %r: g=%r p=%d bits, reasons %r" % (r, g, p.bit_length(), whys))
                return False
            size = p.bit_length()
            if want is not None and size != want:
                if size < mn:
                    bucket = "offered-below-min:" + ("prefer<min" if pf < mn else "prefer>=min")
                elif size > mx:
                    bucket = "offered-above-max"
                elif want >= pf:
                    bucket = "not-smallest-at-least-preferred"
                else:
                    bucket = "not-largest-in-range"
                known = ctx.violation(
                    "size-selection", bucket, jcase, "request (min=%d, prefer=%d, max=%d): valid sizes %r, in range %r, expected %d, offered %d" % (mn, pf, mx, vsizes, rng, want, size)
                )
                if not known:
                    return False
                break  # listed finding: go on with the next request
    return True


def run(ctx):
    ctx.set_budget(80, 840)
    ctx.explore(case_st, lambda c: execute(ctx, c), ctx.scale(1650, 30000))
    two = st.tuples(case_st, case_st, st.sampled_from(["read_file", "load_server_moduli"])).map(lambda t: (t[0][0], t[0][1], t[1][0], t[1][1], t[2]))
    ctx.explore(two, lambda c: execute(ctx, c), ctx.scale(450, 8000), seed_offset=1)


def replay(ctx, case):
    if "lines2" in case:
        execute(ctx, (case["lines"], case["requests"], case["lines2"], case["requests2"], case["how"]))
    else:
        execute(ctx, (case["lines"], case["requests"]))
