"""C22 - EOF and CLOSE are sent at most once; no DATA after them; both CLOSEs release the channel.

Engine: vlib.sched + vlib.chanbench.  One real ``paramiko.Channel`` on a fake transport whose
``_send_user_message`` appends to the wire log and is a yield point.  1-3 application tasks
(send / sendall(3 chunks) / send_stderr / shutdown_write / shutdown(2) / close / recv / channel requests that
wait for the peer's answer: exec_command, invoke_shell, invoke_subsystem, get_pty / requests that do not:
set_environment_variable, resize_pty) and an optional transport task (peer WINDOW_ADJUST / DATA / EOF / CLOSE /
CHANNEL_SUCCESS / CHANNEL_FAILURE - unsolicited, or held back (virtual time) until a reply-wanting request of an
application task is on the wire - / CHANNEL_REQUEST exit-status|unknown with and without want_reply, all through the
real handlers, as ``Transport.run`` dispatches them; "settle" = the next peer message arrives once every application
task is finished or blocked for good; the transport task is first or last in the task order) run under generated schedules; switch points: every
lock/condition/event operation, the send point, and (optionally) every source line of the
send/close paths of channel.py.
Round 4: (a) the library's own multi-message calls - the real Channel.sendall / sendall_stderr with 2-6 packets and a multi-packet
ChannelFile.write - next to the application-level send() loops; (b) the receive side: receive window 2 MiB or 32768, the transport
task starts with 0-2 inbound DATA / EXTENDED_DATA messages (an unread backlog; sizes a few bytes .. more than the window-adjust
threshold = a tenth of the window), recv / recv_stderr with read sizes below and above that threshold in every task kind (also
after the release), and the after-run probe drains both streams: WINDOW_ADJUST is a message like any other for clause 4.

A second engine ("xkex", see run_xkex): a production transport against a raw puppet on the in-memory link; the peer's [DATA] [EOF]
CLOSE for 1-2 channels cross a re-exchange the tested side has just started (its KEXINIT is held on the link), optionally with a
local shutdown_write before and a close()/shutdown_write() from an application thread during the exchange; clauses 1-3 are judged on
what the puppet received once the exchange is over (a CLOSE answer may be late, not lost).

Oracle (invariant of the outbound wire log of the channel):
  1. at most one EOF and at most one CLOSE;
  2. if a peer CLOSE reached the channel, exactly one CLOSE is on the wire at the end;
  3. no DATA / EXTENDED_DATA after this side's EOF or CLOSE;
  4. after both CLOSEs: the channel is gone from the transport's channel map, and
     a. (on the history) no operation that STARTED after both CLOSEs had been exchanged puts anything on the wire; the ones that
        are asked to transmit a payload or a request (send*, sendall*, requests, file write) raise.  "Late" tasks wait for the
        release and then run 1-4 operations of the whole surface in generated order (send*, shutdown(0|1|2), shutdown_write/_read,
        close, requests with and without reply, send_exit_status, ChannelStdinFile.close, ChannelFile.write/close);
     b. (after the run) a probe of 11 operations, order rotated by the history, logs nothing; the transmitting ones raise.
  5. a peer message handler never raises (Transport.run would end the session); an application operation raises nothing but
     OSError / EOFError / SSHException.
For clause 3 the bucket says whether the offending DATA reserved its window *before* the
EOF/CLOSE was decided (the known ``_send`` window-reservation race: lock released between
reservation and transmission) or after (a different defect).  It is judged per MESSAGE: the known race covers the one message
a writer has in flight between its reservation and its transmission; a DATA message that goes out on a reservation the same
task has already used for an earlier message (state not looked at again) is a bucket of its own.
"""
import socket

from hypothesis import strategies as st

from vlib import chanbench as CB
from vlib import sched as S
from vlib.core import HarnessError

PROPERTY = "C22"
LEVEL = "exploration"
THOROUGH_WORKERS = 16
RULE = (
    "1-3 application tasks x 1-3 ops (send n, sendall 3 chunks, send_stderr n, shutdown_write, shutdown(2), close, recv, reply-wanting "
    "request exec/shell/subsystem/pty, request without reply env/window-change, shutdown_read, shutdown(1), send_exit_status, stdin-file close, "
    "file write+flush (3 bytes | 3 packets), file close, sendall_stderr, the real Channel.sendall / sendall_stderr with 2-6 packets, recv / recv_stderr "
    "with read sizes 1..8 | 3277 | 4096 | 65536) "
    "+ optional transport task (<=4 of peer WINDOW_ADJUST/DATA/EOF/CLOSE/SUCCESS|FAILURE (unsolicited or answering a pending request)/"
    "REQUEST exit-status|unknown x want_reply/settle = wait for quiescence of the applications; transport task first|last in task order; preceded by a backlog "
    "of 0-2 inbound DATA/EXTENDED_DATA of 1..5 | 1700 | 3277 | 4000 bytes) on a real Channel over a fake transport (wire log, "
    "send point = yield point), window in {0,10,2^21}, receive window in {2^21, 32768} (WINDOW_ADJUST due after a tenth of it was consumed), timeout {0.5,None}; schedules: generated preemption list (<=3 anywhere + "
    "<=2 placed at the n-th switch point between lock release and transmission) in quick; thorough adds all schedules with <=3 "
    "preemptions (lock-level + send point) of every 2-task program with <=2 ops each over a 9-op alphabet and 6 selected 3-task "
    "programs, 8 selected request/reply programs and 7 selected multi-message-call / inbound-backlog programs, and all <=2-preemption line-level schedules of the single-op pairs; non-trivial = a task switch happened between "
    "a lock release in _send/close/shutdown/_handle_close and the corresponding transmission; distinct by SHA-1 of the case. Two further program families: "
    "'late' (peer CLOSE guaranteed; 1-2 tasks that wait until both CLOSEs are exchanged and then run 1-4 operations of the whole surface in generated "
    "order: clause 'operations on a released channel fail instead of sending' - any message incl. WINDOW_ADJUST -, judged on the history by operation start vs release point; "
    "the after-run probe also drains both streams) and "
    "'zero-window' (window 0/10, 2-3 application tasks, peer WINDOW_ADJUST/EOF/CLOSE only after the applications have settled). Family 'xkex' (real transport, "
    "client|server role, vs raw puppet): 1-2 channels x pre-op none|shutdown_write|send x peer messages [data][eof]close|eof|data crossing the tested side's own "
    "KEXINIT (held link) x local close|shutdown_write from an application thread during the exchange; oracle: exactly one CLOSE per peer CLOSE once the exchange is over"
)

CHUNK = 4096 - 64
SENDALL3 = 2 * CHUNK + 1
# payload sizes of the real Channel.sendall / sendall_stderr (2, 3, 4 and 6 packets of the bench channel's 4096-byte limit)
BULK_SIZES = [CHUNK + 1, 2 * CHUNK + 1, 4 * CHUNK, 5 * CHUNK + 7]
# receive side: the bench channel's receive window is 2 MiB or the documented minimum 32768 (WINDOW_ADJUST is due once more than a
# tenth of it - 3276 bytes - was consumed); inbound messages and read sizes below / around / above that threshold
IN_WINDOWS = [2 ** 21, 32768, 32768]
BACKLOG_SIZES = [1700, 3277, 4000]
READ_SIZES = [3277, 4096, 65536]

data_close_op = st.one_of(
    st.tuples(st.just("send"), st.integers(1, 20)),
    st.tuples(st.just("send"), st.integers(1, 20)),
    st.tuples(st.just("sendall3")),
    st.tuples(st.just("send_stderr"), st.integers(1, 20)),
    st.tuples(st.just("shutdown_write")),
    st.tuples(st.just("shutdown2")),
    st.tuples(st.just("close")),
    st.tuples(st.just("close")),
    st.tuples(st.just("recv"), st.integers(1, 8)),
    # the library's own multi-packet loops (one call = several DATA / EXTENDED_DATA messages)
    st.tuples(st.just("sendall"), st.sampled_from(BULK_SIZES)),
    st.tuples(st.just("sendall_err"), st.sampled_from(BULK_SIZES)),
)
# readers of either stream, read sizes below and above the window-adjust threshold
read_op = st.tuples(st.sampled_from(["recv", "recv_stderr"]), st.one_of(st.integers(1, 8), st.sampled_from(READ_SIZES)))
request_op = st.one_of(
    st.tuples(st.just("req"), st.sampled_from(["exec", "shell", "subsystem", "pty"])),
    st.tuples(st.just("req"), st.sampled_from(["exec", "shell", "subsystem", "pty"])),
    st.tuples(st.just("req_nr"), st.sampled_from(["env", "resize"])),
)
# further operations of the public surface that (may) transmit: the other shutdown variants, the exit-status request, the file
# wrappers (ChannelStdinFile.close() half-closes; ChannelFile.write()+flush() sends)
misc_op = st.sampled_from(
    [("shutdown_read",), ("shutdown1",), ("exit_status",), ("stdin_close",), ("file_write",), ("file_close",), ("sendall_stderr", 7), ("file_write", 2 * CHUNK + 1)]
)
# two levels, so that the request dimension does not thin out the data/close interleavings (3 : 1)
app_op = st.one_of(data_close_op, data_close_op.map(lambda v: v), data_close_op.map(lambda v: (v)), request_op, misc_op, read_op)
# "life after release": a task that waits until both CLOSEs have been exchanged (the channel is released on both sides) and
# then goes on operating on the Channel object, any operations in any order
late_op = st.one_of(data_close_op, request_op, misc_op, misc_op.map(lambda v: v), read_op)
late_task = st.lists(late_op, min_size=1, max_size=4).map(lambda ops: [("await_released",)] + list(ops))
# inbound data of either stream; sizes: a few bytes, or a sizeable part of / more than the window-adjust threshold
inbound_op = st.tuples(st.sampled_from(["peer_data", "peer_data_err"]), st.one_of(st.integers(1, 5), st.sampled_from(BACKLOG_SIZES)))
# what the peer sent earlier: the transport task starts with 0-2 inbound data messages (an unread backlog, unless a reader drains it)
backlog = st.lists(inbound_op, max_size=2)
stream_peer_op = st.one_of(
    st.tuples(st.just("adjust"), st.sampled_from([0, 5, 10000])),
    st.tuples(st.just("adjust"), st.sampled_from([1, 5, 10000])),
    st.tuples(st.just("peer_data"), st.integers(1, 5)),
    inbound_op,
    st.tuples(st.just("peer_eof")),
    st.tuples(st.just("peer_close")),
    st.tuples(st.just("peer_close")),
    # the peer's next message arrives at quiescence: every application task is finished or blocked for good
    # (blocked senders / requesters / readers included) - the complement of "racing the applications"
    st.tuples(st.just("settle")),
)
request_peer_op = st.one_of(
    # ("reply", ok, wait): CHANNEL_SUCCESS / CHANNEL_FAILURE; wait = hold it back until an unanswered reply-wanting
    # request of an application task is on the wire (or a virtual 5 s have passed), else it is unsolicited
    st.tuples(st.just("reply"), st.booleans(), st.booleans()),
    st.tuples(st.just("reply"), st.booleans(), st.booleans()),
    st.tuples(st.just("peer_req"), st.sampled_from(["exit-status", "unknown@verif"]), st.booleans()),
)
peer_op = st.one_of(stream_peer_op, stream_peer_op, request_peer_op)

case_st = st.fixed_dictionaries(
    {
        "win": st.sampled_from([2 ** 21, 2 ** 21, 10, 0]),
        "in_win": st.sampled_from(IN_WINDOWS),
        "timeout": st.sampled_from([0.5, 0.5, None]),
        "peer": st.tuples(backlog, st.lists(peer_op, max_size=4)).map(lambda t: list(t[0]) + list(t[1])),
        # position of the transport task in the task order: with the default continuation of a schedule (run the current
        # task until it blocks, then the first runnable one) "first" makes peer messages arrive before the applications
        # act, "last" after they have finished or blocked
        "torder": st.sampled_from(["first", "last"]),
        "apps": st.lists(st.lists(app_op, min_size=1, max_size=3), min_size=1, max_size=3),
        "sched": S.schedule_strategy(max_pre=3, max_gap=50, max_forced=12, max_hot=2, hot_range=10),
        "trace": st.booleans(),
    }
)

def _with_peer_close(peer, at):
    peer = list(peer)
    if ("peer_close",) not in [tuple(p) for p in peer]:
        peer.insert(at % (len(peer) + 1), ("peer_close",))
    return peer


# programs whose peer closes the channel at some point and that contain at least one "late" task
late_case_st = st.fixed_dictionaries(
    {
        "win": st.sampled_from([2 ** 21, 2 ** 21, 10, 0]),
        "in_win": st.sampled_from(IN_WINDOWS),
        "timeout": st.sampled_from([0.5, 0.5, None]),
        "peer": st.tuples(backlog, st.lists(peer_op, max_size=3), st.integers(0, 3)).map(lambda t: list(t[0]) + _with_peer_close(t[1], t[2])),
        "torder": st.sampled_from(["first", "last"]),
        "apps": st.tuples(st.lists(st.lists(app_op, min_size=1, max_size=3), max_size=2), st.lists(late_task, min_size=1, max_size=2)).map(lambda t: list(t[0]) + list(t[1])),
        "sched": S.schedule_strategy(max_pre=3, max_gap=50, max_forced=12, max_hot=2, hot_range=10),
        "trace": st.booleans(),
    }
)

# programs on a closed or nearly closed send window: writers park on the window, other tasks shut down / close meanwhile, and the
# peer's WINDOW_ADJUSTs arrive late (after a "settle" = everybody finished or parked)
_zw_peer_tail = st.lists(
    st.one_of(st.tuples(st.just("adjust"), st.sampled_from([1, 5, 10000])), st.tuples(st.just("settle")), st.tuples(st.just("peer_eof")), st.tuples(st.just("peer_close"))),
    min_size=1,
    max_size=3,
)
zero_window_case_st = st.fixed_dictionaries(
    {
        "win": st.sampled_from([0, 0, 10]),
        "in_win": st.sampled_from(IN_WINDOWS),
        "timeout": st.sampled_from([0.5, None, None]),
        "peer": st.tuples(st.lists(peer_op, max_size=1), _zw_peer_tail).map(lambda t: list(t[0]) + [("settle",)] + list(t[1])),
        "torder": st.sampled_from(["first", "last"]),
        "apps": st.lists(st.lists(st.one_of(data_close_op, data_close_op.map(lambda v: v), misc_op), min_size=1, max_size=2), min_size=2, max_size=3),
        "sched": S.schedule_strategy(max_pre=3, max_gap=50, max_forced=12, max_hot=2, hot_range=10),
        "trace": st.booleans(),
    }
)

TRACED = {
    "send", "send_stderr", "sendall", "sendall_stderr", "_send", "_wait_for_send_window", "close", "_close_internal", "_send_eof",
    "_handle_close", "_handle_eof", "shutdown", "shutdown_write", "_set_closed", "_request_failed", "_unlink",
}
# operations that are asked to transmit a payload / a request: on a released channel they raise (the others - shutdown*, close,
# file close, send_exit_status - may be silent no-ops, but must not send either)
MUST_RAISE = {"send", "sendall", "sendall3", "send_stderr", "sendall_stderr", "sendall_err", "req", "req_nr", "file_write"}
CRIT_FUNCS = {"_send", "close", "shutdown", "_handle_close", "_request_failed"}
REPLY_WAIT = 5.0  # virtual seconds a held-back SUCCESS/FAILURE waits for a request to answer


def in_critical(tag):
    """Switch points between releasing the channel lock and transmitting."""
    if tag[0] == "send":
        return True
    if tag[0] == "release" and tag[1] == "chan.lock":
        return True
    return tag[0] == "line" and tag[2] in CRIT_FUNCS


class Bench:
    def __init__(self, case, strategy):
        import paramiko.channel as PC

        tf = {PC.__file__: TRACED} if case.get("trace") else None
        self.s = s = S.Scheduler(strategy, trace_files=tf, max_steps=30000)
        self.ft = CB.FakeTransport(s)
        self.chan = chan = CB.make_channel(s, self.ft, chanid=1, remote_chanid=7, out_window=case["win"], out_max_packet=4096, in_window=case.get("in_win") or 2 ** 21)
        chan.settimeout(case["timeout"])
        self.peer_close_dispatched = False
        self.in_threshold = (case.get("in_win") or 2 ** 21) // 10  # consumed bytes after which a WINDOW_ADJUST is due
        self.probe_drained = 0
        self.op_exc = []
        self.unexpected = []  # (clause, bucket, detail): exceptions that are no legitimate outcome of an operation
        self.excluded_spin = 0
        self.answered = 0
        self.reply_classes = set()
        # observation points inside the lock-held regions (instance-level wrappers, no change of behaviour).  They only refine the
        # bucket of a clause-3 violation; a tree without one of these private methods is judged without it ("no-reservation-seen")
        real_wait = getattr(chan, "_wait_for_send_window", None)
        real_eof = getattr(chan, "_send_eof", None)
        real_ci = getattr(chan, "_close_internal", None)

        # (pass-through signatures: the wrappers must not care how the wrapped methods are called)
        def wait_for_send_window(*a, **kw):
            n = real_wait(*a, **kw)
            if n:
                s.note(("reserve", s.current_name(), n))
            return n

        def send_eof(*a, **kw):
            m = real_eof(*a, **kw)
            if m is not None:
                s.note(("eof-built", s.current_name()))
            return m

        def close_internal(*a, **kw):
            r = real_ci(*a, **kw)
            if isinstance(r, tuple) and len(r) > 1 and r[1] is not None:
                s.note(("close-built", s.current_name()))
            return r

        if real_wait is not None:
            chan._wait_for_send_window = wait_for_send_window
        if real_eof is not None:
            chan._send_eof = send_eof
        if real_ci is not None:
            chan._close_internal = close_internal

    def released(self):
        """Both CLOSEs exchanged: the peer's CLOSE was handled by the channel and ours is on the wire."""
        return self.peer_close_dispatched and any(w["type"] == "CLOSE" for w in self.ft.wire)

    def do(self, op, tname, salt):
        k = op[0]
        self.s.note(("op-start", tname, k if k != "req" and k != "req_nr" else "%s:%s" % (k, op[1])))
        n0 = len(self.op_exc)
        self._do(op, tname, salt)
        self.s.note(("op-end", tname, k, self.op_exc[-1][2] if len(self.op_exc) > n0 else None))

    def _do(self, op, tname, salt):
        ft, chan = self.ft, self.chan
        k = op[0]
        try:
            if k == "await_released":
                if not self.released():
                    self.s.block_until(self.released, ("await-both-closes",))
            elif k == "shutdown_read":
                chan.shutdown_read()
            elif k == "shutdown1":
                chan.shutdown(1)
            elif k == "exit_status":
                chan.send_exit_status(salt)
            elif k == "stdin_close":
                chan.makefile_stdin("wb").close()
            elif k == "file_write":
                f = chan.makefile("wb")
                f.write(bytes([salt]) * (op[1] if len(op) > 1 else 3))
                f.flush()
            elif k == "sendall":
                chan.sendall(bytes([salt]) * op[1])
            elif k == "sendall_err":
                chan.sendall_stderr(bytes([salt]) * op[1])
            elif k == "recv_stderr":
                self.s.note(("read", tname, 1, len(chan.recv_stderr(op[1]))))
            elif k == "peer_data_err":
                if ft.deliver(CB.MSG_CHANNEL_EXTENDED_DATA, 1, 1, bytes([salt]) * op[1]):
                    self.s.note(("inbound", 1, op[1]))
            elif k == "file_close":
                chan.makefile("rwb").close()
            elif k == "sendall_stderr":
                data = bytes([salt]) * op[1]
                while data:  # as for sendall3: the real loop may spin after EOF was sent (C25 finding)
                    n = chan.send_stderr(data)
                    if n == 0:
                        self.excluded_spin += 1
                        break
                    data = data[n:]
            elif k == "send":
                chan.send(bytes([salt]) * op[1])
            elif k == "sendall3":
                # Channel.sendall's loop, but giving up when send() returns 0: the real loop spins
                # forever after EOF was sent (known C25 finding) - excluded here by construction
                data = bytes([salt]) * SENDALL3
                while data:
                    n = chan.send(data)
                    if n == 0:
                        self.excluded_spin += 1
                        break
                    data = data[n:]
            elif k == "send_stderr":
                chan.send_stderr(bytes([salt]) * op[1])
            elif k == "shutdown_write":
                chan.shutdown_write()
            elif k == "shutdown2":
                chan.shutdown(2)
            elif k == "close":
                chan.close()
            elif k == "recv":
                self.s.note(("read", tname, 0, len(chan.recv(op[1]))))
            elif k == "req":
                if op[1] == "exec":
                    chan.exec_command(b"cmd")
                elif op[1] == "shell":
                    chan.invoke_shell()
                elif op[1] == "subsystem":
                    chan.invoke_subsystem("sub")
                else:
                    chan.get_pty()
            elif k == "req_nr":
                if op[1] == "env":
                    chan.set_environment_variable("A", "b")
                else:
                    chan.resize_pty(100, 30)
            elif k == "reply":
                self.reply(bool(op[1]), bool(op[2]))
            elif k == "peer_req":
                if op[1] == "exit-status":
                    ft.deliver(CB.MSG_CHANNEL_REQUEST, 1, b"exit-status", bool(op[2]), 7)
                else:
                    ft.deliver(CB.MSG_CHANNEL_REQUEST, 1, op[1].encode(), bool(op[2]))
            elif k == "settle":
                self.s.let_others_run("peer-message-at-quiescence")
                self.reply_classes.add("peer-message-at-quiescence-of-applications")
            elif k == "adjust":
                if op[1] and any(t.state == "blocked" and t.reason == ("cond", "chan.out_buffer_cv") for t in self.s.tasks):
                    state = "after-own-close" if chan.closed else ("after-own-eof" if chan.eof_sent else "open")
                    self.reply_classes.add("window-adjust-reaches-blocked-writer:" + state)
                ft.deliver(CB.MSG_CHANNEL_WINDOW_ADJUST, 1, op[1])
            elif k == "peer_data":
                if ft.deliver(CB.MSG_CHANNEL_DATA, 1, bytes([salt]) * op[1]):
                    self.s.note(("inbound", 0, op[1]))
            elif k == "peer_eof":
                ft.deliver(CB.MSG_CHANNEL_EOF, 1)
            elif k == "peer_close":
                if ft.deliver(CB.MSG_CHANNEL_CLOSE, 1):
                    self.peer_close_dispatched = True
                    self.s.note(("peer-close-handled",))
            else:
                raise HarnessError("bad op %r" % (op,))
        except (S.HarnessAbort, HarnessError):
            raise
        except Exception as e:  # outcome of the operation; C22 judges the wire, not the call results
            self.op_exc.append((tname, k, type(e).__name__))
            from paramiko.ssh_exception import SSHException

            if tname == "transport":
                # Transport.run dispatches these handlers on the transport thread: an exception there ends the whole session
                # (and e.g. leaves the peer's CLOSE unanswered) - never an "outcome"
                self.unexpected.append(("peer-message-handler-raises", "%s:%s" % (k, type(e).__name__), "%s raised %r" % (list(op), e)))
            elif not isinstance(e, (OSError, EOFError, SSHException)):  # socket.error/timeout are OSErrors
                self.unexpected.append(("operation-raises-unexpected-exception", "%s:%s" % (k, type(e).__name__), "%s raised %r" % (list(op), e)))

    def _unanswered(self):
        return sum(1 for w in self.ft.wire if w["type"] == "REQUEST" and w.get("want_reply")) - self.answered

    def reply(self, ok, wait):
        """Peer CHANNEL_SUCCESS / CHANNEL_FAILURE through the real handler (transport task)."""
        ft, chan = self.ft, self.chan
        if wait and self._unanswered() <= 0:
            self.s.block_until(lambda: self._unanswered() > 0, ("await-request-to-answer",), timeout=REPLY_WAIT)
        solicited = self._unanswered() > 0
        if solicited:
            self.answered += 1
        kind = "success" if ok else "failure"
        state = "after-own-close" if chan.closed else ("after-own-eof" if chan.eof_sent else "open")
        if ft.deliver(CB.MSG_CHANNEL_SUCCESS if ok else CB.MSG_CHANNEL_FAILURE, 1):
            self.reply_classes.add("peer-%s:%s:%s" % (kind, "answers-pending-request" if solicited else "unsolicited", state))
        else:
            self.reply_classes.add("peer-%s:channel-already-released" % kind)

    def run(self, case):
        s = self.s
        tasks = []
        for i, ops in enumerate(case["apps"]):
            tasks.append(("app%d" % i, [tuple(o) for o in ops]))
        if case["peer"]:
            tasks.insert(len(tasks) if case.get("torder") == "last" else 0, ("transport", [tuple(o) for o in case["peer"]]))

        def mk(tname, ops, base):
            def body():
                for oi, op in enumerate(ops):
                    self.do(op, tname, base + oi)

            return body

        for ti, (tname, ops) in enumerate(tasks):
            s.spawn(tname, mk(tname, ops, 16 * (ti + 1)))
        with S.patch_time(s, *CB.chan_time_modules()):
            return s.run()

    def probe(self):
        """After both CLOSEs: operations must fail and log nothing."""
        out = []
        chan, ft = self.chan, self.ft
        real_send = chan.send
        zeros = [0]

        class _Spin(Exception):
            pass

        def guarded_send(data):  # Channel.sendall must not be able to hang the (non-task) probe
            n = real_send(data)
            zeros[0] = zeros[0] + 1 if n == 0 else 0
            if zeros[0] >= 50:
                raise _Spin()
            return n

        chan.send = guarded_send

        def file_write():
            f = chan.makefile("wb")
            f.write(b"p")
            f.flush()

        def drain(f):  # never blocks the (non-task) probe, whatever the state of the pipes
            old = chan.gettimeout()
            chan.settimeout(0.0)
            try:
                n = len(f(1 << 20))
            finally:
                chan.settimeout(old)
            self.probe_drained += n
            return n

        probes = [
            ("send", lambda: chan.send(b"p")),
            ("shutdown_write", lambda: chan.shutdown_write()),
            ("send_stderr", lambda: chan.send_stderr(b"p")),
            ("stdin_close", lambda: chan.makefile_stdin("wb").close()),
            ("sendall", lambda: chan.sendall(b"p")),
            ("shutdown2", lambda: chan.shutdown(2)),
            ("req", lambda: chan.exec_command(b"p")),
            ("exit_status", lambda: chan.send_exit_status(1)),
            ("req_nr", lambda: chan.resize_pty(9, 9)),
            ("file_write", file_write),
            ("close", lambda: chan.close()),
            # draining what arrived before the release is fine (and returns data); it must not send anything either
            ("recv", lambda: drain(chan.recv)),
            ("recv_stderr", lambda: drain(chan.recv_stderr)),
        ]
        r0 = len(ft.wire) % len(probes)  # order: rotated by the history
        for name, call in probes[r0:] + probes[:r0]:
            before = len(ft.wire) + len(ft.dropped)
            try:
                r = call()
                res = ("returned", r)
            except (socket.error, EOFError) as e:
                res = ("raised", type(e).__name__)
            except _Spin:
                res = ("spins: send() keeps returning 0",)
            except Exception as e:
                from paramiko.ssh_exception import SSHException

                if not isinstance(e, SSHException):
                    raise
                res = ("raised", type(e).__name__)
            out.append((name, res, len(ft.wire) + len(ft.dropped) - before))
        return out


def judge(bench, res):
    viol = list(bench.unexpected)
    classes = set()
    wire = bench.ft.wire
    log = res.log
    types = [w["type"] for w in wire]
    n_eof = types.count("EOF")
    n_close = types.count("CLOSE")
    if n_eof > 1:
        viol.append(("eof-more-than-once", "%d" % min(n_eof, 3), "wire=%r" % (types,)))
    if n_close > 1:
        viol.append(("close-more-than-once", "%d" % min(n_close, 3), "wire=%r" % (types,)))
    finished = res.outcome == "ok"
    if finished and bench.peer_close_dispatched and n_close != 1:
        viol.append(("peer-close-not-answered", "closes=%d" % n_close, "peer CLOSE was handled by the channel, wire=%r" % (types,)))
    # clause 3: DATA after EOF/CLOSE
    first_end = None
    for i, t in enumerate(types):
        if t in ("EOF", "CLOSE"):
            first_end = i
            break
    if first_end is not None:
        pos = {}  # id(entry) -> log index of its wire event; reserve events per task
        for li, ev in enumerate(log):
            if ev[0] == "wire":
                pos[id(ev[1])] = li
        built = [li for li, ev in enumerate(log) if ev[0] in ("eof-built", "close-built")]
        first_built = built[0] if built else None
        for w in wire[first_end + 1:]:
            if w["type"] not in ("DATA", "EXTENDED_DATA"):
                continue
            wi = pos[id(w)]
            # the reservation of this message: last "reserve" of the same task before its wire event
            ri = None
            for li in range(wi - 1, -1, -1):
                ev = log[li]
                if ev[0] == "reserve" and ev[1] == w["task"]:
                    ri = li
                    break
            # messages the same task already transmitted on this reservation: the known race is "ONE message in flight between
            # its reservation and its transmission"; a reservation that is used for a further message without looking at the
            # channel state again is a different defect (judged per message, not per reservation)
            used = 0
            if ri is not None:
                used = sum(1 for li in range(ri + 1, wi) if log[li][0] == "wire" and log[li][1].get("task") == w["task"] and log[li][1]["type"] in ("DATA", "EXTENDED_DATA"))
            if ri is None or first_built is None:
                how = "no-reservation-seen"
            elif used:
                how = "later-message-of-a-reservation-already-used(state-not-rechecked-per-message)"
            elif ri < first_built:
                how = "window-reserved-before-EOF/CLOSE-was-decided"
            else:
                how = "window-reserved-after-EOF/CLOSE-was-decided"
            viol.append(("data-after-eof-or-close", how, "%s (%d bytes, task %s) follows %s on the wire: %r" % (w["type"], len(w["data"]), w["task"], wire[first_end]["type"], types)))
        if any(t == "EOF" for t in types[first_end + 1:]) and types[first_end] == "CLOSE":
            classes.add("eof-after-close-on-wire(not-asserted)")
    # clause 4, on the history: an operation that STARTED after both CLOSEs had been exchanged puts nothing on the wire (and the
    # ones that are asked to transmit something raise)
    rel = None
    i_close = next((li for li, ev in enumerate(log) if ev[0] == "wire" and ev[1]["type"] == "CLOSE"), None)
    i_peer = next((li for li, ev in enumerate(log) if ev[0] == "peer-close-handled"), None)
    if i_close is not None and i_peer is not None:
        rel = max(i_close, i_peer)
        cur = {}  # task -> (log index of op-start, op name)
        for li, ev in enumerate(log):
            if ev[0] == "op-start":
                cur[ev[1]] = (li, ev[2])
                if li > rel and ev[2] != "await_released" and ev[1] != "transport":
                    classes.add("operation-started-after-release:" + ev[2].split(":")[0])
            elif ev[0] == "op-end" and li > rel:
                st_, name = cur.get(ev[1], (None, None))
                if st_ is not None and st_ > rel and name.split(":")[0] in MUST_RAISE and ev[3] is None:
                    viol.append(("operation-after-release-succeeds", name.split(":")[0], "%s started after both CLOSEs were exchanged and returned normally; wire=%r" % (name, types)))
            elif ev[0] in ("wire", "dropped") and li > rel:
                st_, name = cur.get(ev[1].get("task"), (None, None))
                if st_ is None or ev[1].get("task") == "transport":
                    continue
                if st_ > rel:
                    viol.append(("operation-after-release-sends", name.split(":")[0], "%s (task %s) started after both CLOSEs were exchanged and put %s on the wire: %r" % (name, ev[1].get("task"), ev[1]["type"], types)))
                else:
                    classes.add("message-after-release-from-operation-already-in-flight(not-asserted)")
    # clause 4, probes after the run
    if finished and bench.peer_close_dispatched and n_close >= 1:
        classes.add("both-closes-exchanged")
        if bench.ft._channels.get(1) is not None:
            viol.append(("not-released", "still-in-channel-map", "both CLOSEs exchanged but the transport still maps id 1 to the channel"))
        for name, r, logged in bench.probe():
            if logged:
                viol.append(("operation-after-release-sends", name, "%s after both CLOSEs put %d message(s) on the wire (%r)" % (name, logged, r)))
            elif r[0] != "raised" and name in MUST_RAISE:
                viol.append(("operation-after-release-succeeds", name, "%s after both CLOSEs %r" % (name, r)))
        if bench.probe_drained > bench.in_threshold:
            classes.add("released-channel-drained-beyond-window-adjust-threshold:by-probe")
    # evidence: the receive-side dimension (unread inbound data vs the window-adjust threshold) and multi-message calls
    thr = bench.in_threshold
    unread = 0
    late_read = 0
    for li, ev in enumerate(log):
        if ev[0] == "inbound" and (rel is None or li < rel):
            unread += ev[2]
        elif ev[0] == "read":
            if rel is None or li < rel:
                unread -= ev[3]
            else:
                late_read += ev[3]
    if rel is not None and unread > thr:
        classes.add("unread-backlog-above-window-adjust-threshold-at-release")
    if late_read > thr:
        classes.add("released-channel-drained-beyond-window-adjust-threshold:by-late-reads")
    if any(t == "WINDOW_ADJUST" for t in types):
        classes.add("window-adjust-sent")
    per_call = {}  # (task, log index of the op-start) -> DATA / EXTENDED_DATA messages of that call
    open_op = {}
    for li, ev in enumerate(log):
        if ev[0] == "op-start":
            open_op[ev[1]] = (li, ev[2])
        elif ev[0] == "wire" and ev[1]["type"] in ("DATA", "EXTENDED_DATA") and ev[1].get("task") in open_op:
            st_, name = open_op[ev[1]["task"]]
            if name in ("sendall", "sendall_err", "file_write"):
                per_call[(ev[1]["task"], st_)] = per_call.get((ev[1]["task"], st_), 0) + 1
        elif ev[0] in ("eof-built", "close-built"):
            for tname, (st_, name) in open_op.items():
                if name in ("sendall", "sendall_err", "file_write") and tname != ev[1] and per_call.get((tname, st_), 0) >= 1:
                    classes.add("EOF/CLOSE-decided-between-the-messages-of-one-sendall-call")
        elif ev[0] == "op-end":
            open_op.pop(ev[1], None)
    if any(n >= 2 for n in per_call.values()):
        classes.add("one-sendall-call-sent-several-messages")
    if res.outcome == "deadlock":
        classes.add("deadlock(blocked recv/send/request; not judged here)")
    elif res.outcome == "budget":
        viol.append(("no-termination", "step-budget", "waits=%r" % (res.waits,)))
    elif res.outcome != "ok":
        raise HarnessError("outcome %r" % res.outcome)
    for name, info in res.tasks.items():
        if info.exc is not None:
            raise HarnessError("task %s died: %s" % (name, info.tb))
    crit = res.switched_in(in_critical, preempt_only=False)
    if crit:
        classes.add("switch-between-lock-release-and-transmit")
    if n_eof:
        classes.add("eof-sent")
    if n_close:
        classes.add("close-sent")
    if any(t in ("DATA", "EXTENDED_DATA") for t in types):
        classes.add("data-sent")
    for _t, k, en in bench.op_exc:
        classes.add("op-raised:%s" % en)
    classes.update(bench.reply_classes)
    if any(t == "REQUEST" for t in types):
        classes.add("request-sent")
    return viol, classes, crit > 0


def execute(ctx, case, strategy=None, extra_classes=()):
    strat = strategy if strategy is not None else S.strategy_from_case(case["sched"], in_critical)
    b = Bench(case, strat)
    res = b.run(case)
    viol, classes, nontrivial = judge(b, res)
    if strategy is not None and isinstance(strategy, S.DFSStrategy):
        case = dict(case)
        case["sched"] = {"dfs": [t[2] for t in strategy.trace]}
    if case["peer"]:
        classes.add("transport-task-" + ("last" if case.get("torder") == "last" else "first"))
    ctx.case(case, nontrivial, sorted(classes) + list(extra_classes))
    if b.excluded_spin:
        ctx.exclude("C25:sendall-would-spin-after-eof_sent(loop ended by the harness)", b.excluded_spin)
    seen = set()
    for clause, bucket, detail in viol:
        if (clause, bucket) not in seen:
            seen.add((clause, bucket))
            ctx.violation(clause, bucket, case, detail)


# ----------------------------------------------------------------------------- real transport: peer CLOSE crossing a re-exchange
#
# Family "xkex" (E3: production transport vs raw puppet on the in-memory link, latency control by holding one direction): the
# tested side starts a key re-exchange (renegotiate_keys) whose KEXINIT is held on the link, so the peer does not know about it
# yet and - legitimately - still sends connection-layer messages: [DATA] [EOF] CLOSE for 1-2 open channels.  They reach the
# tested side between its KEXINIT and the peer's.  Then the link is released, the exchange completes, and a sentinel round trip
# makes the puppet's log complete.  Optional local operations: shutdown_write before the exchange; close()/shutdown_write() from an
# application thread while the exchange is in flight.  Oracle = clauses 1-2 on the wire the puppet saw: exactly one CLOSE per
# channel whose peer CLOSE was delivered (the answer may be late, it may not be lost), at most one EOF, no DATA after them.

XTO = 20.0
X_SENTINEL = 193


def run_xkex(ctx, case):
    import threading
    import time

    from vlib import peers
    from vlib import refssh as R

    role = case["role"]
    if role == "client":
        link, tc, ts, _ = peers.connected_pair(client_cls=peers.VTransport, server_cls=peers.Puppet)
        tested, puppet, out_dir, in_dir = tc, ts, link.ab, link.ba
    else:
        link, tc, ts, _ = peers.connected_pair(client_cls=peers.Puppet, server_cls=peers.VTransport)
        tested, puppet, out_dir, in_dir = ts, tc, link.ba, link.ab
    puppet.raw()
    seen = [0]
    threads = []

    def wait_entry(pred, what):
        start = seen[0]

        def got(lg):
            for i in range(start, len(lg)):
                if pred(lg[i]):
                    return i + 1
            return None

        r = puppet.wait_log(got, timeout=XTO)
        if not r:
            raise HarnessError("C22 xkex: tested side never sent %s" % what)
        return puppet.log[r - 1]

    def sync():
        q = puppet.send_raw_seq(bytes([X_SENTINEL]) + b"verif")
        echo = R.u32(q)
        start = seen[0]

        def got(lg):
            for i in range(start, len(lg)):
                if lg[i][1] == 3 and lg[i][2] == echo:
                    return i + 1
            if not tested.is_active():
                return -1
            return None

        r = puppet.wait_log(got, timeout=XTO)
        if not r or r < 0:
            return None
        seen[0] = r
        return True

    def idle(direction):
        end = time.time() + XTO
        ok = 0
        while time.time() < end:
            ok = ok + 1 if direction.idle() else 0
            if ok >= 3:
                return True
            time.sleep(0.002)
        return False

    classes = ["xkex", "xkex:" + role, "xkex:chans=%d" % len(case["chans"])]
    try:
        chans = []
        for i, spec in enumerate(case["chans"]):
            pid = 700 + i
            if role == "client":
                res = {}
                th = threading.Thread(target=lambda res=res: res.setdefault("c", tested.open_session(timeout=XTO)), daemon=True)
                th.start()
                e = wait_entry(lambda e: e[1] == 90, "CHANNEL_OPEN")
                rd = R.Reader(e[2])
                rd.string()
                tid = rd.u32()
                puppet.send_raw_seq(peers.m_channel_open_confirm(tid, pid))
                th.join(XTO)
                ch = res.get("c")
            else:
                puppet.send_raw_seq(peers.m_channel_open(b"session", pid))
                e = wait_entry(lambda e: e[1] == 91, "OPEN_CONFIRMATION")
                rd = R.Reader(e[2])
                rd.u32()
                tid = rd.u32()
                ch = tested.accept(XTO)
            if ch is None:
                raise HarnessError("C22 xkex: channel setup failed")
            if sync() is None:
                raise HarnessError("C22 xkex: no sentinel echo during setup")
            chans.append(dict(ch=ch, tid=tid, pid=pid, spec=spec))
        for c in chans:
            if c["spec"]["pre"] == "shutdown_write":
                c["ch"].shutdown_write()
            elif c["spec"]["pre"] == "send":
                c["ch"].send(b"before")
        if sync() is None:
            raise HarnessError("C22 xkex: no sentinel echo after the pre-operations")
        # the tested side starts a re-exchange; its KEXINIT waits on the link
        out_dir.set_hold(True)
        n0 = out_dir.n_pending()
        rk = {}

        def rekey():
            try:
                tested.renegotiate_keys()
                rk["r"] = "ok"
            except Exception as e:
                rk["r"] = "exc %r" % (e,)

        th = threading.Thread(target=rekey, daemon=True)
        threads.append(th)
        th.start()
        if not out_dir.wait_pending(n0 + 1, XTO):
            raise HarnessError("C22 xkex: KEXINIT not pending on the held link")
        # the peer, not knowing about it, goes on: [DATA] [EOF] CLOSE
        for c in chans:
            for m in c["spec"]["cross"]:
                if m == "data":
                    puppet.send_raw_seq(peers.m_channel_data(c["tid"], b"crossing"))
                elif m == "eof":
                    puppet.send_raw_seq(peers.m_channel_eof(c["tid"]))
                elif m == "close":
                    puppet.send_raw_seq(peers.m_channel_close(c["tid"]))
                    c["peer_closed"] = True
            classes.append("xkex:crossing=" + "+".join(c["spec"]["cross"]))
        if not idle(in_dir):
            raise HarnessError("C22 xkex: tested side did not consume the crossing messages")
        # application threads acting while the exchange is in flight (they wait for it to finish)
        for c in chans:
            op = c["spec"]["during"]
            if op != "none":
                classes.append("xkex:local-%s-during-exchange" % op)
                f = c["ch"].close if op == "close" else c["ch"].shutdown_write
                t2 = threading.Thread(target=lambda f=f: _quiet(f), daemon=True)
                threads.append(t2)
                t2.start()
        time.sleep(0.01)
        out_dir.set_hold(False)
        for t in threads:
            t.join(XTO)
        ctx.case(case, True, sorted(set(classes)))
        if any(t.is_alive() for t in threads) or rk.get("r") != "ok" or sync() is None:
            ctx.violation(
                "peer-close-not-answered",
                "xkex:exchange-or-session-failed",
                case,
                "re-exchange crossed by the peer's %r: renegotiate_keys -> %r, threads alive %r, tested active=%s exception=%r"
                % ([c["spec"]["cross"] for c in chans], rk.get("r"), [t.is_alive() for t in threads], tested.is_active(), tested.get_exception()),
            )
            return
        log = list(puppet.log)
        for c in chans:
            mine = [e[1] for e in log if e[1] in (94, 95, 96, 97) and e[2][:4] == R.u32(c["pid"])]
            n_close, n_eof = mine.count(97), mine.count(96)
            where = "channel %d (crossing %r, pre %s, during %s): tested side sent %r" % (c["tid"], c["spec"]["cross"], c["spec"]["pre"], c["spec"]["during"], mine)
            if n_close > 1:
                ctx.violation("close-more-than-once", "xkex:%d" % min(n_close, 3), case, where)
            if n_eof > 1:
                ctx.violation("eof-more-than-once", "xkex:%d" % min(n_eof, 3), case, where)
            if c.get("peer_closed") and n_close == 0:
                ctx.violation("peer-close-not-answered", "xkex:closes=0", case, where + " - the peer's CLOSE crossed our KEXINIT and was never answered")
            ends = [i for i, t in enumerate(mine) if t in (96, 97)]
            if ends and any(t in (94, 95) for t in mine[ends[0] + 1 :]):
                ctx.violation("data-after-eof-or-close", "xkex", case, where)
    finally:
        out_dir.set_hold(False)
        peers.shutdown(tested, puppet)
        for t in threads:
            t.join(XTO)


def _quiet(f):
    try:
        f()
    except Exception:
        pass  # outcome of the call is not judged here (the wire is)


xkex_chan = st.fixed_dictionaries(
    {
        "pre": st.sampled_from(["none", "none", "shutdown_write", "send"]),
        "cross": st.sampled_from([["close"], ["close"], ["eof", "close"], ["data", "close"], ["data", "eof", "close"], ["eof"], ["data"]]),
        "during": st.sampled_from(["none", "none", "close", "shutdown_write"]),
    }
)
xkex_case = st.fixed_dictionaries({"fam": st.just("xkex"), "role": st.sampled_from(["client", "server"]), "chans": st.lists(xkex_chan, min_size=1, max_size=2)})


# ----------------------------------------------------------------------------- enumeration

A_APP = [("send", 5), ("send_stderr", 5), ("sendall3",), ("shutdown_write",), ("shutdown2",), ("close",)]
A_PEER = [("peer_close",), ("peer_eof",), ("adjust", 10)]


def _seqs(alpha, n):
    out = [[a] for a in alpha]
    if n >= 2:
        out += [[a, b] for a in alpha for b in alpha]
    return out


def dfs_programs(max_ops):
    progs = []
    apps = _seqs(A_APP, max_ops)
    peers = _seqs(A_PEER, max_ops)
    for i, a in enumerate(apps):
        for b in apps[i:]:
            progs.append({"win": 2 ** 21, "timeout": 0.5, "peer": [], "apps": [a, b]})
    for p in peers:
        for a in apps:
            progs.append({"win": 2 ** 21, "timeout": 0.5, "peer": p, "apps": [a]})
    return progs


THREE_TASK = [
    {"win": 2 ** 21, "timeout": 0.5, "peer": [("peer_close",)], "apps": [[("send", 5)], [("close",)]]},
    {"win": 2 ** 21, "timeout": 0.5, "peer": [], "apps": [[("send", 5)], [("shutdown_write",)], [("close",)]]},
    {"win": 2 ** 21, "timeout": 0.5, "peer": [("peer_close",)], "apps": [[("sendall3",)], [("close",)]]},
    {"win": 2 ** 21, "timeout": 0.5, "peer": [], "apps": [[("send", 5)], [("send_stderr", 5)], [("close",)]]},
    {"win": 2 ** 21, "timeout": 0.5, "peer": [("peer_eof",), ("peer_close",)], "apps": [[("shutdown_write",)], [("close",)]]},
    {"win": 0, "timeout": 0.5, "peer": [("adjust", 10), ("peer_close",)], "apps": [[("send", 5)], [("shutdown2",)]]},
]


W21 = 2 ** 21
REQ_PROGS = [
    {"win": W21, "timeout": 0.5, "peer": [("reply", False, False)], "apps": [[("close",)]]},
    {"win": W21, "timeout": 0.5, "peer": [("reply", False, True)], "apps": [[("req", "exec")], [("close",)]]},
    {"win": W21, "timeout": 0.5, "peer": [("reply", True, True)], "apps": [[("req", "shell")], [("close",)]]},
    {"win": W21, "timeout": 0.5, "peer": [("reply", False, True), ("peer_close",)], "apps": [[("req", "subsystem")], [("shutdown2",)]]},
    {"win": W21, "timeout": 0.5, "peer": [("reply", False, False)], "apps": [[("send", 5)], [("shutdown_write",)]]},
    {"win": W21, "timeout": 0.5, "peer": [("peer_close",), ("reply", False, False)], "apps": [[("req", "exec")]]},
    {"win": W21, "timeout": 0.5, "peer": [("reply", False, True), ("reply", False, False)], "apps": [[("req", "pty"), ("close",)]]},
    {"win": W21, "timeout": 0.5, "peer": [("peer_req", "unknown@verif", True), ("reply", False, False)], "apps": [[("send", 5), ("close",)]]},
]


# the library's own multi-message loops (sendall / sendall_stderr / ChannelFile.write) against every way of ending the stream, and a
# backlog above the window-adjust threshold (receive window 32768) drained before / after the release
BULK_PROGS = [
    {"win": W21, "timeout": 0.5, "peer": [], "apps": [[("sendall", 2 * CHUNK + 1)], [("shutdown_write",)]]},
    {"win": W21, "timeout": 0.5, "peer": [], "apps": [[("sendall_err", 2 * CHUNK + 1)], [("close",)]]},
    {"win": W21, "timeout": 0.5, "peer": [("peer_close",)], "apps": [[("sendall", 2 * CHUNK + 1)]]},
    {"win": W21, "timeout": 0.5, "peer": [], "apps": [[("file_write", 2 * CHUNK + 1)], [("shutdown2",)]]},
    {"win": W21, "timeout": 0.5, "peer": [], "apps": [[("sendall", CHUNK + 1)], [("sendall_err", CHUNK + 1)], [("close",)]]},
    {"win": W21, "in_win": 32768, "timeout": 0.5, "peer": [("peer_data", 4000), ("peer_close",)], "apps": [[("recv", 4096)], [("await_released",), ("recv", 4096)]]},
    {"win": W21, "in_win": 32768, "timeout": 0.5, "peer": [("peer_data_err", 1700), ("peer_data_err", 1700), ("peer_eof",)], "apps": [[("recv_stderr", 4096), ("close",)]]},
]


def run_dfs(ctx, programs, k, trace, limit, label):
    complete = True
    for prog in programs:
        if ctx.out_of_time():
            complete = False
            break

        def one(strategy, prog=prog):
            case = dict(prog)
            case["trace"] = trace
            case["sched"] = None
            execute(ctx, case, strategy=strategy, extra_classes=("dfs-" + label,))

        gen = S.enumerate_schedules(one, k, limit=limit)
        while True:
            try:
                next(gen)
            except StopIteration as e:
                if not e.value:
                    complete = False
                    ctx.inconc("dfs-program-truncated-" + label)
                break
        ctx.count("dfs-programs-" + label)
    return complete


def run(ctx):
    ctx.set_budget(60, 840)
    ctx.explore(case_st, lambda c: execute(ctx, c), ctx.scale(3300, 24000))
    ctx.explore(late_case_st, lambda c: execute(ctx, c, extra_classes=("late-task-program",)), ctx.scale(1000, 7000), seed_offset=5)
    ctx.explore(zero_window_case_st, lambda c: execute(ctx, c, extra_classes=("zero-window-program",)), ctx.scale(800, 5000), seed_offset=6)
    # real transport vs puppet: the peer's CLOSE crosses a re-exchange started by the tested side (thread/timing engine: no shrinking)
    ctx.explore(xkex_case, lambda c: run_xkex(ctx, c), ctx.scale(40, 400), shrink=False, seed_offset=7)
    if ctx.tier == "thorough":
        p2 = dfs_programs(2)
        ok1 = run_dfs(ctx, p2[ctx.worker :: ctx.nworkers], 3, False, 300000, "k3-2task")
        ok2 = run_dfs(ctx, THREE_TASK[ctx.worker :: ctx.nworkers], 3, False, 300000, "k3-3task")
        p1 = dfs_programs(1)
        ok3 = run_dfs(ctx, p1[ctx.worker :: ctx.nworkers], 2, True, 300000, "k2-lines")
        ok4 = run_dfs(ctx, REQ_PROGS[ctx.worker :: ctx.nworkers], 3, False, 300000, "k3-requests")
        ok5 = run_dfs(ctx, BULK_PROGS[ctx.worker :: ctx.nworkers], 3, False, 300000, "k3-bulk")
        ctx.exhaustive = bool(ok1 and ok2 and ok3 and ok4 and ok5)
        ctx.note(
            "dfs_domain",
            "%d two-task programs (<=2 ops each, 6 app ops + 3 peer ops), %d selected three-task programs, %d selected request/reply programs and %d "
            "selected multi-message-call / inbound-backlog programs: all "
            "schedules with <=3 preemptions (lock-level + send point); %d single-op pairs: all schedules with <=2 preemptions at line level"
            % (len(p2), len(THREE_TASK), len(REQ_PROGS), len(BULK_PROGS), len(p1)),
        )
    else:
        p1 = dfs_programs(1)
        step = max(1, len(p1) // 6)
        run_dfs(ctx, p1[(ctx.seed % step) :: step][:6], 2, False, 400, "k2-quick")
        run_dfs(ctx, [REQ_PROGS[ctx.seed % len(REQ_PROGS)], REQ_PROGS[(ctx.seed + 3) % len(REQ_PROGS)]], 2, False, 300, "k2-quick-requests")
        run_dfs(ctx, [BULK_PROGS[ctx.seed % len(BULK_PROGS)], BULK_PROGS[(ctx.seed + 3) % len(BULK_PROGS)]], 2, False, 300, "k2-quick-bulk")


def replay(ctx, case):
    if case.get("fam") == "xkex":
        run_xkex(ctx, case)
        return
    execute(ctx, case)
