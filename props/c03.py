"""C03 - outgoing packets are framed and padded as RFC 4253 section 6 requires.

Domain: every cipher x MAC pair paramiko offers x compression {none, zlib, zlib@openssh.com
after auth} x sending role (client / server: different keys), keyed through the production
activation path on the E2 bench.  The suite under measurement is the sender's OUTBOUND suite;
its inbound direction is keyed too (NEWKEYS from the reference peer through
Transport._parse_newkeys) with an independently chosen suite (RFC 4253 7.1 negotiates per
direction: other MAC size, other style classic/ETM/GCM, other block size), and the generated
part runs 0-2 earlier key exchanges (with messages) before the measured one.  Payload lengths 1..4*bs+8 through Packetizer.send_message
and 0..4*bs+8 through Packetizer._build_packet (bs = max(8, cipher block)): padding depends on
(length mod bs) only, so every residue of the formula is enumerated for every framing mode;
the unencrypted initial state; plus hypothesis-generated lengths up to 70 000.

Socket behaviour / history: the generated part gives the sender's socket a generated send script
(partial sends of generated sizes, socket.timeout / EAGAIN between the pieces: what reaches the
wire is what the socket ACCEPTED during one send_message call), and a long-lived part drives ONE
keyed Packetizer per cipher x MAC style for 2500 (thorough 20000) packets of generated small
lengths, every packet checked (state carried across send_message calls).

Concurrent senders: 2-3 real threads call send_message on ONE keyed Packetizer at the same time
(a transport-thread reply racing user threads), the socket running a generated send script in 3
of 4 cases (partial writes / not-ready events while another thread wants to write).  The whole
byte stream the socket accepted is cut the RFC 4253 way by the reference receiver: it must be
exactly one well-framed packet per send_message call (all clauses below), whatever the order of
the threads' packets.

Configuration of the sender (generated part, long-lived part, concurrent part): hex dump of the
traffic off / Transport.set_hexdump(True) / the same with paramiko's logger at DEBUG level and a
handler attached (lengths up to 9000 bytes there: paramiko formats every byte).  Keepalive timer
(a separate generated part of its own, collect-then-continue because real time passes, and every
fourth long-lived sender): Transport.set_keepalive(interval) - paramiko's own callback - or
Packetizer.set_keepalive(interval, callback) with the same request, intervals 0.5-1 ms with the
socket's not-ready events (send script -1/-2, recv timeout script) taking 3-4 ms of real time, i.e.
LONGER than the interval (the timer runs out while a packet is half written), or 50 ms / 1 ms (never
due); optionally the reference peer sends a message after every k-th packet which the sender reads
through its recv timeout script: a keepalive that is due there goes out as one more outgoing
packet.  With a timer armed, everything the socket accepted during one bench call is cut into
packets: each must pass all clauses and carry the message sent (once) or the keepalive request.  The
measured sends run under a watchdog: a sender that does not come back is reported (send-hangs).

Oracle on the raw bytes the socket accepted (one chunk per packet), decoded with the
independent vlib.refssh receiver keyed from the RFC 4253 7.2 letters:
  total = 4 + packet_length + mac_len(table of the negotiated MAC, 16 for GCM);
  packet_length = 1 + len(payload as sent / compressed) + padding; 4 <= padding <= 255;
  encrypted span (whole packet, or packet minus length field for ETM/GCM) is a multiple of
  max(8, bs); the MAC/tag verifies and the payload comes back.
"""
import contextlib
import hashlib
import logging
import threading

from hypothesis import strategies as st

from vlib import pkt
from vlib import pktx
from vlib import refssh as R

PROPERTY = "C03"
LEVEL = "exploration"
THOROUGH_WORKERS = 16
RULE = (
    "enumeration: all 72 cipher x MAC pairs x compression {none, zlib, zlib@openssh.com} x sender role, payload lengths "
    "1..4*bs+8 via send_message and 0..4*bs+8 via _build_packet (all residues mod bs for every framing mode; keys from "
    "generated K/H), the unencrypted state; plus hypothesis-generated length lists up to 70000 bytes on generated "
    "suites. The sender is keyed in BOTH directions (outbound = suite under measurement, inbound = a different suite "
    "derived from the run seed in the enumeration / drawn independently in the generated part: classes "
    "asymmetric-suites, asymmetric-style:<c2s>/<s2c>, asymmetric-mac-size, asymmetric-block-size); the generated part "
    "also runs 0-2 earlier key exchanges with their own per-direction suites and messages before the measured one "
    "(class after-rekey:N) and gives the sender's socket a generated send script (accepts 1..N of the offered bytes, "
    "socket.timeout / EAGAIN between the pieces; classes send-partial, send-notready-after-partial, "
    "send-eagain-after-partial): the bytes the socket accepted during one send_message are the packet. Long-lived "
    "senders (class long-lived-sender): for every cipher x MAC style {plain, -96, etm} (quick: 23 suites, MAC of the "
    "style picked by the run seed; thorough: all 72 pairs) ONE keyed Packetizer sends 2500 (thorough 20000) packets of "
    "generated lengths 1..max (max generated 8..64) through send_message, optional zlib, optional send script, every "
    "packet checked. Concurrent senders (class concurrent-senders, threads:N, switch-interval:S, "
    "concurrent-senders+send-partial / +send-notready): 2-3 real threads send 120-400 messages each (bodies up to "
    "0/8/40/300/3000 bytes) through ONE keyed paramiko peer at the same time under a generated interpreter switch "
    "interval, generated per-direction suites, socket send script in 3 of 4 cases; the complete byte stream the socket "
    "accepted must cut into exactly one well-framed packet per send_message call (length field, padding 4..255, block "
    "alignment, MAC/tag length and value, payload = the next message of the thread named in it; the order between "
    "threads is free). Sender configuration (classes hexdump:off|on|on+debug-logger, keepalive:on, keepalive:via-transport|"
    "via-packetizer, keepalive:socket-stall>interval, keepalive:due-while-a-packet-is-half-written, keepalive:packets-on-the-wire, "
    "inbound-traffic-between-sends): the generated, long-lived and concurrent parts draw the hex dump setting (2 of 5 on; lengths "
    "<= 9000 then); a second generated part (quick 120 cases, no shrinking: real time) arms a keepalive timer through "
    "Transport.set_keepalive or Packetizer.set_keepalive (interval 0.5-1 ms, not-ready socket events last 3-4 ms, at most 8 per "
    "sender; or 50 ms / 1 ms = never due), send script in 3 of 4 cases, optional inbound messages after every 1-3 packets read "
    "through a generated recv timeout script; every fourth long-lived sender has a timer too. With a timer the bytes of one call "
    "are cut into packets that must each pass every clause and carry the message (once) or the keepalive request; a sender that "
    "does not return within 10 s (30 s long-lived) is reported as send-hangs. "
    "One case = one (keys, earlier exchanges, role, api, length list, configuration) or one (keys, role, thread "
    "plans, switch interval, send script, hexdump). non-trivial = encrypted "
    "suite whose uncompressed payload lengths cover all residues 0..bs-1 (enumeration) or contain a length > 4*bs+8 "
    "(random part) or >= 1000 packets on one sender (long-lived part) or >= 2 threads with >= 2 messages each "
    "(concurrent part); distinct by SHA-1 of the case"
)


# what Transport.set_keepalive's callback sends: global request "keepalive@lag.net", want-reply false
KEEPALIVE = bytes([80]) + R.string(b"keepalive@lag.net") + b"\x00"
MAX_STALLS = 8  # not-ready socket events per sender that take real time (cost bound)
HANG_TIMEOUT = 30.0  # a long-lived sender with a keepalive timer that has not come back after this long hangs (>= 100x the normal time of a case)
HANG_TIMEOUT_SHORT = 10.0  # the same for a case of <= 6 packets (normal time < 0.1 s)


def _watched(fn, timeout):
    """Run fn() in a helper thread and wait ``timeout`` for it: (result, False) or (None, True) when it
    is still busy (a keepalive callback that runs inside a write can block for ever on the transport's
    own locks; that must end as a report, not as a check that never returns)."""
    box = {}

    def work():
        try:
            box["r"] = fn()
        except BaseException as e:  # re-raised in the caller's thread
            box["e"] = e

    th = threading.Thread(target=work, daemon=True)
    th.start()
    th.join(timeout)
    if th.is_alive():
        return None, True
    if "e" in box:
        raise box["e"]
    return box["r"], False


class _Counting(logging.Handler):
    def __init__(self):
        logging.Handler.__init__(self, logging.DEBUG)
        self.n = 0

    def emit(self, record):
        self.n += 1
        record.getMessage()  # what any real handler does: format the record


@contextlib.contextmanager
def _debug_logger(on):
    """Configuration "somebody really reads the hex dump": paramiko's transport logger at DEBUG level
    with a handler attached, for the duration of one case (level / handler restored afterwards)."""
    if not on:
        yield None
        return
    lg = logging.getLogger("paramiko.transport")
    h = _Counting()
    old = lg.level
    lg.addHandler(h)
    lg.setLevel(logging.DEBUG)
    try:
        yield h
    finally:
        lg.setLevel(old)
        lg.removeHandler(h)


def _enable_keepalive(ctx, sender, ka):
    """ka = [interval, stall, via].  via "transport" (default): Transport.set_keepalive(interval) on the keyed sender (public API; the callback is paramiko's own
    global_request("keepalive@lag.net", wait=False)).  An un-started Transport is not ``active`` and
    global_request would return without sending: it is marked active the way start_client does, and
    only when the key exchange left it clear to send (otherwise the callback would wait for that).
    The socket's next MAX_STALLS not-ready events take ka[1] seconds each."""
    t = sender.t
    if len(ka) > 2 and ka[2] == "packetizer":
        # the layer below: Packetizer.set_keepalive(interval, callback), the callback sending the same request
        # through the transport's internal send path (no user-message gate)
        from paramiko.message import Message

        def request():
            m = Message()
            m.add_bytes(KEEPALIVE)
            t._send_message(m)

        t.packetizer.set_keepalive(ka[0], request)
        sender.sock.stall = ka[1]
        sender.sock.stalls_left = MAX_STALLS
        return True
    ev = getattr(t, "clear_to_send", None)
    if ev is None or not ev.is_set() or not hasattr(t, "set_keepalive"):
        ctx.inconc("keepalive-not-enabled:sender-not-clear-to-send")
        return False
    t.active = True
    t.set_keepalive(ka[0])
    sender.sock.stall = ka[1]
    sender.sock.stalls_left = MAX_STALLS
    return True


def _excluded(cipher, mac):
    return R.CIPHERS[cipher][0] == "gcm" or mac.endswith("-etm@openssh.com")


def _bs(cipher):
    return max(8, R.CIPHERS[cipher][2]) if cipher else 8


def _payload(L, seed):
    """L bytes: type 94 + SHAKE body (incompressible) or, for odd seeds, a compressible run."""
    if L == 0:
        return b""
    if seed % 3 == 1:
        return b"\x5e" + b"A" * (L - 1)
    return b"\x5e" + hashlib.shake_256(b"c03-%d" % seed).digest(L - 1)


def _lengths(spec):
    """Explicit list, or {"n", "max", "seed"}: n generated lengths in 1..max (SHAKE stream)."""
    if isinstance(spec, dict):
        n, mx = int(spec["n"]), int(spec["max"])
        raw = hashlib.shake_256(b"c03-len-%d" % int(spec["seed"])).digest(n)
        return [1 + raw[i] % mx for i in range(n)]
    return list(spec)


def _mac_len(cipher, mac):
    return 16 if R.CIPHERS[cipher][0] == "gcm" else R.MACS[mac][2]


def _key_exchange(ctx, sender, ref, keys):
    """One key exchange seen from the sender under test: names/K/H installed, NEWKEYS out
    (outbound switch; the NEWKEYS packet itself is an outgoing packet under the previous keys
    and must decode) and then the reference peer's NEWKEYS in (inbound switch through
    Transport._parse_newkeys) - the order a real transport uses.  Returns None or a text."""
    sender.install(keys)
    ref.install(keys)
    try:
        sender.send_newkeys()
    except Exception as e:
        return "sending NEWKEYS raises %r [%s]" % (e, pkt.exc_bucket(e))
    ref.feed(b"".join(sender.drain()))
    try:
        got = ref.recv_newkeys()
    except (R.RefError, EOFError) as e:
        return "the sender's NEWKEYS packet does not decode under the previous keys: %r" % (e,)
    if got != (pkt.MSG_NEWKEYS, b"") or ref.pending():
        return "the sender's NEWKEYS arrived as %r (+%d bytes)" % (got, ref.pending())
    ref.send_newkeys()
    sender.feed(b"".join(ref.drain()))
    try:
        got = sender.recv_newkeys()
        ok = got == (pkt.MSG_NEWKEYS, b"")
    except Exception:
        ok = False
    if not ok:
        # keying the inbound side is a precondition here (reading is C01's oracle): go on with
        # the outbound side only and say so in the evidence
        ctx.inconc("inbound-keying-of-the-sender-failed")
    return None


def execute(ctx, case):
    """case = {"keys": keys|None, "role": "client"|"server", "api": "send"|"build",
    "lengths": [...], "seed": int[, "prev": [{"keys": keys, "lengths": [...]}, ...]]
    [, "hexdump": 0|1|2][, "keepalive": [interval_s, stall_s]][, "inbound": {"every": k, "timeouts": [...]}]}.
    keys None = unencrypted initial state; "prev" = earlier key exchanges (and the messages
    sent under them, checked the same way) before the measured one.  Configuration of the sender:
    hexdump 1 = Transport.set_hexdump(True), 2 = the same with paramiko's logger at DEBUG level and a
    handler attached; keepalive = Transport.set_keepalive(interval) for the measured epoch, the socket's
    not-ready events taking stall_s of real time; inbound = after every k-th packet the reference peer
    sends a message that the sender reads through a socket with the recv timeout script (a keepalive
    that is due goes out there - one more outgoing packet that has to be framed like any other)."""
    with _debug_logger(int(case.get("hexdump") or 0) == 2) as handler:
        return _execute(ctx, case, handler)


def _execute(ctx, case, handler):
    role, api, seed = case["role"], case["api"], case["seed"]
    dname = "c2s" if role == "client" else "s2c"
    other = "server" if role == "client" else "client"
    hexdump = int(case.get("hexdump") or 0)
    ka = case.get("keepalive") or None
    inbound = case.get("inbound") or None
    sender = pkt.PPeer(role, sends=case.get("sends") or (), timeouts=(inbound or {}).get("timeouts") or ())
    if hexdump:
        sender.t.set_hexdump(True)
    ref = pkt.RPeer(other)
    ka_on = False
    stats = {"keepalive-packets": 0, "inbound-read": 0}
    prev = case.get("prev") or []
    long_lived = isinstance(case["lengths"], dict)
    epochs = [(e["keys"], _lengths(e["lengths"])) for e in prev] + [(case["keys"], _lengths(case["lengths"]))]
    if any(k is not None and k[dname][2] == "zlib@openssh.com" for k, _ in epochs):
        sender.auth()
        ref.auth()
    residues = set()
    bad = None
    short = None
    for ei, (keys, lengths) in enumerate(epochs):
        cipher = mac = None
        comp = "none"
        if keys is not None:
            cipher, mac, comp = keys[dname]
        bs = _bs(cipher)
        fc = pkt.framing_class(cipher, mac) if cipher else "none"
        compressed = comp != "none"
        if keys is not None:
            why = _key_exchange(ctx, sender, ref, keys)
            if why:
                bad = ("newkeys-packet", fc + ("+z" if compressed else ""), "key exchange %d: %s" % (ei, why))
                short = dict(case, prev=prev[:ei], keys=keys, lengths=[])
                break
        last = ei == len(epochs) - 1
        if last and ka and keys is not None and api == "send":
            ka_on = _enable_keepalive(ctx, sender, ka)
        args = (sender, ref, keys, dname, api, lengths, seed + 1000 * (len(epochs) - 1 - ei), residues if last else set())
        kw = dict(ka_on=ka_on and last, inbound=inbound if last and keys is not None else None, stats=stats, ctx=ctx)
        if kw["ka_on"]:
            limit = HANG_TIMEOUT if long_lived else HANG_TIMEOUT_SHORT
            got, hung = _watched(lambda: _measure(*args, **kw), limit)
            if hung:
                bad = ("send-hangs", fc + ("+z" if compressed else ""), "send_message / read_message of a sender with keepalive interval %r did not come back within %.0f s (socket not-ready events take %r s)" % (ka[0], limit, ka[1]))
                short = dict(case, prev=prev[:ei])
                break
            bad, i = got
        else:
            bad, i = _measure(*args, **kw)
        if bad:
            # report the shortest prefix that still shows it (deterministic given the case)
            short = dict(case, prev=prev[:ei], keys=keys, seed=seed + 1000 * (len(epochs) - 1 - ei))
            # (state that spans packets - compression, a long-lived sender, a send script, keepalive timers - needs the prefix)
            short["lengths"] = lengths[: i + 1] if (compressed or long_lived or case.get("sends") or ka or inbound) else [lengths[i]]
            break
    send_stats = dict(sender.sock.send_stats)
    stalled = sender.sock.stalled
    if not (bad and bad[0] == "send-hangs"):
        sender.t.active = False
        sender.close()
    keys, lengths = epochs[-1]
    if case.get("enumerated"):
        nontrivial = keys is not None and len(residues) == bs
    elif long_lived:
        nontrivial = keys is not None and len(lengths) >= 1000
    else:
        nontrivial = keys is not None and any(L > 4 * bs + 8 for L in lengths)
    classes = ["api:" + api, "framing:" + fc, "role:" + role, "comp:" + comp]
    if cipher:
        classes += ["cipher:" + cipher, "mac:" + mac]
    if keys is not None:
        classes += pkt.asymmetry_classes(keys)
        classes.append("sender-keyed-in-both-directions")
    classes += pktx.send_classes(send_stats)
    classes.append("hexdump:" + ("off", "on", "on+debug-logger")[hexdump])
    if handler is not None and handler.n:
        classes.append("hexdump:records-logged")
    if ka:
        classes.append("keepalive:on" if ka_on else "keepalive:wanted-not-enabled")
        if ka_on:
            classes.append("keepalive:via-" + (ka[2] if len(ka) > 2 else "transport"))
        classes.append("keepalive:socket-stall>interval" if ka[1] > ka[0] else "keepalive:socket-stall<=interval")
        if ka_on and stalled and send_stats.get("notready-after-partial") and ka[1] > ka[0]:
            classes.append("keepalive:due-while-a-packet-is-half-written")
    if stats["keepalive-packets"]:
        classes.append("keepalive:packets-on-the-wire")
        ctx.count("keepalive-packets-decoded", stats["keepalive-packets"])
    if inbound and stats["inbound-read"]:
        classes.append("inbound-traffic-between-sends")
    if long_lived:
        classes.append("long-lived-sender")
        classes.append("long-lived-sender:%s" % pkt.suite_style(cipher, mac))
    if prev:
        classes.append("after-rekey:%d" % len(prev))
        if any(pkt.suite_style(*a[dname][:2]) != pkt.suite_style(*b[dname][:2]) for (a, _), (b, _) in zip(epochs, epochs[1:])):
            classes.append("rekey-changes-style")
    ctx.case(case, nontrivial, classes)
    if bad:
        ctx.violation(bad[0], bad[1], short, bad[2])
        return False
    return True


def _cut(ref, data, payload, bs, want_mac, compressed, stats, fail, what):
    """Cut ``data`` (everything the socket accepted during one call of the bench) into packets the
    RFC 4253 way: every packet is judged by all clauses; it must carry ``payload`` (exactly once; None =
    not expected here) or the keepalive request paramiko's keepalive timer sends.  Returns None or a
    failure tuple."""
    ref.feed(data)
    seen = payload is None
    while ref.pending() or not seen:
        left = ref.pending()
        try:
            _seq, got, _pad = ref.rx.next_packet()
        except R.NeedMore:
            return fail("total-length", "%s: the wire ends inside a packet (%d bytes left)" % (what, left))
        except R.RefError as e:
            return fail("ref-decode:" + "-".join(str(e).split(" ")[:2]), "%s, %d wire bytes left: %s" % (what, left, e))
        info = ref.rx.last_info
        used = left - ref.pending()
        if used != 4 + info["packet_length"] + want_mac:
            return fail("total-length", "%s: %d wire bytes != 4 + %d + %d" % (what, used, info["packet_length"], want_mac))
        if not 4 <= info["padding"] <= 255:
            return fail("padding-range", "%s: padding %d" % (what, info["padding"]))
        if info["encrypted_span"] % bs:
            return fail("block-alignment", "%s: encrypted span %d not a multiple of %d" % (what, info["encrypted_span"], bs))
        if info["packet_length"] != 1 + info["raw_payload_len"] + info["padding"]:
            return fail("length-field", "%s: packet_length %d != 1 + %d + %d" % (what, info["packet_length"], info["raw_payload_len"], info["padding"]))
        if not seen and got == payload:
            seen = True
            if not compressed and info["raw_payload_len"] != len(payload):
                return fail("length-field", "%s: %d payload bytes inside the packet" % (what, info["raw_payload_len"]))
        elif got == KEEPALIVE:
            stats["keepalive-packets"] += 1
        else:
            return fail("payload", "%s: a packet with %d payload bytes (type %s) that is neither the message sent nor a keepalive request" % (what, len(got), got[:1].hex()))
    return None


def _measure(sender, ref, keys, dname, api, lengths, seed, residues, ka_on=False, inbound=None, stats=None, ctx=None):
    """Send ``lengths`` under the current keys and check every packet; returns (bad, index)."""
    stats = stats if stats is not None else {"keepalive-packets": 0, "inbound-read": 0}
    cipher = mac = None
    comp = "none"
    if keys is not None:
        cipher, mac, comp = keys[dname]
    bs = _bs(cipher)
    fc = pkt.framing_class(cipher, mac) if cipher else "none"
    excl = _excluded(cipher, mac) if cipher else False
    want_mac = _mac_len(cipher, mac) if cipher else 0
    compressed = comp != "none"
    bad = None
    i = 0

    def fail(clause, detail):
        return (clause, fc + ("+z" if compressed else ""), detail)

    for i, L in enumerate(lengths):
        payload = _payload(L, seed + i)
        if api == "build":
            try:
                pk = sender.t.packetizer._build_packet(payload)
            except Exception as e:
                bad = fail("build-raises", "len %d: %r [%s]" % (L, e, pkt.exc_bucket(e)))
                break
            if len(pk) < 5:
                bad = fail("length-field", "len %d: packet of %d bytes" % (L, len(pk)))
                break
            plen = int.from_bytes(pk[:4], "big")
            pad = pk[4]
            if plen != len(pk) - 4:
                bad = fail("length-field", "payload %d: packet_length %d but %d bytes follow" % (L, plen, len(pk) - 4))
            elif plen != 1 + L + pad:
                bad = fail("length-field", "payload %d: packet_length %d != 1 + %d + padding %d" % (L, plen, L, pad))
            elif not 4 <= pad <= 255:
                bad = fail("padding-range", "payload %d: padding %d" % (L, pad))
            elif (len(pk) - (4 if excl else 0)) % bs:
                bad = fail("block-alignment", "payload %d: encrypted span %d not a multiple of %d" % (L, len(pk) - (4 if excl else 0), bs))
            elif pk[5 : 5 + L] != payload:
                bad = fail("payload", "payload %d not found after the padding-length byte" % L)
            if bad:
                break
            residues.add(L % bs)
            continue
        # api == "send": through send_message, observe the socket
        try:
            sender.send(payload)
        except Exception as e:
            bad = fail("send-raises", "len %d: %r [%s]" % (L, e, pkt.exc_bucket(e)))
            break
        chunks = sender.drain()
        if ka_on:
            # a keepalive timer is running: the bytes of this call may hold keepalive packets besides the message
            bad = _cut(ref, b"".join(chunks), payload, bs, want_mac, compressed, stats, fail, "payload %d" % L)
            if bad:
                break
            if not compressed:
                residues.add(L % bs)
            if inbound and not _inbound(sender, ref, inbound, i, bs, want_mac, compressed, stats, fail, ctx):
                bad = stats.pop("bad", None)
                if bad:
                    break
            continue
        if len(chunks) != 1:
            bad = fail("chunks", "payload %d: %d socket writes" % (L, len(chunks)))
            break
        chunk = chunks[0]
        ref.feed(chunk)
        try:
            _seq, got, _pad = ref.rx.next_packet()
        except R.NeedMore:
            bad = fail("total-length", "payload %d: %d wire bytes are fewer than 4 + packet_length + mac_len(%d)" % (L, len(chunk), want_mac))
            break
        except R.RefError as e:
            bad = fail("ref-decode:" + "-".join(str(e).split(" ")[:2]), "payload %d: %s" % (L, e))
            break
        info = ref.rx.last_info
        if ref.pending():
            bad = fail("total-length", "payload %d: %d wire bytes, 4 + packet_length %d + mac_len %d leaves %d extra" % (L, len(chunk), info["packet_length"], want_mac, ref.pending()))
        elif len(chunk) != 4 + info["packet_length"] + want_mac:
            bad = fail("total-length", "payload %d: %d wire bytes != 4 + %d + %d" % (L, len(chunk), info["packet_length"], want_mac))
        elif not 4 <= info["padding"] <= 255:
            bad = fail("padding-range", "payload %d: padding %d" % (L, info["padding"]))
        elif info["encrypted_span"] % bs:
            bad = fail("block-alignment", "payload %d: encrypted span %d not a multiple of %d" % (L, info["encrypted_span"], bs))
        elif info["packet_length"] != 1 + info["raw_payload_len"] + info["padding"]:
            bad = fail("length-field", "payload %d: packet_length %d != 1 + %d + %d" % (L, info["packet_length"], info["raw_payload_len"], info["padding"]))
        elif not compressed and info["raw_payload_len"] != L:
            bad = fail("length-field", "payload %d: %d payload bytes inside the packet" % (L, info["raw_payload_len"]))
        elif got != payload:
            bad = fail("payload", "payload %d: reference decoder got %d different bytes" % (L, len(got)))
        if bad:
            break
        if not compressed:
            residues.add(L % bs)
        if inbound and not _inbound(sender, ref, inbound, i, bs, want_mac, compressed, stats, fail, ctx):
            bad = stats.pop("bad", None)
            if bad:
                break
    return bad, i


def _inbound(sender, ref, inbound, i, bs, want_mac, compressed, stats, fail, ctx):
    """After every ``every``-th packet the reference peer sends one message and the sender reads it
    (recv timeout script of its socket).  Whatever the sender WROTE meanwhile (a keepalive that was
    due) is cut and judged like any other outgoing packet.  False = stop (stats["bad"] set for a
    violation; an unreadable inbound message is C01's business: inconclusive, inbound traffic ends)."""
    if stats.get("inbound-off") or (i + 1) % int(inbound["every"]):
        return True
    msg = b"\x02" + R.string(b"in-%d" % i)
    ref.send(msg)
    sender.feed(b"".join(ref.drain()))
    try:
        got = sender.recv()
    except Exception:
        got = None
    if got != (msg[0], msg[1:]):
        stats["inbound-off"] = True
        if ctx is not None:
            ctx.inconc("inbound-message-not-read-by-the-sender")
    else:
        stats["inbound-read"] += 1
    wrote = b"".join(sender.drain())
    if wrote:
        bad = _cut(ref, wrote, None, bs, want_mac, compressed, stats, fail, "written while reading inbound message after packet %d" % i)
        if bad:
            stats["bad"] = bad
            return False
    return True


def concurrent_strategy(lo, hi):
    """2-3 threads sending lo..hi messages each through ONE keyed paramiko peer (one Packetizer, one
    socket); per-direction suites drawn independently; 3 of 4 cases give the socket a send script."""
    S = pkt.strategies()
    X = pktx.strategies()
    return st.fixed_dictionaries(
        {
            "kind": st.just("concurrent"),
            "role": st.sampled_from(["client", "server"]),
            "keys": S.keys(),
            "threads": st.lists(X.thread_plan(lo, hi), min_size=2, max_size=3),
            "switch": X.switch,
            "sends": st.one_of(st.just([]), X.sends_on, X.sends_on.map(lambda v: v)),
            "hexdump": st.sampled_from([0, 0, 0, 1, 2]),
        }
    ).map(pkt.norm_case)


def _judge_wire(ref, plans, cipher, mac, compressed):
    """Cut everything the socket accepted the RFC 4253 way with the reference receiver: it must be
    exactly one well-framed packet per send_message call (same clauses as _measure), each
    carrying the next not-yet-seen payload of the thread named in it.  The order in which the
    threads' packets follow each other is free.  Returns None or (clause, detail)."""
    bs = _bs(cipher)
    want_mac = _mac_len(cipher, mac)
    total = sum(len(p) for p in plans)
    nxt = [0] * len(plans)
    for n in range(total):
        left = ref.pending()
        try:
            _seq, got, _pad = ref.rx.next_packet()
        except R.NeedMore:
            return "total-length", "packet %d of %d: the wire ends inside a packet (%d bytes left)" % (n, total, left)
        except R.RefError as e:
            return "ref-decode:" + "-".join(str(e).split(" ")[:2]), "packet %d of %d, %d wire bytes left: %s" % (n, total, left, e)
        info = ref.rx.last_info
        used = left - ref.pending()
        if used != 4 + info["packet_length"] + want_mac:
            return "total-length", "packet %d: %d wire bytes != 4 + %d + %d" % (n, used, info["packet_length"], want_mac)
        if not 4 <= info["padding"] <= 255:
            return "padding-range", "packet %d: padding %d" % (n, info["padding"])
        if info["encrypted_span"] % bs:
            return "block-alignment", "packet %d: encrypted span %d not a multiple of %d" % (n, info["encrypted_span"], bs)
        if info["packet_length"] != 1 + info["raw_payload_len"] + info["padding"]:
            return "length-field", "packet %d: packet_length %d != 1 + %d + %d" % (n, info["packet_length"], info["raw_payload_len"], info["padding"])
        k = got[1] if len(got) > 1 else -1
        if not 0 <= k < len(plans) or nxt[k] >= len(plans[k]) or got != plans[k][nxt[k]]:
            return "payload", "packet %d: %d payload bytes that are not the next message of any sender thread" % (n, len(got))
        if not compressed and info["raw_payload_len"] != len(got):
            return "length-field", "packet %d: %d payload bytes inside the packet, %d sent" % (n, info["raw_payload_len"], len(got))
        nxt[k] += 1
    if ref.pending():
        return "total-length", "%d wire bytes follow the last of the %d packets" % (ref.pending(), total)
    return None


def execute_concurrent(ctx, case):
    with _debug_logger(int(case.get("hexdump") or 0) == 2):
        return _execute_concurrent(ctx, case)


def _execute_concurrent(ctx, case):
    """case = {"kind": "concurrent", "hexdump": 0|1|2, "keys", "role", "threads": [[type, n, max_body, seed], ...],
    "switch": interpreter switch interval, "sends": send script}.  Real threads: the interleaving
    is whatever the interpreter produces; the verdict does not depend on it (every packet on the
    wire is judged on its own, the threads' relative order is free)."""
    role = case["role"]
    dname = "c2s" if role == "client" else "s2c"
    other = "server" if role == "client" else "client"
    keys = case["keys"]
    cipher, mac, comp = keys[dname]
    compressed = comp != "none"
    fc = pkt.framing_class(cipher, mac) + ("+z" if compressed else "")
    sender = pkt.PPeer(role, sends=case.get("sends") or ())
    hexdump = int(case.get("hexdump") or 0)
    if hexdump:
        sender.t.set_hexdump(True)
    ref = pkt.RPeer(other)
    plans = [pktx.thread_payloads(k, plan) for k, plan in enumerate(case["threads"])]
    bad = None
    try:
        if comp == "zlib@openssh.com":
            sender.auth()
            ref.auth()
        why = _key_exchange(ctx, sender, ref, keys)
        if why:
            bad = ("newkeys-packet", fc, why)
        else:
            errors, hung = pktx.run_concurrent(sender, plans, case["switch"])
            if hung:
                bad = ("concurrent-send-hangs", fc, "a sender thread did not finish within %.0f s" % pktx.JOIN_TIMEOUT)
            for k, e in enumerate(errors):
                if e is not None and bad is None:
                    if isinstance(e, pkt.HarnessBug):
                        raise e
                    bad = ("concurrent-send-raises", fc, "thread %d: %r [%s]" % (k, e, pkt.exc_bucket(e)))
        if bad is None:
            ref.feed(b"".join(sender.drain()))
            why = _judge_wire(ref, plans, cipher, mac, compressed)
            if why:
                bad = ("concurrent-" + why[0], fc, why[1])
    finally:
        send_stats = dict(sender.sock.send_stats)
        sender.close()
    classes = ["api:send", "concurrent-senders", "threads:%d" % len(plans), "framing:" + pkt.framing_class(cipher, mac), "role:" + role, "comp:" + comp]
    classes += ["cipher:" + cipher, "mac:" + mac, "switch-interval:%g" % case["switch"], "sender-keyed-in-both-directions", "hexdump:" + ("off", "on", "on+debug-logger")[hexdump]]
    classes += pkt.asymmetry_classes(keys)
    sc = pktx.send_classes(send_stats)
    classes += sc
    if "send-partial" in sc:
        classes.append("concurrent-senders+send-partial")
    if "send-notready" in sc:
        classes.append("concurrent-senders+send-notready")
    ctx.case(case, len(plans) >= 2 and all(len(p) >= 2 for p in plans), sorted(classes))
    if bad:
        ctx.violation(bad[0], bad[1], case, bad[2])
        return False
    return True


def _enum_keys(seed, idx, role, cipher, mac, comp, work):
    """K/H for the enumerated part: derived from the run seed and the suite index (generated,
    reproducible); K has its top bit set in every second suite.  The enumerated suite is the
    sender's outbound direction; the other direction gets a different suite of the work list,
    picked by the same hash (so over the 432 (suite, role) cases every style / MAC-size /
    block-size relation between the two directions occurs)."""
    raw = hashlib.shake_256(b"c03-keys-%d-%d-%s" % (seed, idx, role.encode())).digest(64 + 32 + 4)
    K = int.from_bytes(raw[:64], "big") >> (idx % 2)
    j = int.from_bytes(raw[96:], "big") % len(work)
    if work[j][:2] == (cipher, mac):
        j = (j + 3) % len(work)  # next MAC of the same cipher
    mine, other = [cipher, mac, comp], list(work[j])
    c2s, s2c = (mine, other) if role == "client" else (other, mine)
    return pkt.keys_dict(K | 1, raw[64:96], pkt.KEX_HASHES[idx % 4], c2s, s2c)


def run(ctx):
    pkt.check_offered()
    ctx.set_budget(60, 800)
    pairs = [(c, m) for c in pkt.CIPHERS for m in pkt.MACS]
    work = [(c, m, z) for (c, m) in pairs for z in pkt.COMPRESSIONS]
    ok = True
    complete = True
    # -- enumeration (sharded over the workers in thorough; all of it in quick)
    for idx, (c, m, z) in enumerate(work):
        if idx % ctx.nworkers != ctx.worker:
            continue
        if ctx.out_of_time():
            complete = False
            break
        bs = _bs(c)
        for role in ("client", "server"):
            keys = _enum_keys(ctx.seed, idx, role, c, m, z, work)
            for api, lo in (("send", 1), ("build", 0)):
                case = {"keys": keys, "role": role, "api": api, "lengths": list(range(lo, 4 * bs + 9)), "seed": idx, "enumerated": True}
                ok = execute(ctx, pkt.norm_case(case)) and ok
    if ctx.worker == 0:
        for role in ("client", "server"):
            for api, lo in (("send", 1), ("build", 0)):
                case = {"keys": None, "role": role, "api": api, "lengths": list(range(lo, 4 * 8 + 9)), "seed": 7, "enumerated": True}
                ok = execute(ctx, pkt.norm_case(case)) and ok
    ctx.exhaustive = bool(complete and ok)
    ctx.note(
        "exhaustive_subdomain",
        "payload lengths 0/1..4*bs+8 (all residues mod bs) for all 72 cipher x MAC pairs x 3 compression settings x 2 roles x {send_message, _build_packet} "
        "+ the unencrypted state; the sender's other direction is keyed with a different, seed-derived suite",
    )
    ctx.assume("lengths near 2^32 are not materialised; the formula is exercised for every residue and concretely up to 70000 bytes")
    # -- generated lengths, independent suites per direction, 0-2 earlier key exchanges
    S = pkt.strategies()
    X = pktx.strategies()
    lens = st.lists(st.one_of(st.integers(1, 200), st.integers(1, 70000), st.integers(32700, 32800), st.integers(65500, 70000)), min_size=1, max_size=6)
    few = st.lists(st.integers(1, 80), max_size=3)
    earlier = st.lists(st.fixed_dictionaries({"keys": S.keys(), "lengths": few}), max_size=2)
    earlier = st.one_of(st.just([]), earlier)

    def distinct_h(case):
        hs = [bytes(e["keys"]["H"]) for e in case["prev"]] + [bytes(case["keys"]["H"])]
        return len(set(hs)) == len(hs)

    # configuration of the sender: hex dump of the traffic (off / on / on with a DEBUG-level logger that has a handler),
    # keepalive timer [interval, how long a not-ready socket event lasts] (due while the socket stalls / never due),
    # inbound messages read between the sends through a recv timeout script.  With the hex dump on the generated
    # lengths stay below 9000 bytes (paramiko formats every byte of every packet: 1.6 us per byte).
    lens_dump = st.lists(st.one_of(st.integers(1, 200), st.integers(1, 9000), st.integers(900, 3000)), min_size=1, max_size=6)
    inbound = st.one_of(st.none(), st.fixed_dictionaries({"every": st.integers(1, 3), "timeouts": S.timeouts}))
    keepalive = st.tuples(st.sampled_from([[0.001, 0.004], [0.001, 0.004], [0.0005, 0.003], [0.05, 0.001]]), st.sampled_from(["transport", "packetizer"])).map(lambda t: t[0] + [t[1]])

    def generated(timers):
        return (
            st.sampled_from([0, 0, 0, 1, 2])
            .flatmap(
                lambda h: st.fixed_dictionaries(
                    {
                        "keys": S.keys(),
                        "prev": earlier,
                        "role": st.sampled_from(["client", "server"]),
                        "api": st.just("send") if timers else st.sampled_from(["send", "send", "build"]),
                        "lengths": lens_dump if h else lens,
                        "seed": st.integers(0, 1000),
                        "sends": st.one_of(X.sends, X.sends_on) if timers else X.sends,
                        "hexdump": st.just(h),
                        "keepalive": keepalive if timers else st.none(),
                        "inbound": inbound if timers else st.none(),
                    }
                )
            )
            .filter(distinct_h)
            .map(pkt.norm_case)
        )

    ctx.explore(generated(False), lambda case: execute(ctx, case), ctx.scale(300, 8000))
    # senders with a keepalive timer (real time passes while the socket is not ready): a timing engine,
    # collect-then-continue, no shrinking (a sender that hangs costs HANG_TIMEOUT_SHORT once, not once per shrink step)
    if not ctx.unknown:
        ctx.explore(generated(True), lambda case: None if ctx.unknown else execute(ctx, case), ctx.scale(120, 2500), shrink=False, seed_offset=77)

    # -- long-lived senders: one keyed Packetizer, many packets, every cipher x MAC style
    if ctx.quick:
        styles = {"plain": ["hmac-sha2-256", "hmac-sha2-512", "hmac-sha1", "hmac-md5"], "trunc": ["hmac-sha1-96", "hmac-md5-96"], "etm": ["hmac-sha2-256-etm@openssh.com", "hmac-sha2-512-etm@openssh.com"]}
        lwork = []
        for ci, c in enumerate(pkt.CIPHERS):
            for si, (style, macs) in enumerate(sorted(styles.items())):
                if R.CIPHERS[c][0] == "gcm" and si:
                    continue  # the MAC name is unused under GCM
                lwork.append((c, macs[(ctx.seed + ci) % len(macs)]))
        n_long = 2500
    else:
        lwork = pairs
        n_long = 20000
    for idx, (c, m) in enumerate(lwork):
        if idx % ctx.nworkers != ctx.worker or ctx.unknown or ctx.out_of_time():
            continue
        z = ("none", "none", "none", "zlib", "none", "zlib@openssh.com")[idx % 6]
        mine = st.just([c, m, z])
        role = ("client", "server")[idx % 2]
        lstrat = st.fixed_dictionaries(
            {
                "keys": S.keys(c2s=mine) if role == "client" else S.keys(s2c=mine),
                "role": st.just(role),
                "api": st.just("send"),
                "lengths": st.fixed_dictionaries({"n": st.just(n_long), "max": st.integers(8, 64), "seed": st.integers(0, 1 << 20)}),
                "seed": st.integers(0, 1000),
                "sends": st.one_of(st.just([]), X.sends),
                # configuration cycles with the suite index and the run seed: every setting occurs in every run
                "hexdump": st.just((0, 1, 0, 2)[(idx + ctx.seed) % 4]),
                "keepalive": st.just((None, [0.001, 0.004, "transport"], None, [0.001, 0.004, "packetizer"])[(idx // 4 + idx + ctx.seed) % 4]),
                "inbound": st.one_of(st.none(), st.fixed_dictionaries({"every": st.integers(40, 120), "timeouts": S.timeouts})),
            }
        ).map(pkt.norm_case)
        ctx.explore(lstrat, lambda case: execute(ctx, case), ctx.scale(1, 3), shrink=False, seed_offset=300 + idx)

    # -- concurrent senders: several threads, one Packetizer, one (scripted) socket
    if not ctx.unknown and not ctx.out_of_time():
        ctx.assume("concurrent senders: real threads, the interleaving is whatever the interpreter produces under the generated switch interval; every packet on the wire is judged on its own, the oracle does not depend on the interleaving")
        # collect-then-continue engine: after the first unlisted violation the remaining draws are skipped
        ctx.explore(concurrent_strategy(120, 400), lambda case: None if ctx.unknown else execute_concurrent(ctx, case), ctx.scale(24, 60), shrink=False, seed_offset=900)


def replay(ctx, case):
    case = pkt.norm_case(case)
    if case.get("kind") == "concurrent":
        # real threads: the interleaving that showed the violation is not part of the case; re-run the same
        # senders up to 25 times (a correct tree passes all of them, the verdict never depends on the interleaving)
        for _ in range(25):
            if not execute_concurrent(ctx, case):
                break
        return
    execute(ctx, case)
