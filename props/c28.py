"""C28 - prefetched and vectored SFTP reads return exactly the file's bytes.

Engine: E5 (production SFTPServer + SFTPClient/SFTPFile over a socketpair) with a fault plan that
makes the served handle return *short reads* (>= 1 byte, strictly less than what is available) for
a generated, request-determined subset of the READ requests.

A case = served file (position-coded content: every aligned 4-byte word holds its own index, so
bytes delivered from the wrong offset are visible) + short-read plan + buffer size + a program of
    prefetch(file_size in {None, true, smaller, larger}, max_concurrent_requests in {None, 1..8})
    read(n) / read() / seek(set|cur|end) / readv(chunks, max_concurrent_prefetch_requests) [+ seek]
Oracle: a plain model (position + the served bytes): read(n) == content[pos:pos+n] (the
BufferedFile.read contract: exactly n bytes unless EOF comes first); readv yields exactly one block
per chunk, in request order, block == content[off:off+len] truncated at EOF; no call raises; and every
call returns ("the call sequence terminates").

Termination is decided without a clock wherever possible: a monitor thread proves a deadlock from
state - the calling thread is blocked in recv() below SFTPClient._read_response, the client's table
of outstanding requests (_expecting) is empty (nothing was asked that has not been answered and
consumed, and the server never speaks unasked) and every live prefetch thread sits in the
max_concurrent_requests wait loop whose condition only the blocked caller could change.  The
monitor then closes the channel (the call fails, no thread is left behind) and names the stuck
state.  A 15 s per-call wall-clock backstop exists for stalls that cannot be proven this way; such a
timeout is re-tried twice (same case) and reported only when it reproduces every time.
"""
import array
import os
import shutil
import sys
import threading
import time
import traceback
import zlib

from hypothesis import strategies as st

from vlib import core, sftpenv

PROPERTY = "C28"
LEVEL = "exploration"
RULE = (
    "hypothesis-generated cases: file size 0..300 KiB dense around multiples of 32768 (the request size) with position-coded content; "
    "bufsize in {unbuffered, 1 KiB..64 KiB}; short-read plan (none | every m-th request by hash of (offset,length), short by a random "
    "fraction or down to 1..64 bytes); program of 1-10 ops: prefetch(file_size None/true/smaller/larger, max_concurrent None/1..8), "
    "read(1..100000)/read(), seek set/cur/end incl. beyond EOF and backwards, readv of 1-20 chunks (overlapping, unordered, zero-length, "
    "> 32768, crossing and beyond EOF) with max_concurrent None/1..8; oracle = model over the served bytes + proven-deadlock monitor. "
    "non-trivial = at least one prefetch/readv and (a short server read occurred, or readv chunks overlap or cross/exceed EOF, or a "
    "non-sequential seek follows a prefetch/readv); distinct by SHA-1 of the case"
)
THOROUGH_WORKERS = 16

BACKSTOP_S = 15.0
REQ = 32768

# ----------------------------------------------------------------------------- thread hygiene

_swallowed = []
_orig_excepthook = threading.excepthook


def _excepthook(args):
    # paramiko's prefetch thread dies with an exception when the harness closes the channel under
    # it (after a verdict / at the end of a case); that is harness cleanup, not an observation.
    th = args.thread
    if th is not None and "_prefetch_thread" in (th.name or ""):
        _swallowed.append((th.name, repr(args.exc_value)))
        del _swallowed[:-20]
        return
    _orig_excepthook(args)


threading.excepthook = _excepthook

# ----------------------------------------------------------------------------- generators

_sizes = st.one_of(
    st.sampled_from([0, 1, 2, 100, 1000, REQ - 1, REQ, REQ + 1, 2 * REQ - 1, 2 * REQ, 2 * REQ + 1, 3 * REQ, 100000, 5 * REQ + 7, 9 * REQ, 300 * 1024]),
    st.integers(0, 300 * 1024),
    st.integers(0, 5000),
    st.integers(REQ, 4 * REQ),
)
_mcr = st.one_of(st.none(), st.none(), st.integers(1, 8), st.sampled_from([1, 2]))

# positions / offsets relative to the file: ("abs", n) | ("size", delta) | ("frac", per-mille) | ("req", k, delta) = k*32768+delta
_pos = st.one_of(
    st.tuples(st.just("frac"), st.integers(0, 1000)),
    st.tuples(st.just("frac"), st.integers(0, 1000)),
    st.tuples(st.just("abs"), st.integers(0, 2000)),
    st.tuples(st.just("abs"), st.just(0)),
    st.tuples(st.just("size"), st.integers(-40, 40)),
    st.tuples(st.just("size"), st.integers(0, 70000)),
    st.tuples(st.just("req"), st.integers(0, 9), st.integers(-2, 2)),
)
_len = st.one_of(
    st.integers(0, 64),
    st.integers(1, 5000),
    st.integers(1, 100000),
    st.sampled_from([0, 1, REQ - 1, REQ, REQ + 1, 2 * REQ, 2 * REQ + 1, 100000]),
)
_fsize = st.one_of(
    st.none(),
    st.none(),
    st.tuples(st.just("size"), st.just(0)),
    st.tuples(st.just("size"), st.integers(-70000, -1)),
    st.tuples(st.just("frac"), st.integers(0, 999)),
    st.tuples(st.just("size"), st.integers(1, 70000)),
    st.tuples(st.just("size"), st.sampled_from([1, REQ, REQ + 1])),
)
_seek = st.one_of(
    st.tuples(st.just("set"), _pos),
    st.tuples(st.just("set"), _pos),
    st.tuples(st.just("cur"), st.integers(-70000, 70000)),
    st.tuples(st.just("cur"), st.integers(-100, 100)),
    st.tuples(st.just("end"), st.integers(-70000, 100)),
)
_chunk = st.tuples(_pos, _len)
_op = st.one_of(
    st.tuples(st.just("prefetch"), _fsize, _mcr),
    st.tuples(st.just("read"), _len),
    st.tuples(st.just("read"), _len),
    st.tuples(st.just("read"), st.integers(1, 100000)),
    st.tuples(st.just("readall")),
    st.tuples(st.just("seek"), _seek),
    st.tuples(st.just("seek"), _seek),
    st.tuples(st.just("readv"), st.lists(_chunk, min_size=1, max_size=20), _mcr, _pos),
    st.tuples(st.just("readv"), st.lists(_chunk, min_size=1, max_size=4), _mcr, _pos),
)
_short = st.one_of(
    st.none(),
    st.tuples(st.sampled_from([1, 1, 2, 3, 5, 10]), st.integers(0, 1000), st.just(False)),
    st.tuples(st.sampled_from([3, 5, 10]), st.integers(0, 1000), st.just(True)),
)
_bufsize = st.one_of(st.just(-1), st.just(-1), st.sampled_from([1024, 4096, 32768, 65536]), st.integers(2, 70000))

# structured openings that random op lists reach too rarely: a prefetch that is only partly consumed,
# followed by a readv into the region that is still buffered, followed by reads elsewhere
_inside = st.one_of(st.tuples(st.just("frac"), st.integers(1, 999)), st.tuples(st.just("abs"), st.integers(1, 3000)))
_scenario = st.builds(
    lambda fs, mcr, n, chunks, mcr2, after, tail: [("prefetch", fs, mcr), ("read", n), ("readv", chunks, mcr2, after)] + tail,
    st.one_of(st.none(), st.tuples(st.just("size"), st.just(0)), st.tuples(st.just("frac"), st.integers(300, 999))),
    _mcr,
    st.integers(1, 3000),
    st.lists(st.tuples(_inside, st.one_of(st.integers(1, 300), st.integers(1, 40000))), min_size=1, max_size=3),
    _mcr,
    _pos,
    st.lists(_op, min_size=1, max_size=5),
)
_ops = st.one_of(st.lists(_op, min_size=1, max_size=10), st.lists(_op, min_size=1, max_size=10), st.lists(_op, min_size=2, max_size=6), _scenario)

case_st = st.fixed_dictionaries(
    {
        "size": _sizes,
        "seed": st.integers(0, 50),
        "short": _short,
        "bufsize": _bufsize,
        "ops": _ops,
    }
)


def _resolve(p, size):
    kind = p[0]
    if kind == "abs":
        r = p[1]
    elif kind == "size":
        r = size + p[1]
    elif kind == "frac":
        r = size * p[1] // 1000
    elif kind == "req":
        r = p[1] * REQ + p[2]
    else:
        raise AssertionError(p)
    return max(0, r)


def _content(seed, size):
    if size == 0:
        return b""
    n = size // 4 + 1
    base = seed * 1000003
    return array.array("I", range(base, base + n)).tobytes()[:size]


def _jsonable(x):
    if isinstance(x, (list, tuple)):
        return [_jsonable(y) for y in x]
    return x


# ----------------------------------------------------------------------------- fault plan


class ShortPlan:
    def __init__(self, spec, size):
        self.spec = spec
        self.size = size
        self.n_short = 0
        self.kill = False
        self.status_eof = []  # (offset, length) of requests answered with STATUS(EOF)

    def on_read(self, handle, n, offset, length):
        if self.kill:
            raise sftpenv.HarnessAbortLoop("harness stop")
        if offset >= self.size or length == 0:
            self.status_eof.append((offset, length))
            return None
        if self.spec is None:
            return None
        m, salt, tiny = self.spec
        avail = min(length, self.size - offset)
        if avail <= 1:
            return None
        h = zlib.crc32(b"%d:%d:%d" % (offset, length, salt))
        if h % m:
            return None
        h2 = h // m
        k = 1 + h2 % (min(64, avail - 1) if tiny else (avail - 1))
        self.n_short += 1
        return ("short", k)


# ----------------------------------------------------------------------------- deadlock monitor

_sleep_line_cache = {}


def _prefetch_sleep_line(code):
    """Absolute line number of the `time.sleep(io_sleep)` statement inside SFTPFile._prefetch_thread."""
    key = (code.co_filename, code.co_firstlineno)
    if key not in _sleep_line_cache:
        line = None
        try:
            with open(code.co_filename) as f:
                src = f.read().split("\n")
            for i in range(code.co_firstlineno - 1, min(len(src), code.co_firstlineno + 40)):
                if "time.sleep(" in src[i]:
                    line = i + 1
                    break
        except OSError:
            pass
        _sleep_line_cache[key] = line
    return _sleep_line_cache[key]


def _stack(frame):
    out = []
    while frame is not None:
        out.append(frame)
        frame = frame.f_back
    return out  # innermost first


class Monitor(threading.Thread):
    def __init__(self, env, main_ident):
        threading.Thread.__init__(self, name="verif-c28-monitor", daemon=True)
        self.env = env
        self.main_ident = main_ident
        self.file = None
        self.stop_ev = threading.Event()
        self.verdict = None  # ("deadlock" | "stall", bucket, text)
        self.op_started = None
        self.op_desc = ""
        self.error = None
        self.status_nums = set()  # request numbers of prefetch/readv requests that got a STATUS reply

    def begin(self, desc):
        self.op_desc = desc
        self.op_started = time.monotonic()

    def end(self):
        self.op_started = None

    # -- state inspection -------------------------------------------------------
    def _proof_state(self):
        """A hashable summary when the state proves that the caller can never be woken, else None."""
        f = self.file
        client = self.env.client
        if f is None or client is None:
            return None
        frames = sys._current_frames()
        main = frames.get(self.main_ident)
        if main is None:
            return None
        st_main = _stack(main)
        inner = st_main[0].f_code
        if not (inner.co_name == "recv" and inner.co_filename.endswith("sftpenv.py")):
            return None
        via = None
        for fr in st_main:
            if fr.f_code.co_name == "_read_response" and fr.f_code.co_filename.endswith("sftp_client.py"):
                via = fr
                break
        if via is None:
            return None
        if len(client._expecting) != 0:
            return None
        waiting = []
        # prefetch threads are recognised by their thread name ("Thread-N (_prefetch_thread)"), so that one
        # which has been started but has not reached its target function yet counts as runnable
        names = {t.ident: (t.name or "") for t in threading.enumerate()}
        for ident, fr in frames.items():
            if ident == self.main_ident or ident == self.ident:
                continue
            stk = _stack(fr)
            pf = [x for x in stk if x.f_code.co_name == "_prefetch_thread" and x.f_code.co_filename.endswith("sftp_file.py")]
            if not pf:
                if "_prefetch_thread" in names.get(ident, "_prefetch_thread?"):
                    return None  # starting up / winding down / unknown thread: possibly runnable
                continue
            if stk[0] is not pf[0]:
                return None  # inside _async_request / send: runnable
            fr0 = pf[0]
            loc = fr0.f_locals
            mcr = loc.get("max_concurrent_requests")
            fobj = loc.get("self")
            if mcr is None or fobj is None:
                return None
            if fr0.f_lineno != _prefetch_sleep_line(fr0.f_code):
                return None
            if len(fobj._prefetch_extents) < mcr:
                return None
            waiting.append((ident, mcr))
        caller = None
        for fr in st_main:
            if fr.f_code.co_filename.endswith("sftp_file.py") or fr.f_code.co_name in ("_finish_responses", "_request"):
                caller = fr.f_code.co_name
                break
        return (
            client.request_number,
            self.env.client_chan.sent,
            self.env.client_chan.received,
            tuple(sorted(f._prefetch_extents.items())),
            bool(f._prefetch_done),
            bool(f._prefetching),
            tuple(sorted(waiting)),
            caller,
        )

    def _describe(self, st):
        reqno, sent, received, extents, done, prefetching, waiting, caller = st
        if extents:
            if all(num in self.status_nums for num, _ in extents):
                bucket = "extent-left-behind-by-STATUS-reply"
            else:
                bucket = "extent-left-behind-by-other-reply"
        elif not done:
            bucket = "prefetch_done-cleared-with-no-request-outstanding"
        else:
            bucket = "waiting-although-prefetch_done"
        text = (
            "proven deadlock during %s: caller blocked in recv() under SFTPClient._read_response called from %s; no request outstanding "
            "(_expecting empty, request_number=%d, client sent %d / received %d bytes); SFTPFile._prefetch_done=%s _prefetching=%s "
            "_prefetch_extents=%r; prefetch threads waiting in the max_concurrent_requests loop: %d"
            % (self.op_desc, caller, reqno, sent, received, done, prefetching, [e for _, e in extents][:6], len(waiting))
        )
        return bucket, text

    def _all_stacks(self):
        out = []
        names = {t.ident: t.name for t in threading.enumerate()}
        for ident, fr in sys._current_frames().items():
            if ident == self.ident:
                continue
            out.append("--- %s\n%s" % (names.get(ident, ident), "".join(traceback.format_stack(fr)[-5:])))
        return "\n".join(out)

    def unblock(self):
        """Make every blocked paramiko thread of this case return (with an error)."""
        self.env.client_chan.close()
        f = self.file
        if f is not None:
            with f._prefetch_lock:
                f._prefetch_extents.clear()

    def run(self):
        try:
            first = None
            while not self.stop_ev.wait(0.002):
                started = self.op_started
                if started is None:
                    first = None
                    continue
                st = self._proof_state()
                now = time.monotonic()
                if st is None:
                    first = None
                elif first is None or first[1] != st:
                    first = (now, st)
                elif now - first[0] >= 0.05:
                    bucket, text = self._describe(st)
                    self.verdict = ("deadlock", bucket, text)
                    self.unblock()
                    return
                if now - started > BACKSTOP_S:
                    main = sys._current_frames().get(self.main_ident)
                    inner = [x.f_code.co_name for x in _stack(main)[:6]] if main is not None else []
                    self.verdict = ("stall", "stall:" + ">".join(reversed(inner[:4])), "no return from %s within %.0f s; threads:\n%s" % (self.op_desc, BACKSTOP_S, self._all_stacks()))
                    self.unblock()
                    return
        except Exception:  # a broken monitor must surface as a harness error in the main thread
            self.error = traceback.format_exc()
            try:
                self.unblock()
            except Exception:
                pass


# ----------------------------------------------------------------------------- one execution


class Result:
    def __init__(self):
        self.violations = []  # (clause, bucket, detail)
        self.stalled = None
        self.nontrivial = False
        self.classes = set()
        self.n_short = 0


_counter = [0]


def _paramiko_frame(exc):
    tb = exc.__traceback__
    where = "?"
    while tb is not None:
        fn = tb.tb_frame.f_code.co_filename
        if os.sep + "paramiko" + os.sep in fn:
            where = "%s:%s" % (os.path.basename(fn), tb.tb_frame.f_code.co_name)
        tb = tb.tb_next
    return where


def _data_bucket(opname, got, exp, mon, suffix):
    """Root-cause bucket of a data mismatch: the smallest description of how it diverges."""
    if isinstance(got, (bytes, bytearray)) and len(got) < len(exp) and exp.startswith(got) and mon.status_nums:
        # an earlier prefetch/readv request was answered with a STATUS packet and this call ended early
        return "premature-end-of-data-after-STATUS-reply-to-a-prefetch-request"
    return "%s:%s%s" % (opname, _diff_kind(got, exp), suffix)


def _diff_kind(got, exp):
    if not isinstance(got, (bytes, bytearray)):
        return "not-bytes"
    if len(got) < len(exp) and exp.startswith(got):
        return "premature-end-of-data"
    if len(got) > len(exp):
        return "too-much-data"
    if len(got) == len(exp):
        return "bytes-from-wrong-offset"
    return "wrong-bytes-and-length"


def run_case(tmp, case):
    """Execute the program once. Never raises for oracle failures."""
    from paramiko.ssh_exception import SSHException
    from paramiko.sftp import CMD_STATUS

    res = Result()
    size, seed, short, bufsize = case["size"], case["seed"], case["short"], case["bufsize"]
    ops = case["ops"]
    content = _content(seed, size)

    _counter[0] += 1
    base = os.path.join(tmp, "c%d" % _counter[0])
    root = os.path.join(base, "root")
    os.makedirs(root)
    with open(os.path.join(root, "f"), "wb") as fh:
        fh.write(content)

    plan = ShortPlan(tuple(short) if short else None, size)
    env = sftpenv.SftpEnv(root, fault_plan=plan)
    mon = Monitor(env, threading.get_ident())
    mon.start()
    f = None
    pos = 0
    used_prefetch = False
    structural = False  # overlapping / beyond-EOF chunks, or a non-sequential seek after prefetch/readv
    tag = ""
    try:
        f = env.client.open("/f", "rb", bufsize)
        mon.file = f
        # observation only: which prefetch/readv requests were answered with a STATUS packet
        inner_async = f._async_response

        def observed_async(t, msg, num):
            if t == CMD_STATUS:
                mon.status_nums.add(num)
            return inner_async(t, msg, num)

        f._async_response = observed_async
        for idx, op in enumerate(ops):
            kind = op[0]
            suffix = ":short-reads" if plan.n_short else ""
            exc = None
            try:
                if kind == "prefetch":
                    fs = None if op[1] is None else _resolve(op[1], size)
                    mcr = op[2]
                    tag = "op %d prefetch(file_size=%r, max_concurrent_requests=%r) at pos %d" % (idx, fs, mcr, pos)
                    res.classes.add("prefetch" + ("" if fs is None else (":size-exact" if fs == size else (":size-too-small" if fs < size else ":size-too-large"))))
                    if mcr is not None:
                        res.classes.add("max-concurrent")
                    used_prefetch = True
                    mon.begin(tag)
                    f.prefetch(fs, mcr)
                    mon.end()
                elif kind in ("read", "readall"):
                    n = op[1] if kind == "read" else None
                    tag = "op %d read(%r) at pos %d (file size %d)" % (idx, n, pos, size)
                    exp = content[pos : pos + n] if n is not None else content[pos:]
                    mon.begin(tag)
                    got = f.read(n) if n is not None else f.read()
                    mon.end()
                    if got != exp:
                        res.violations.append(
                            (
                                "data",
                                _data_bucket("read-after-prefetch" if used_prefetch else "read", got, exp, mon, suffix),
                                "%s: returned %d bytes %s..., expected %d bytes %s..." % (tag, len(got), bytes(got[:12]).hex(), len(exp), exp[:12].hex()),
                            )
                        )
                        break
                    pos += len(exp)
                    res.classes.add("read-at-eof" if not exp and (n or n is None) else "read")
                elif kind == "seek":
                    whence, arg = op[1]
                    if whence == "set":
                        new = _resolve(arg, size)
                        tag = "op %d seek(%d)" % (idx, new)
                        mon.begin(tag)
                        f.seek(new)
                    elif whence == "cur":
                        d = max(arg, -pos)
                        new = pos + d
                        tag = "op %d seek(%d, SEEK_CUR) at pos %d" % (idx, d, pos)
                        mon.begin(tag)
                        f.seek(d, f.SEEK_CUR)
                    else:
                        d = max(arg, -size)
                        new = size + d
                        tag = "op %d seek(%d, SEEK_END)" % (idx, d)
                        mon.begin(tag)
                        f.seek(d, f.SEEK_END)
                    mon.end()
                    if used_prefetch and new != pos:
                        structural = True
                        res.classes.add("seek-after-prefetch")
                    if new > size:
                        res.classes.add("seek-beyond-eof")
                    pos = new
                elif kind == "readv":
                    chunks = [(_resolve(p, size), n) for p, n in op[1]]
                    mcr = op[2]
                    after = _resolve(op[3], size)
                    tag = "op %d readv(%r%s, max_concurrent_prefetch_requests=%r)" % (idx, chunks[:6], "..." if len(chunks) > 6 else "", mcr)
                    used_prefetch = True
                    res.classes.add("readv")
                    if mcr is not None:
                        res.classes.add("max-concurrent")
                    spans = sorted((o, o + n) for o, n in chunks if n > 0)
                    if any(a[1] > b[0] for a, b in zip(spans, spans[1:])):
                        structural = True
                        res.classes.add("readv-overlapping")
                    if any(o + n > size for o, n in chunks if n > 0):
                        structural = True
                        res.classes.add("readv-crossing-or-beyond-eof")
                    if any(o >= size for o, n in chunks if n > 0):
                        res.classes.add("readv-chunk-entirely-beyond-eof")
                    if any(n > REQ for o, n in chunks):
                        res.classes.add("readv-chunk>32768")
                    if any(n == 0 for o, n in chunks):
                        res.classes.add("readv-zero-length-chunk")
                    exp = [content[o : o + n] for o, n in chunks]
                    mon.begin(tag)
                    got = []
                    bad = None
                    for i, block in enumerate(f.readv(chunks, mcr)):
                        got.append(block)
                        if i >= len(exp):
                            bad = ("count", "readv:too-many-blocks%s" % suffix, "%s: more than %d blocks yielded" % (tag, len(exp)))
                            break
                        if block != exp[i]:
                            bad = (
                                "data",
                                _data_bucket("readv", block, exp[i], mon, suffix),
                                "%s: block %d for chunk %r: returned %d bytes %s..., expected %d bytes %s..."
                                % (tag, i, chunks[i], len(block), bytes(block[:12]).hex(), len(exp[i]), exp[i][:12].hex()),
                            )
                            break
                    mon.end()
                    if bad is None and len(got) != len(exp):
                        bad = ("count", "readv:too-few-blocks%s" % suffix, "%s: %d blocks yielded for %d chunks" % (tag, len(got), len(exp)))
                    if bad is not None:
                        res.violations.append(bad)
                        break
                    # the position after readv is not documented: always seek explicitly
                    tag = "op %d seek(%d) after readv" % (idx, after)
                    mon.begin(tag)
                    f.seek(after)
                    mon.end()
                    pos = after
                else:
                    raise AssertionError(op)
            except (SSHException, EOFError, IOError, OSError, RuntimeError, KeyError, IndexError, ValueError, TypeError) as e:
                exc = e
            if mon.error:
                raise RuntimeError("monitor failed: " + mon.error)
            if mon.verdict is not None:
                vkind, bucket, text = mon.verdict
                if vkind == "deadlock":
                    res.violations.append(("hang", bucket, "%s\n(call then failed with %r after the harness closed the channel)" % (text, exc)))
                else:
                    res.stalled = (bucket, text)
                break
            if exc is not None:
                res.violations.append(
                    ("raises", "%s:%s@%s%s" % (kind, type(exc).__name__, _paramiko_frame(exc), suffix), "%s raised %r; server log tail %r" % (tag, exc, env.server_log[-3:]))
                )
                break
    finally:
        mon.end()
        res.n_short = plan.n_short
        if plan.n_short:
            res.classes.add("short-server-reads")
        res.nontrivial = used_prefetch and (plan.n_short > 0 or structural)
        # orderly end: close the file (collects outstanding responses), then the link
        if f is not None and mon.verdict is None:
            mon.begin("close()")
            try:
                f.close()
            except Exception as e:
                if mon.verdict is None:
                    res.violations.append(("raises", "close:%s@%s" % (type(e).__name__, _paramiko_frame(e)), "close() raised %r" % (e,)))
            mon.end()
            if mon.verdict is not None and not res.violations and res.stalled is None:
                vkind, bucket, text = mon.verdict
                if vkind == "deadlock":
                    res.violations.append(("hang", "close:" + bucket, text))
                else:
                    res.stalled = (bucket, text)
        mon.stop_ev.set()
        plan.kill = True
        mon.unblock()
        mon.join(5)
        env.close()
        # a prefetch thread may have re-registered an extent after unblock() and parked again in its
        # max_concurrent_requests loop: keep releasing it until it has run into the closed channel
        deadline = time.monotonic() + 10
        while True:
            leftovers = [t for t in threading.enumerate() if "_prefetch_thread" in (t.name or "")]
            if not leftovers or time.monotonic() > deadline:
                break
            if f is not None:
                with f._prefetch_lock:
                    f._prefetch_extents.clear()
            leftovers[0].join(0.02)
        leftovers = [
            "%s at %s" % (t.name, "".join(traceback.format_stack(sys._current_frames()[t.ident])[-3:]) if t.ident in sys._current_frames() else "?")
            for t in leftovers
            if t.is_alive()
        ]
        alive = env.threads_alive()
        if f is not None:
            f._closed = True  # the link is gone: keep __del__ from talking to it
        shutil.rmtree(base, ignore_errors=True)
        if leftovers or alive or mon.is_alive():
            raise RuntimeError("threads left behind: prefetch=%r server=%r monitor=%r" % (leftovers, alive, mon.is_alive()))
    return res


# ----------------------------------------------------------------------------- reporting, confirmation, reduction


def _signatures(res):
    return ["%s|%s" % (c, b) for c, b, _ in res.violations]


def _reduce(tmp, case, sig, budget=40):
    """Greedy reduction of the op list / chunk lists / plan while the same signature shows."""
    cur = case

    def shows(c):
        nonlocal budget
        if budget <= 0:
            return False
        budget -= 1
        r = run_case(tmp, c)
        return sig in _signatures(r)

    changed = True
    while changed and budget > 0:
        changed = False
        for i in range(len(cur["ops"]) - 1, -1, -1):
            cand = dict(cur, ops=cur["ops"][:i] + cur["ops"][i + 1 :])
            if cand["ops"] and shows(cand):
                cur, changed = cand, True
        for i, op in enumerate(cur["ops"]):
            if op[0] == "readv" and len(op[1]) > 1:
                for j in range(len(op[1]) - 1, -1, -1):
                    if len(cur["ops"][i][1]) <= 1:
                        break
                    chunks = list(cur["ops"][i][1])
                    del chunks[j]
                    nop = [op[0], chunks] + list(cur["ops"][i][2:])
                    cand = dict(cur, ops=cur["ops"][:i] + [nop] + cur["ops"][i + 1 :])
                    if shows(cand):
                        cur, changed = cand, True
        for key, simple in (("short", None), ("bufsize", -1)):
            if cur[key] != simple:
                cand = dict(cur, **{key: simple})
                if shows(cand):
                    cur, changed = cand, True
    return cur


def process(ctx, case, open_known, reduce_unknown=True):
    case = _jsonable(case)
    tmp = ctx.tmpdir()
    res = run_case(tmp, case)
    tries = 1
    while res.stalled is not None and tries < 3:
        # time-based verdict: same case again, twice, before believing it
        ctx.count("backstop-timeout-retried")
        res2 = run_case(tmp, case)
        tries += 1
        if res2.stalled is None:
            ctx.inconc("backstop-timeout-not-reproduced")
            res = res2
            break
        res = res2
    if res.stalled is not None:
        bucket, text = res.stalled
        res.violations.append(("hang", bucket, "reproduced in 3 of 3 runs: " + text))
    ctx.case(case, res.nontrivial, sorted(res.classes))
    for clause, bucket, detail in res.violations:
        sig = "%s|%s" % (clause, bucket)
        if sig in open_known or sig in ctx.unknown or not reduce_unknown:
            ctx.violation(clause, bucket, case, detail)
            continue
        # unlisted: confirm (2 more runs) and reduce before recording
        again = sum(1 for _ in range(2) if sig in _signatures(run_case(tmp, case)))
        small = _reduce(tmp, case, sig) if again else case
        ctx.violation(clause, bucket, small, "%s\n[seen again in %d of 2 re-runs of the original case; case reduced from %d to %d ops]" % (detail, again, len(case["ops"]), len(small["ops"])))


def _open_known():
    return set(k for k, e in core.load_known(PROPERTY).items() if e.get("status") == "open")


def _explore_in_slices(ctx, strategy, body, total, shrink, slice_size=600):
    """ctx.explore in slices (own seed offset each), so that after a budget hit the run ends within one
    slice instead of letting hypothesis generate thousands of cases that are skipped."""
    done = k = 0
    while done < total and not ctx.out_of_time():
        n = min(slice_size, total - done)
        ctx.explore(strategy, body, n, shrink=shrink, seed_offset=k)
        done += n
        k += 1


def run(ctx):
    ctx.set_budget(75, 850)
    known = _open_known()
    _explore_in_slices(ctx, case_st, lambda c: process(ctx, c, known), ctx.scale(600, 8000), shrink=False)


def replay(ctx, case):
    process(ctx, case, _open_known(), reduce_unknown=False)
