"""C36 - keys survive serialisation; equality/hash on public material; passphrases; new files are private.

One case = (key material, how the object was obtained, passphrase used for writing, a wrong
passphrase, entry points for writing/loading, state of the target path, process umask, another key).
Key material is bundled files plus CONSTRUCTED keys with structurally special encodings: ECDSA private scalars
whose public point has a coordinate with 1-2 leading zero bytes (vlib.keymat.ec_special_scalars, every curve; also
the smallest and largest scalars), random scalars, and 1024-1216 bit RSA keys generated at the start of every run
and selected so that the DER body length is / is not a multiple of the 16 and 8 byte cipher blocks (the body of a
passphrase-protected file then ends in a full / partial padding block), and committed RSA keys whose modulus bit
length is not a multiple of 8 (sub-pool keys/rsa-oddbits, 1025 ... 2052 bits). Constructed keys are obtained as
`cryptography` object, from PEM and OpenSSH-format text written by `cryptography`, and from traditional
encrypted PEM text written by the independent vlib.keymat.legacy_pem_encrypt under each cipher paramiko reads.
Oracle (every clause of the statement):
 a. public round trip: Class(data=k.asbytes()), Class(msg=...), PKey.from_type_string(...) are equal to k and
    hash-equal; asbytes / name / bits / fingerprints / base64 equal the independent encoding
    (vlib.keys.RefPub built from the `cryptography` key, hashlib, base64);
 b. equality and hashing depend only on the public material: private, public-only and certificate-bearing
    objects of one key are equal and hash-equal; objects of different material are unequal (the reference
    decides what "same material" is);
 c. RSA/ECDSA: write_private_key_file / write_private_key output loads back (file name and file object entry
    points) as an equal key that can sign, and the signature verifies under the ORIGINAL public key with the
    independent verifier; written with a passphrase: loading without one raises PasswordRequiredException,
    with a wrong one raises and never returns a key;
 d. the same passphrase clauses for the bundled passphrase-protected files of all three types;
 c". passphrase TEXT: writing passphrases include text that is not stable under Unicode normalisation (combining
    marks composed / decomposed / in non-canonical order, Hangul jamo, canonical singletons OHM / ANGSTROM / CJK
    compatibility ideographs, composition exclusions, ligatures / fullwidth / superscripts: a fixed table plus drawn
    base+combining text); such a key must load back with exactly the text it was written with, and a WRONG passphrase
    may be a canonically (NFC / NFD) or compatibility (NFKC / NFKD) equivalent spelling of the right one - a different
    string of code points, which must be refused like any other wrong passphrase;
 b'. converse of b with NEAR keys (vlib-independent construction through `cryptography`): a key sharing only part of
    the public material (EC mirrored point, RSA same n / other e, Ed25519 one bit, ...) is unequal - also when it is built so that hash() of each of its numbers EQUALS that of the key's
    (RSA e and/or n shifted by an even multiple of sys.hash_info.modulus: CPython hashes an int to its value modulo
    2**61 - 1, so the field tuples collide) -, is not found in a dict keyed by the key, and its own object forms are equal among themselves: a == b <=> public blobs equal;
 b". certificates (round 4): ONE key pair under 2-3 DIFFERENT OpenSSH certificates (serial, user / host type, key id,
    principals, validity, extensions, CA key of another type, nonce), built without paramiko by cryptography's
    SSHCertificateBuilder or by the harness' own encoder (PROTOCOL.certkeys layout, refssh encoders). Objects of the key:
    bare public, the case's object, a NEW private object per certificate given it through load_certificate (text line /
    file / Message) or PKey.from_path (key file with <name>-cert.pub next to it), and a public-only object parsed from
    each certificate blob (data= / msg= / from_type_string). Equality must depend on the PUBLIC KEY MATERIAL only - the
    key's own numbers / point / bytes, i.e. asbytes() - not on whether a certificate is carried nor on which one: every
    pair of these objects is ==, not !=, hash-equal, they fill one set slot and find one another in lists / dicts; and
    an object of OTHER material (the other key, the near key) is unequal to all of them also when it carries a
    certificate with the same fields, or - load_certificate only looks at the type name - this key's very certificate;
 c'. histories on one path: 2-3 key files written over each other (other key, other class, passphrase added /
    removed / changed; paramiko's writer or the harness, in place or by rename), each loaded back immediately by
    file name - the load must give the key just written, and respect the passphrase just set;
 e. a newly created key file has no group/other permission bits and is owner read+write, under umask 0, 0o022
    and 0o077 (umask restored afterwards); a pre-existing longer file is fully replaced.
"""
import base64
import hashlib
import io
import os
import stat
import sys
import unicodedata

from hypothesis import strategies as st

from vlib import core
from vlib import keymat as KM
from vlib import keys as K

PROPERTY = "C36"
LEVEL = "exploration"
RULE = (
    "hypothesis draws key material (27 bundled private key files of RSA 1024/2048, ECDSA P-256/384/521 and Ed25519, "
    "plain and passphrase-protected, PEM and OpenSSH container; ECDSA scalars: random, and constructed ones whose public "
    "x or y has 1-2 leading zero bytes / smallest / largest, every curve; RSA 1024-1216 generated in every run and selected "
    "by DER length mod 16 and mod 8 (full vs partial final padding block); 10 committed RSA keys whose modulus bit length is not "
    "a multiple of 8 (1025 ... 2052 bits); in thorough also RSAKey.generate 1024-4096), "
    "object provenance (file, file object, cryptography object, +certificate; constructed keys: PEM text, OpenSSH-format "
    "text, traditional encrypted PEM under AES-128-CBC/AES-256-CBC/DES-EDE3-CBC from an independent writer), a writing passphrase "
    "(none, ascii, unicode incl. astral, long, whitespace, empty; text that is NOT stable under NFC / NFD / NFKC / NFKD: 14 "
    "tabulated strings - combining marks, marks in non-canonical order, Hangul jamo, OHM / ANGSTROM / CJK-compatibility singletons, "
    "composition exclusions, ligature / fullwidth / superscript - and drawn base+combining-mark text), a wrong passphrase (none, "
    "empty, prefix, case-changed, other, suffix, a canonically or compatibility equivalent spelling of the right one (its NFC / NFD / "
    "NFKC / NFKD form when that differs), bytes form), target path new or pre-existing (0644/0600/0666, longer content), umask 0/0o022/0o077 and a "
    "second key for the inequality clause; a NEAR key for the converse of the equality clause (a == b <=> public blobs equal): "
    "built with cryptography from the reference key so that it shares part of the public material - ECDSA mirrored point "
    "(same x, y' = p - y: scalar n - d), neighbouring scalar, same scalar on another curve; RSA same n with another e (valid "
    "private key, d' recomputed), same e with one bit of n flipped, e and n swapped, e and / or n plus an even multiple of sys.hash_info.modulus "
    "(hash() of every number, hence of the field tuple, EQUALS the key's while the public bytes differ); Ed25519 one bit flipped / bytes rotated - "
    "as public-only and (where a private key exists) private objects; and a HISTORY of 2-3 key files on ONE path (who: the "
    "key / the other key / the near key, which may be of another class; passphrase none or one of four; written by "
    "write_private_key_file, or by the harness in place / by rename), every step loaded back at once through "
    "from_private_key_file, Class(filename=), PKey.from_path, with the per-load oracle unchanged (that key, signing-capable, "
    "refused without / with a wrong passphrase); in about every second case the key under 2-3 DIFFERENT certificates (fields drawn: serial, type, key id, "
    "principals, validity, extensions, CA = one of 7 pool keys of all three types, nonce length; encoder = cryptography SSHCertificateBuilder | the harness' own "
    "PROTOCOL.certkeys encoder; attached to a new private object by load_certificate(line | file | Message) | PKey.from_path with a -cert.pub file; parsed as "
    "public-only object by data= | msg= | from_type_string): all objects of the key pairwise equal / hash-equal / one set slot, objects of other material "
    "(other key, near key) carrying a certificate with the same fields or this key's very certificate unequal; "
    "non-trivial = passphrase-protected (written or obtained from encrypted text) or "
    "certificate-bearing (bundled certificate or generated ones) or umask != 0o077; "
    "distinct by SHA-1 of the case"
)
CERTS = {"t:rsa": "rsa.key-cert.pub", "t:ed25519": "ed25519.key-cert.pub", "t:ecdsa-256": "ecdsa-256.key-cert.pub"}

_cache = {}


def _kid(keyid):
    return core.to_json(keyid)


def key_class(keyid):
    if isinstance(keyid, str):
        return KM.spec(keyid).cls
    return {"ec": "ECDSAKey", "rsapem": "RSAKey"}[keyid[0]]


def ref_private(keyid):
    k = ("ref", _kid(keyid))
    if k not in _cache:
        if isinstance(keyid, str):
            _cache[k] = KM.spec(keyid).ref_private()
        elif keyid[0] == "ec":
            from cryptography.hazmat.primitives.asymmetric import ec

            curve = {"nistp256": ec.SECP256R1, "nistp384": ec.SECP384R1, "nistp521": ec.SECP521R1}[keyid[1]]
            _cache[k] = ec.derive_private_key(int(keyid[2]), curve())
        else:
            from cryptography.hazmat.primitives import serialization

            _cache[k] = serialization.load_pem_private_key(keyid[1].encode(), password=None)
    return _cache[k]


def ref_public(keyid):
    return K.RefPub.from_crypto(ref_private(keyid).public_key())


ENC_PROV_PASS = "prov pass\u00e9"  # passphrase of the encrypted text provenances
ENC_PROVS = ["pem-enc:" + c for c in sorted(KM.LEGACY_PEM_CIPHERS)]


def provs_for(keyid):
    out = []
    if isinstance(keyid, str):
        out += ["file", "fileobj"]
        if keyid in CERTS:
            out += ["file+cert"]
    else:
        out += ["pem-text", "openssh-text"] + ENC_PROVS
    if key_class(keyid) != "Ed25519Key":
        out.append("object")
    return out


def der_body(keyid):
    """Traditional (PKCS#1 / SEC1) DER body of the private key: what a PEM writer encrypts."""
    k = ("der", _kid(keyid))
    if k not in _cache:
        from cryptography.hazmat.primitives import serialization as S

        _cache[k] = ref_private(keyid).private_bytes(S.Encoding.DER, S.PrivateFormat.TraditionalOpenSSL, S.NoEncryption())
    return _cache[k]


def prov_text(keyid, prov):
    """Private key file text of a constructed key, written without paramiko."""
    from cryptography.hazmat.primitives import serialization as S

    priv = ref_private(keyid)
    if prov == "pem-text":
        if keyid[0] == "rsapem":
            return keyid[1]
        return priv.private_bytes(S.Encoding.PEM, S.PrivateFormat.TraditionalOpenSSL, S.NoEncryption()).decode()
    if prov == "openssh-text":
        return priv.private_bytes(S.Encoding.PEM, S.PrivateFormat.OpenSSH, S.NoEncryption()).decode()
    cipher = prov.split(":", 1)[1]
    der = der_body(keyid)
    iv = hashlib.sha256(der + cipher.encode()).digest()[: KM.LEGACY_PEM_CIPHERS[cipher][1]]  # deterministic
    return KM.legacy_pem_encrypt(der, "RSA" if key_class(keyid) == "RSAKey" else "EC", cipher, ENC_PROV_PASS, iv)


def get_obj(keyid, prov):
    k = (_kid(keyid), prov)
    if k not in _cache:
        _cache[k] = make_obj(keyid, prov)
    return _cache[k]


def make_obj(keyid, prov):
    """A NEW paramiko object of the key (never shared: callers may attach certificates to it)."""
    import paramiko

    cls = getattr(paramiko, key_class(keyid))
    sp = KM.spec(keyid) if isinstance(keyid, str) else None
    if prov == "file":
        obj = cls.from_private_key_file(sp.path, sp.password)
    elif prov == "fileobj":
        obj = cls.from_private_key(io.StringIO(sp.text), sp.password)
    elif prov == "file+cert":
        obj = cls.from_private_key_file(sp.path, sp.password)
        obj.load_certificate("/repo/tests/_support/" + CERTS[keyid])
    elif prov == "object":
        priv = ref_private(keyid)
        obj = cls(key=priv) if cls is paramiko.RSAKey else cls(vals=(priv, priv.public_key()))
    elif prov in ("pem-text", "openssh-text"):
        obj = cls.from_private_key(io.StringIO(prov_text(keyid, prov)), None)
    elif prov in ENC_PROVS:
        obj = cls.from_private_key(io.StringIO(prov_text(keyid, prov)), ENC_PROV_PASS)
    else:
        raise AssertionError(prov)
    return obj


# ----------------------------------------------------------------------------- strategies


def _by_class():
    out = {}
    for s in K.specs():
        out.setdefault(s.cls, []).append(s.name)
    return out


_extra_keys = []  # RSA keys generated in this run: ["rsapem", text] (see fresh_rsa_pool; thorough adds RSAKey.generate)


def fresh_rsa_pool(ctx):
    """Small RSA keys generated now (every run, both tiers) and SELECTED by the length of their DER body modulo
    the cipher block sizes: at least one whose body is a whole number of 16-byte blocks (its encrypted form ends
    in a full padding block), one that is a multiple of 8 only, one that is neither. Modulus sizes cycle so the
    lengths really vary (a 1024-bit key is 607-611 bytes)."""
    from cryptography.hazmat.primitives import serialization as S
    from cryptography.hazmat.primitives.asymmetric import rsa

    have = {}
    sizes = [1024, 1024, 1024, 1088, 1152, 1216]
    for i in range(60):
        priv = rsa.generate_private_key(65537, sizes[i % len(sizes)])
        der = priv.private_bytes(S.Encoding.DER, S.PrivateFormat.TraditionalOpenSSL, S.NoEncryption())
        shape = "mod16=0" if len(der) % 16 == 0 else ("mod8=0" if len(der) % 8 == 0 else "partial")
        if len(have.setdefault(shape, [])) < 2:
            text = priv.private_bytes(S.Encoding.PEM, S.PrivateFormat.TraditionalOpenSSL, S.NoEncryption()).decode()
            have[shape].append(["rsapem", text])
        if len(have) == 3 and all(len(v) == 2 for v in have.values()):
            break
    for shape in sorted(have):
        _extra_keys.extend(have[shape])
        ctx.count("generated-rsa-der-%s" % shape, len(have[shape]))
    if "mod16=0" not in have or "partial" not in have:
        ctx.inconc("fresh-rsa-pool-lacks-a-der-length-class")


@st.composite
def keyids(draw):
    by = _by_class()
    cls = draw(st.sampled_from(["RSAKey", "ECDSAKey", "Ed25519Key"]))
    kind = draw(st.integers(0, 5))
    if cls == "ECDSAKey" and kind == 0:
        curve = draw(st.sampled_from(["nistp256", "nistp384", "nistp521"]))
        return ["ec", curve, draw(st.integers(1, K.curve_order(curve) - 1))]
    if cls == "ECDSAKey" and kind in (1, 2):
        curve = draw(st.sampled_from(["nistp256", "nistp384", "nistp521"]))
        return ["ec", curve, draw(st.sampled_from(KM.ec_special_scalars(curve)))]
    if cls == "RSAKey" and kind in (0, 1, 2) and _extra_keys:
        return draw(st.sampled_from(_extra_keys))
    if cls == "RSAKey" and kind == 3:
        # committed sub-pool: modulus bit length not a multiple of 8 (1025 ... 2052 bits, every residue 1..7)
        return draw(st.sampled_from([sp.name for sp in KM.subpool_specs("odd")]))
    return draw(st.sampled_from(by[cls]))


def material_classes(keyid):
    """Evidence classes describing the structure of the key material (computed from the reference key)."""
    if isinstance(keyid, str):
        out = ["key:bundled"] if not keyid.startswith("odd:") else ["key:rsa-modulus-bits-mod8=%d" % (ref_public(keyid).bits % 8)]
    elif keyid[0] == "ec":
        lx, ly = KM.ec_coord_shape(ref_private(keyid).public_key())
        d = int(keyid[2])
        size = "tiny" if d < 65536 else ("top" if d > K.curve_order(keyid[1]) - 65536 else "random")
        out = ["key:ec-scalar-" + size, "ec-coord:%s:x-lz%d:y-lz%d" % (keyid[1], lx, ly)]
        if lx or ly:
            out.append("ec-coord:short")
    else:
        out = ["key:rsa-generated"]
    if key_class(keyid) != "Ed25519Key":
        n = len(der_body(keyid))
        out.append("%s-der:%s" % (key_class(keyid), "mod16=0" if n % 16 == 0 else ("mod8=0" if n % 8 == 0 else "partial")))
    return out


# Passphrase text that is NOT stable under a Unicode normalisation form (the passphrase is a byte string to the
# cipher: two texts that merely look alike / are canonically equivalent are different passphrases). Each entry changes
# under at least one of NFC / NFD / NFKC / NFKD; pass_classes() computes which ones with unicodedata.
UNSTABLE_PASS = [
    "cafe\u0301",  # base letter + combining acute: NFC composes
    "e\u0301te\u0301 \u00e9t\u00e9",  # the same word decomposed and composed: every form changes it
    "\u2126 ohm",  # OHM SIGN: canonical singleton (NFC and NFD give GREEK CAPITAL OMEGA)
    "\u212bngstr\u00f6m",  # ANGSTROM SIGN singleton + a composed letter
    "\u1112\u1161\u11ab\u1100\u1173\u11af",  # conjoining Hangul jamo: NFC composes syllables
    "\ud55c\uae00",  # composed Hangul syllables: NFD decomposes
    "\ufa0a\u898b",  # CJK compatibility ideograph: canonical singleton
    "q\u0307\u0323",  # two combining marks in non-canonical order: NFC / NFD reorder
    "\u0958\u0915\u093c",  # composition exclusion: NFC DEcomposes the first character
    "A\u030a\u00c5\u212b",  # three spellings of one letter
    "\ufb01sh \uff50\uff57 x\u00b2",  # ligature, fullwidth, superscript: only the compatibility forms change
    "\u00e9t\u00e9",  # composed (NFC-stable): NFD / NFKD decompose
    "\u1e9b\u0323",  # LONG S WITH DOT ABOVE + dot below: NFC, NFD, NFKC, NFKD all differ from one another
    "\u03d2\u0301 \u0385",  # hooked upsilon + tonos; dialytika tonos
]
_COMBINING = "\u0300\u0301\u0302\u0303\u0308\u030a\u0323\u0327\u0328\u0338\u093c\u3099\u309a\u05bc\u0653"
_BASES = "aeinouyAEO cs<=\u00e9\u00fc\u0915\u304b\u306f\u05d1\u0627\u2126\u212b\u1100\u1161\u11a8\ufb01\u00b5"
unstable_text = st.text(alphabet=st.sampled_from(_BASES + _COMBINING + _COMBINING), min_size=2, max_size=8).filter(
    lambda t: any(unicodedata.normalize(f, t) != t for f in NORMAL_FORMS)
)
NORMAL_FORMS = ["NFC", "NFD", "NFKC", "NFKD"]


def pass_classes(pw):
    """Evidence classes of a writing passphrase: which normalisation forms change it."""
    if not pw or not isinstance(pw, str):
        return []
    forms = [f for f in NORMAL_FORMS if unicodedata.normalize(f, pw) != pw]
    out = ["pass-unstable-under:" + f for f in forms]
    if forms:
        out.append("pass:not-normalisation-stable")
    elif any(ord(ch) > 127 for ch in pw):
        out.append("pass:non-ascii-normalisation-stable")
    return out


passphrases = st.one_of(
    st.none(),
    st.none(),
    st.sampled_from(UNSTABLE_PASS),
    unstable_text,
    st.sampled_from(["television", "a", " ", "  tab\tand space ", "pass word", "x" * 200, "éèüß", "密码", "\U0001f511key", ""]),
    st.text(alphabet=st.characters(min_codepoint=0x20, max_codepoint=0x7E), min_size=1, max_size=20),
    st.text(min_size=1, max_size=12),
)


# NEAR keys: different keys that share part of their public material with the key of the case (built with
# `cryptography` from the reference private key, never by paramiko)
NEAR_KINDS = {
    "ECDSAKey": ["ec-negate", "ec-negate", "ec-neighbour", "ec-other-curve"],
    "RSAKey": ["rsa-same-n-other-e", "rsa-same-n-other-e", "rsa-same-e-n-bit", "rsa-swapped-e-n", "rsa-n-hash-collide", "rsa-e-hash-collide", "rsa-both-hash-collide"],
    "Ed25519Key": ["ed-bit", "ed-bit", "ed-byte-rotated"],
}
HIST_PASS = [None, None, "television", "hist pass \u00e9", "x", "Television", "hist pa\u0323\u0307ss e\u0301 \u2126"]
HIST_WRITERS = ["paramiko", "paramiko", "external-truncate", "external-replace"]
hist_step = st.tuples(st.sampled_from(["key", "other", "key", "near"]), st.sampled_from(HIST_PASS), st.sampled_from(HIST_WRITERS)).map(list)


@st.composite
def cases(draw, fixed_key=None):
    key = fixed_key if fixed_key is not None else draw(keyids())
    prov = draw(st.sampled_from(provs_for(key)))
    other = draw(keyids())
    return {
        "near": [draw(st.sampled_from(NEAR_KINDS[key_class(key)])), draw(st.integers(0, 9999))],
        "history": draw(st.lists(hist_step, min_size=2, max_size=3)),
        "key": key,
        "prov": prov,
        "pass": draw(passphrases),
        "wrong": draw(st.sampled_from(["none", "empty", "prefix", "case", "other", "suffix", "canonical", "compatible"])),
        "wrong_bytes": draw(st.booleans()),
        "right_bytes": draw(st.booleans()),
        "write_via": draw(st.sampled_from(["file", "file", "fileobj"])),
        "pre": draw(st.sampled_from([None, None, 0o644, 0o600, 0o666])),
        "umask": draw(st.sampled_from([0, 0o022, 0o077])),
        "other": other,
        "oprov": draw(st.sampled_from(provs_for(other))),
        # the key under 2-3 different certificates (about every second case; [] = none)
        "certs": draw(st.one_of(st.just([]), st.lists(cert_spec, min_size=2, max_size=3))),
    }


def wrong_pass(right, kind):
    """A passphrase different from ``right`` (None = no passphrase)."""
    if kind == "none":
        return None
    if kind == "empty":
        return ""
    if kind in ("canonical", "compatible"):
        # another text that is canonically / compatibility EQUIVALENT to the right one (a normal form of it): it is a
        # different string of code points, hence a wrong passphrase. Stable text has none: falls back to "suffix".
        for form in ("NFC", "NFD") if kind == "canonical" else ("NFKC", "NFKD"):
            w = unicodedata.normalize(form, right)
            if w != right:
                return w
        kind = "suffix"
    if kind == "prefix":
        return right[:-1] if len(right) > 1 else right + "x"
    if kind == "suffix":
        return right + " "
    if kind == "case":
        sw = right.swapcase()
        return sw if sw != right else right + "X"
    return "not-" + right[::-1]


# ----------------------------------------------------------------------------- near keys

_CURVE_CLS = {"nistp256": "SECP256R1", "nistp384": "SECP384R1", "nistp521": "SECP521R1"}
_RSA_EXPONENTS = [3, 5, 17, 257, 65539, 65537, 4294967297]


def near_key(keyid, kind, aux):
    """A key that is DIFFERENT from ``keyid`` but shares part of its public material, built from the reference
    private key with `cryptography` / plain arithmetic only. -> dict(kind, blob (SSH public bytes, independent
    encoder), name (key type string), priv (`cryptography` private key or None), genuine (a real, valid key:
    paramiko must accept it), shares (what the two keys have in common)) or None when the kind does not apply."""
    k = ("near", _kid(keyid), kind, aux)
    if k in _cache:
        return _cache[k]
    from cryptography.hazmat.primitives.asymmetric import ec, rsa

    from vlib import refssh as R

    priv = ref_private(keyid)
    ref = ref_public(keyid)
    out = None
    if kind.startswith("ec-"):
        d = priv.private_numbers().private_value
        n = K.curve_order(ref.curve)
        if kind == "ec-negate":  # the mirrored point: same x, y' = p - y
            p2 = ec.derive_private_key(n - d, priv.curve)
            shares = "curve+x"
        elif kind == "ec-neighbour":
            d2 = (d - 1 + [1, -1, 2, -2][aux % 4]) % (n - 1) + 1
            p2 = ec.derive_private_key(d2, priv.curve)
            shares = "curve"
        else:  # the same scalar on another curve
            names = [c for c in sorted(_CURVE_CLS) if c != ref.curve]
            c2 = names[aux % 2]
            p2 = ec.derive_private_key((d - 1) % (K.curve_order(c2) - 1) + 1, getattr(ec, _CURVE_CLS[c2])())
            shares = "scalar"
        r2 = K.RefPub.from_crypto(p2.public_key())
        if kind == "ec-negate":
            a, b = priv.public_key().public_numbers(), p2.public_key().public_numbers()
            assert a.x == b.x and a.y != b.y, "harness: negation does not mirror the point"
        out = {"blob": r2.blob(), "name": r2.name, "priv": p2, "genuine": True, "shares": shares}
    elif kind.startswith("rsa-"):
        pn = priv.private_numbers()
        e, n = pn.public_numbers.e, pn.public_numbers.n
        if kind == "rsa-same-n-other-e":
            import math

            lam = (pn.p - 1) * (pn.q - 1) // math.gcd(pn.p - 1, pn.q - 1)
            cands = [x for x in _RSA_EXPONENTS[aux % len(_RSA_EXPONENTS) :] + _RSA_EXPONENTS if x != e and math.gcd(x, lam) == 1]
            e2 = cands[0]
            d2 = pow(e2, -1, lam)
            p2 = rsa.RSAPrivateNumbers(pn.p, pn.q, d2, d2 % (pn.p - 1), d2 % (pn.q - 1), pn.iqmp, rsa.RSAPublicNumbers(e2, n)).private_key()
            r2 = K.RefPub.from_crypto(p2.public_key())
            out = {"blob": r2.blob(), "name": "ssh-rsa", "priv": p2, "genuine": True, "shares": "n"}
        elif kind == "rsa-same-e-n-bit":
            bit = 1 + aux % (n.bit_length() - 2)  # stays odd, keeps its length
            out = {"blob": R.string(b"ssh-rsa") + R.mpint(e) + R.mpint(n ^ (1 << bit)), "name": "ssh-rsa", "priv": None, "genuine": False, "shares": "e+most-of-n"}
        elif kind.endswith("-hash-collide"):
            # a different key whose numbers have the same Python hash() as the key's: hash(int) is the value modulo
            # sys.hash_info.modulus (2**61 - 1 on 64-bit CPython), so adding an even multiple of it keeps hash and
            # parity. a == b <=> same public material must hold exactly where a digest of the material collides.
            step = 2 * sys.hash_info.modulus * (1 + aux % 5)
            e2 = e + step if kind != "rsa-n-hash-collide" else e
            n2 = n + step * (1 + aux % 3) if kind != "rsa-e-hash-collide" else n
            collides = hash((e2, n2)) == hash((e, n))
            out = {
                "blob": R.string(b"ssh-rsa") + R.mpint(e2) + R.mpint(n2),
                "name": "ssh-rsa",
                "priv": None,
                "genuine": False,
                "shares": "the hash() of every number (congruent modulo sys.hash_info.modulus)" if collides else "most of the numbers",
            }
        else:  # the two numbers in the other order
            out = {"blob": R.string(b"ssh-rsa") + R.mpint(n) + R.mpint(e), "name": "ssh-rsa", "priv": None, "genuine": False, "shares": "the-set-of-numbers"}
    elif kind.startswith("ed-"):
        from cryptography.hazmat.primitives import serialization as S

        raw = priv.public_key().public_bytes(S.Encoding.Raw, S.PublicFormat.Raw)
        if kind == "ed-bit":
            bit = aux % 256
            raw2 = raw[: bit // 8] + bytes([raw[bit // 8] ^ (1 << (bit % 8))]) + raw[bit // 8 + 1 :]
        else:
            sh = 1 + aux % 31
            raw2 = raw[sh:] + raw[:sh]
            if raw2 == raw:
                raw2 = raw[:-1] + bytes([raw[-1] ^ 1])
        out = {"blob": R.string(b"ssh-ed25519") + R.string(raw2), "name": "ssh-ed25519", "priv": None, "genuine": False, "shares": "31-bytes" if kind == "ed-bit" else "the-bytes-rotated"}
    if out is not None:
        out["kind"] = kind
        assert out["blob"] != ref.blob(), "harness: near key is not different"
    _cache[k] = out
    return out


def near_objects(cls_name, nk):
    """[(label, paramiko object)] for a near key; Fail when a GENUINE key is refused, [] when paramiko refuses
    material that merely looks like a key (cached)."""
    k = ("nearobj", nk["blob"])
    if k in _cache:
        return _cache[k]
    import paramiko

    cls = getattr(paramiko, cls_name if not nk["name"].startswith("ecdsa") else "ECDSAKey")
    makers = [("data", lambda: cls(data=nk["blob"])), ("type_string", lambda: paramiko.PKey.from_type_string(nk["name"], nk["blob"]))]
    if nk["priv"] is not None:
        makers.append(("object", (lambda: cls(key=nk["priv"])) if cls is paramiko.RSAKey else (lambda: cls(vals=(nk["priv"], nk["priv"].public_key())))))
    out = []
    for label, mk in makers:
        try:
            out.append((label, mk()))
        except Exception as e:
            if nk["genuine"]:
                raise Fail("public-roundtrip", "%s:near-%s:%s" % (cls_name, label, type(e).__name__), "public bytes of a valid key (%s) do not parse: %r" % (nk["kind"], e))
    _cache[k] = out
    return out


def check_near(ctx, cls_name, k, ref, prov, nk):
    """Converse of clause b: a key that shares only PART of the public material is a different key."""
    objs = near_objects(cls_name, nk)
    if not objs:
        ctx.count("near-refused-by-paramiko:" + nk["kind"])
        return
    same = nk["blob"] == ref.blob()  # False by construction; the reference decides
    for label, o in objs:
        if o.asbytes() != nk["blob"]:
            raise Fail("public-encoding", "%s:near-%s" % (cls_name, label), "asbytes() of the near key (%s) differs from the bytes it was built from" % nk["kind"])
        if (o == k) != same or (k == o) != same or (o != k) == same:
            raise Fail("equality", "%s:near:%s" % (cls_name, nk["kind"]), "keys sharing only %s compare equal (== %r / %r, != %r); public blobs differ; object forms %s vs %s" % (nk["shares"], o == k, k == o, o != k, label, prov))
        if (o in {k: 1}) != same:
            raise Fail("hash", "%s:near:%s" % (cls_name, nk["kind"]), "a different key (shares %s) is found in a dict keyed by the key" % nk["shares"])
        if hash(o) == hash(k):
            ctx.count("near-hash-collision:" + nk["kind"])
    first = objs[0][1]
    for label, o in objs[1:]:
        if not (o == first) or o != first or hash(o) != hash(first):
            raise Fail("equality", "%s:near-forms:%s" % (cls_name, nk["kind"]), "two objects of the same near key (%s vs %s) are unequal or hash differently" % (objs[0][0], label))
    ctx.count("near-compared:" + nk["kind"])


# ----------------------------------------------------------------------------- certificates
# One key pair under SEVERAL different OpenSSH certificates (a renewed certificate: other serial / key id / validity /
# principals / CA / type), each built without paramiko: by cryptography's SSHCertificateBuilder, or by the harness'
# own encoder (PROTOCOL.certkeys layout through the refssh encoders, signature made with `cryptography`).

CERT_SUFFIX = "-cert-v01@openssh.com"
CERT_CAS = ["ed25519", "ed25519b", "ecdsa256", "ecdsa384", "ecdsa521", "rsa1024", "rsa2048"]
CERT_ATTACH = ["string", "file", "message", "from_path"]
cert_spec = st.fixed_dictionaries(
    {
        "enc": st.sampled_from(["builder", "harness"]),
        "serial": st.one_of(st.sampled_from([0, 1, 2, (1 << 64) - 1]), st.integers(0, (1 << 64) - 1)),
        "type": st.sampled_from([1, 1, 2]),
        "key_id": st.sampled_from(["", "verif", "renewed 2026-09", "kéy-id", "x" * 300]),
        "principals": st.lists(st.sampled_from(["alice", "bob", "root", "host.example.org"]), max_size=3, unique=True),
        "after": st.sampled_from([0, 1, 1700000000]),
        "span": st.sampled_from([1, 86400, (1 << 64) - 1]),
        "ca": st.sampled_from(CERT_CAS),
        "nonce": st.sampled_from([0, 16, 32, 64]),
        "ext": st.sampled_from([[], ["permit-pty"], ["permit-X11-forwarding", "permit-pty", "permit-user-rc"]]),
        "attach": st.sampled_from(CERT_ATTACH),
        "pubvia": st.sampled_from(["data", "msg", "type_string"]),
    }
)


def _ca_private(name):
    k = ("ca", name)
    if k not in _cache:
        _cache[k] = KM.spec(name).ref_private()
    return _cache[k]


def _ssh_signature(priv, data):
    """SSH signature blob over ``data`` made with `cryptography` only."""
    from cryptography.hazmat.primitives import hashes
    from cryptography.hazmat.primitives.asymmetric import ec, ed25519, padding, rsa
    from cryptography.hazmat.primitives.asymmetric.utils import decode_dss_signature

    from vlib import refssh as R

    if isinstance(priv, ed25519.Ed25519PrivateKey):
        return R.string(b"ssh-ed25519") + R.string(priv.sign(data))
    if isinstance(priv, rsa.RSAPrivateKey):
        return R.string(b"rsa-sha2-512") + R.string(priv.sign(data, padding.PKCS1v15(), hashes.SHA512()))
    size = priv.curve.key_size
    h = {256: hashes.SHA256, 384: hashes.SHA384, 521: hashes.SHA512}[size]
    r, s_ = decode_dss_signature(priv.sign(data, ec.ECDSA(h())))
    return R.string(b"ecdsa-sha2-nistp%d" % size) + R.string(R.mpint(r) + R.mpint(s_))


def make_cert(blob, spec, idx):
    """(certificate type name, certificate blob, encoder actually used) for the public key ``blob`` (plain SSH public
    key bytes). Never touches paramiko."""
    from vlib import refssh as R

    rd = R.Reader(blob)
    ktype = rd.string()
    fields = blob[4 + len(ktype) :]
    ctype = ktype.decode() + CERT_SUFFIX
    ca = _ca_private(spec["ca"])
    before = min(spec["after"] + spec["span"], (1 << 64) - 1)
    if spec["enc"] == "builder":
        from cryptography.hazmat.primitives.serialization import SSHCertificateBuilder, SSHCertificateType, load_ssh_public_key

        try:
            pub = load_ssh_public_key(ktype + b" " + base64.b64encode(blob))
            b = SSHCertificateBuilder().public_key(pub).serial(spec["serial"]).key_id(spec["key_id"].encode())
            b = b.type(SSHCertificateType.USER if spec["type"] == 1 else SSHCertificateType.HOST)
            b = b.valid_principals([p_.encode() for p_ in spec["principals"]]) if spec["principals"] else b.valid_for_all_principals()
            b = b.valid_after(spec["after"]).valid_before(before)
            for e in sorted(spec["ext"]):
                b = b.add_extension(e.encode(), b"")
            line = b.sign(ca).public_bytes()
            return ctype, base64.b64decode(line.split()[1]), "builder"
        except (ValueError, TypeError):
            pass  # material `cryptography` does not take (near keys that only look like keys): the harness encoder does
    nonce = hashlib.shake_256(b"c36-nonce:%d:" % idx + repr(sorted(spec.items())).encode()).digest(spec["nonce"])
    body = R.string(ctype.encode()) + R.string(nonce) + fields
    body += R.u64(spec["serial"]) + R.u32(spec["type"]) + R.string(spec["key_id"].encode())
    body += R.string(b"".join(R.string(p_.encode()) for p_ in spec["principals"]))
    body += R.u64(spec["after"]) + R.u64(before)
    body += R.string(b"") + R.string(b"".join(R.string(e.encode()) + R.string(b"") for e in sorted(spec["ext"]))) + R.string(b"")
    body += R.string(K.RefPub.from_crypto(ca.public_key()).blob())
    return ctype, body + R.string(_ssh_signature(ca, body)), "harness"


def _cert_line(ctype, cblob, comment="c36 certificate"):
    return "%s %s %s" % (ctype, base64.b64encode(cblob).decode(), comment)


def _attach(ctx, obj, how, ctype, cblob, tag):
    """Give the private object ``obj`` the certificate through one of load_certificate's documented inputs."""
    from paramiko.message import Message

    if how == "message":
        obj.load_certificate(Message(cblob))
    elif how == "file":
        path = os.path.join(K.fast_tmpdir(ctx), "cert-%d-%s-cert.pub" % (ctx.evaluations, tag))
        with open(path, "w") as f:
            f.write(_cert_line(ctype, cblob) + "\n")
        try:
            obj.load_certificate(path)
        finally:
            os.unlink(path)
    else:
        obj.load_certificate(_cert_line(ctype, cblob))
    return obj


def _private_text(keyid, idx):
    """(private key file text, passphrase) of the key, for PKey.from_path; None when there is no cheap one."""
    if isinstance(keyid, str):
        sp = KM.spec(keyid)
        if sp.password:
            return None  # (from_path derives the key inside `cryptography`: bcrypt there cannot be memoised)
        return sp.text, None
    return prov_text(keyid, ["pem-text", "openssh-text"][idx % 2]), None


def private_with_cert(ctx, c, cls_name, keyid, prov, how, ctype, cblob, tag):
    """A new private-key object of ``keyid`` carrying the certificate -> (how it was really made, object)."""
    import paramiko

    if how == "from_path":
        text = _private_text(keyid, len(tag))
        if text is None:
            how = "file"
        else:
            path = os.path.join(K.fast_tmpdir(ctx), "id-%d-%s" % (ctx.evaluations, tag))
            with open(path, "w") as f:
                f.write(text[0])
            with open(path + "-cert.pub", "w") as f:
                f.write(_cert_line(ctype, cblob) + "\n")
            try:
                return how, paramiko.PKey.from_path(path)
            except Exception as e:
                if K.exc_bucket(e).endswith("@outside-paramiko"):
                    raise
                raise Fail("private-load", "%s:from_path+cert:%s" % (cls_name, K.exc_bucket(e)), "PKey.from_path does not load a valid key file with a certificate next to it: %r" % (e,))
            finally:
                os.unlink(path)
                os.unlink(path + "-cert.pub")
    if prov == "file+cert":
        prov = "file"
    try:
        obj = make_obj(keyid, prov)
    except Exception as e:
        if prov == "object" or K.exc_bucket(e).endswith("@outside-paramiko"):
            raise
        raise Fail("private-load", "%s:%s:%s" % (cls_name, prov, K.exc_bucket(e)), "valid key text (%s) does not load: %r" % (prov, e))
    try:
        return how, _attach(ctx, obj, how, ctype, cblob, tag)
    except Exception as e:
        if K.exc_bucket(e).endswith("@outside-paramiko"):
            raise
        raise Fail("certificate-load", "%s:%s:%s" % (cls_name, how, K.exc_bucket(e)), "load_certificate refuses a well-formed certificate of the key's own type (%s): %r" % (ctype, e))


def public_from_cert(cls_name, via, ctype, cblob):
    """Public-only object parsed from the certificate blob -> (how, object) / None when that entry point does not
    know certificate types (nothing is asserted then)."""
    import paramiko
    from paramiko.message import Message

    cls = getattr(paramiko, cls_name)
    try:
        if via == "type_string":
            try:
                return via, paramiko.PKey.from_type_string(ctype, cblob)
            except getattr(paramiko.pkey, "UnknownKeyType", ()):
                via = "data"  # from_type_string does not know certificate type names of this class: nothing asserted
        if via == "msg":
            return via, cls(msg=Message(cblob))
        return via, cls(data=cblob)
    except Exception as e:
        if K.exc_bucket(e).endswith("@outside-paramiko"):
            raise
        raise Fail("public-roundtrip", "%s:certificate-%s:%s" % (cls_name, via, K.exc_bucket(e)), "a well-formed public key / certificate blob (%s) does not parse: %r" % (ctype, e))


def _carries(obj, cblob):
    """Does the object really carry that certificate (observation only; None = cannot tell)?"""
    pb = getattr(obj, "public_blob", None)
    kb = getattr(pb, "key_blob", None)
    return None if kb is None else kb == cblob


def _kind(label):
    return label.split(":", 1)[0]


def check_certificates(ctx, c, cls_name, k, ref):
    """Clause b over certificate-bearing objects: every object of ONE key pair - bare, private, private carrying
    certificate 0 / 1 / 2, public-only parsed from each certificate blob - equals every other and hashes alike (the
    certificate is not public key material); an object of OTHER material is unequal to all of them, also when it
    carries a certificate with the same fields, or this key's very certificate."""
    import paramiko

    cls = getattr(paramiko, cls_name)
    blob = ref.blob()
    certs = []
    for i, cs in enumerate(c["certs"]):
        ctype, cblob, enc = make_cert(blob, cs, i)
        if any(cblob == x[1] for x in certs):
            ctx.count("cert-duplicate-skipped")
            continue
        certs.append((ctype, cblob, enc, cs, i))
    views = [("bare", public_from_cert(cls_name, "data", ref.name, blob)[1], None), ("key:" + c["prov"], k, -1 if c["prov"] == "file+cert" else None)]  # (label, object, index of its certificate; -1 = the bundled one)
    provs = [p_ for p_ in provs_for(c["key"]) if p_ != "file+cert"]
    for ctype, cblob, enc, cs, i in certs:
        prov = c["prov"] if i == 0 else provs[(i + cs["serial"]) % len(provs)]
        how, kp = private_with_cert(ctx, c, cls_name, c["key"], prov, cs["attach"], ctype, cblob, "k%d" % i)
        views.append(("priv+cert:%d:%s:%s" % (i, enc, how), kp, i))
        ctx.count("cert-attached:" + how)
        ctx.count("cert-built-by:" + enc)
        got = public_from_cert(cls_name, cs["pubvia"], ctype, cblob)
        views.append(("pub(cert):%d:%s:%s" % (i, enc, got[0]), got[1], i))
        for label, v, _ in views[-2:]:
            carries = _carries(v, cblob)
            if carries is False:
                raise Fail("certificate-load", "%s:%s:other-certificate" % (cls_name, _kind(label)), "%s carries another certificate than the one it was given" % label)
            ctx.count("cert-view-carries-its-certificate" if carries else "cert-view-certificate-not-observable")
            if v.asbytes() != blob or v.get_name() != ref.name:
                raise Fail("public-encoding", "%s:%s" % (cls_name, _kind(label)), "asbytes() / get_name() of a certificate-bearing key are not those of the key (%s)" % label)
        check_signs(cls_name, kp, ref, "priv+cert:" + how)
        if got[1].can_sign():
            raise Fail("public-roundtrip", "%s:certificate-%s:can-sign" % (cls_name, got[0]), "public-only object parsed from a certificate claims it can sign")
    ncert = len(certs)
    for i, (la, a, ca) in enumerate(views):
        for lb, b, cb in views[i + 1 :]:
            which = "%s-vs-%s" % (_kind(la), _kind(lb))
            if ca is not None and cb is not None:
                which += ":same-certificate" if ca == cb else ":different-certificates"
            try:
                eq = (a == b, b == a, a != b, b != a, hash(a), hash(b))
            except Exception as e:
                if K.exc_bucket(e).endswith("@outside-paramiko"):
                    raise
                raise Fail("equality", "%s:certs:%s:%s" % (cls_name, which, K.exc_bucket(e)), "comparing / hashing two objects of one key pair raises: %s vs %s: %r" % (la, lb, e))
            if eq[:4] != (True, True, False, False):
                raise Fail("equality", "%s:certs:%s" % (cls_name, which), "two objects of ONE key pair compare unequal: %s vs %s (== %r / %r, != %r); same public key bytes" % (la, lb, a == b, b == a, a != b))
            if hash(a) != hash(b):
                raise Fail("hash", "%s:certs:%s" % (cls_name, which), "two objects of ONE key pair hash differently: %s vs %s" % (la, lb))
    objs = [v for _, v, _ in views]
    if len(set(objs)) != 1 or len({v: 1 for v in reversed(objs)}) != 1:
        raise Fail("hash", "%s:certs:set-of-views" % cls_name, "the %d objects of one key pair fill %d set slots" % (len(objs), len(set(objs))))
    for la, a, _ in views:
        if a not in objs[-1:] or objs[-1] not in {a: 1}:
            raise Fail("equality", "%s:certs:lookup:%s" % (cls_name, _kind(la)), "%s is not found in a list / dict holding %s" % (views[-1][0], la))
    ctx.count("cert-views-compared:%d-certificates" % ncert)
    if ncert >= 2:
        ctx.count("one-key-under-different-certificates")
    # converse: other material stays another key, whatever certificate it carries
    if not certs:
        return
    ctype, cblob, enc, cs, _ = certs[0]
    nk = near_key(c["key"], c["near"][0], c["near"][1]) if "near" in c else None
    others = []  # (label, plain blob, private maker or None)
    if nk is not None:
        others.append(("near:" + nk["kind"], nk["blob"], None))
    oref = ref_public(c["other"])
    if not oref.same(ref):
        others.append(("other", oref.blob(), (lambda: make_obj(c["other"], c["oprov"] if c["oprov"] != "file+cert" else "file"))))
    for label, oblob, mk in others:
        ocls = key_class(c["other"]) if label == "other" else (cls_name if not nk["name"].startswith("ecdsa") else "ECDSAKey")
        foreign = []
        t2, cb2, _ = make_cert(oblob, dict(cs, enc="harness"), 0)  # the same certificate fields over the other material
        try:
            foreign.append(("pub(cert-of-%s)" % label, public_from_cert(ocls, "data", t2, cb2)[1]))
        except Fail:
            if label == "other" or nk["genuine"]:
                raise
            ctx.count("near-certificate-refused-by-paramiko:" + nk["kind"])
        if mk is not None and t2 == ctype:
            # another private key given THIS key's certificate (load_certificate only looks at the type name)
            try:
                foreign.append(("%s-priv+this-key's-cert" % label, _attach(ctx, mk(), "message", ctype, cblob, "o")))
            except ValueError:
                ctx.count("foreign-certificate-refused")
        for lf, fo in foreign:
            if fo.asbytes() != oblob:
                raise Fail("public-encoding", "%s:foreign-cert:%s" % (ocls, lf.split(":")[0]), "asbytes() of %s is not the public key it was built from" % lf)
            for la, a, _ in views:
                if (a == fo) or (fo == a) or not (a != fo) or (fo in {a: 1}) or (fo in [a]):
                    raise Fail("equality", "%s:certs:different-material:%s-vs-%s" % (cls_name, _kind(la), lf.split(":")[0]), "objects of different public key material compare equal: %s vs %s" % (la, lf))
            ctx.count("cert-converse-compared:" + lf.split(":")[0].split("(")[0])


# ----------------------------------------------------------------------------- oracle


class Fail(Exception):
    def __init__(self, clause, bucket, detail):
        Exception.__init__(self, clause)
        self.clause, self.bucket, self.detail = clause, bucket, detail


def _fp_sha256(blob):
    return "SHA256:" + base64.b64encode(hashlib.sha256(blob).digest()).decode().rstrip("=")


def check_public(cls_name, k, ref, where):
    """Clause a/b for one object ``k`` whose material is ``ref``."""
    import paramiko
    from paramiko.message import Message

    cls = getattr(paramiko, cls_name)
    blob = ref.blob()
    got = k.asbytes()
    if got != blob:
        raise Fail("public-encoding", "%s:%s" % (cls_name, where), "asbytes() differs from the independent encoding: %s vs %s" % (got.hex()[:80], blob.hex()[:80]))
    if bytes(k) != blob:
        raise Fail("public-encoding", "%s:%s:bytes" % (cls_name, where), "bytes(key) != asbytes()")
    if k.get_name() != ref.name or k.get_bits() != ref.bits:
        raise Fail("public-attributes", "%s:%s" % (cls_name, where), "name/bits %r/%r expected %r/%r" % (k.get_name(), k.get_bits(), ref.name, ref.bits))
    if k.get_fingerprint() != hashlib.md5(blob).digest() or k.fingerprint != _fp_sha256(blob) or k.get_base64() != base64.b64encode(blob).decode():
        raise Fail("fingerprint", "%s:%s" % (cls_name, where), "fingerprint/base64 differ from hashlib/base64 over the reference blob")
    twins = {
        "data": lambda: cls(data=got),
        "msg": lambda: cls(msg=Message(got)),
        "type_string": lambda: paramiko.PKey.from_type_string(ref.name, got),
    }
    for how, mk in sorted(twins.items()):
        try:
            t = mk()
        except Exception as e:
            raise Fail("public-roundtrip", "%s:%s:%s" % (cls_name, how, type(e).__name__), "public bytes do not parse back: %r" % (e,))
        if not (t == k and k == t) or (t != k):
            raise Fail("equality", "%s:%s-vs-%s" % (cls_name, how, where), "object rebuilt from public bytes is not equal to the key")
        if hash(t) != hash(k):
            raise Fail("hash", "%s:%s-vs-%s" % (cls_name, how, where), "equal keys hash differently")
        if t.can_sign():
            raise Fail("public-roundtrip", "%s:%s:can-sign" % (cls_name, how), "public-only object claims it can sign")
        if t.asbytes() != blob or t.fingerprint != k.fingerprint:
            raise Fail("public-roundtrip", "%s:%s:bytes" % (cls_name, how), "re-encoded public bytes differ")


def check_signs(cls_name, k, ref, where):
    if not k.can_sign():
        raise Fail("signing-capable", "%s:%s" % (cls_name, where), "can_sign() is False for a key loaded from private material")
    sig = k.sign_ssh_data(b"c36 probe").asbytes()
    ok, why = ref.verify(b"c36 probe", sig)
    if not ok:
        raise Fail("signing-capable", "%s:%s:bad-signature" % (cls_name, where), "signature does not verify under the original public key: " + why)


def expect_refused(cls_name, loader, password, where):
    """Loading must raise; returns the exception class name."""
    from paramiko.ssh_exception import PasswordRequiredException

    try:
        key = loader(password)
    except PasswordRequiredException:
        return "PasswordRequiredException"
    except Exception as e:
        if password is None:
            raise Fail("passphrase", "%s:%s:none-raises-%s" % (cls_name, where, type(e).__name__), "loading a protected key without passphrase raised %r, not PasswordRequiredException" % (e,))
        return type(e).__name__
    raise Fail("passphrase", "%s:%s:loaded-with-%s" % (cls_name, where, "none" if password is None else "wrong"), "protected key loaded with passphrase %r -> %r" % (password, key))


def obtain(keyid, prov):
    """get_obj; for key text that is valid (constructed: written by `cryptography` / the independent PEM writer;
    bundled: loaded by the reference without paramiko) a loader exception is a violation of the load-back clause,
    not a harness error."""
    try:
        return get_obj(keyid, prov)
    except Exception as e:
        if prov == "object" or K.exc_bucket(e).endswith("@outside-paramiko"):
            raise  # not raised inside a key loader of the tree under test: a harness problem
        # bundled files are valid too (the reference loads each of them without paramiko, see ref_private)
        raise Fail("private-load", "%s:%s:%s" % (key_class(keyid), prov, K.exc_bucket(e)), "valid key text (%s) does not load: %r" % (prov, e))


def execute(ctx, c):
    import paramiko

    cls_name = key_class(c["key"])
    cls = getattr(paramiko, cls_name)
    ref = ref_public(c["key"])
    sp = KM.spec(c["key"]) if isinstance(c["key"], str) else None
    writes = cls_name != "Ed25519Key"
    protected = bool(c["pass"]) if writes else bool(sp and sp.password)
    nontrivial = protected or c["prov"] == "file+cert" or bool(c.get("certs")) or c["prov"] in ENC_PROVS or (writes and c["umask"] != 0o077)
    classes = ["cls:" + cls_name, "prov:" + c["prov"], "umask:%o" % c["umask"], "pre:%s" % ("new" if c["pre"] is None else "%o" % c["pre"])]
    classes += material_classes(c["key"])
    if "near" in c:
        classes.append("near:" + c["near"][0])
    if "history" in c:
        classes += history_classes(c)
    if c.get("certs"):
        classes.append("certs:%d-different-certificates-for-the-key" % len(c["certs"]))
        classes += sorted(set(["cert-encoder:" + cs["enc"] for cs in c["certs"]] + ["cert-attach:" + cs["attach"] for cs in c["certs"]] + ["cert-ca:" + KM.spec(cs["ca"]).cls for cs in c["certs"]]))
        if len(set(cs["enc"] for cs in c["certs"])) > 1:
            classes.append("certs:both-encoders-in-one-case")
    if writes:
        classes += pass_classes(c["pass"])
        if c["pass"] and c["wrong"] in ("canonical", "compatible") and wrong_pass(c["pass"], c["wrong"]) != wrong_pass(c["pass"], "suffix"):
            classes.append("wrong:%s-equivalent-of-the-right-one" % c["wrong"])
    if writes and c["pass"]:
        classes.append("written-protected:" + [x for x in classes if x.startswith(cls_name + "-der:")][0])
    ctx.case(c, nontrivial, classes)
    try:
        k = obtain(c["key"], c["prov"])
        # a / b
        check_public(cls_name, k, ref, c["prov"])
        check_signs(cls_name, k, ref, c["prov"])
        for p2 in provs_for(c["key"]):
            k2 = obtain(c["key"], p2)
            if not (k2 == k) or k2 != k or hash(k2) != hash(k):
                raise Fail("equality", "%s:%s-vs-%s" % (cls_name, p2, c["prov"]), "two objects of one key are unequal or hash differently")
        if isinstance(c["key"], str) and c["key"] in CERTS:
            from paramiko.pkey import PublicBlob

            ck = cls(data=PublicBlob.from_file("/repo/tests/_support/" + CERTS[c["key"]]).key_blob)
            if not (ck == k) or hash(ck) != hash(k):
                raise Fail("equality", "%s:certdata-vs-%s" % (cls_name, c["prov"]), "object built from the certificate blob is unequal to the key / hashes differently")
            ctx.count("cert-compared")
        o = obtain(c["other"], c["oprov"])
        same = ref_public(c["other"]).same(ref)
        if (o == k) != same or (k == o) != same or (o != k) == same:
            raise Fail("equality", "%s-vs-%s:%s" % (cls_name, key_class(c["other"]), "same-material" if same else "different-material"), "== says %r, reference says same material = %r" % (o == k, same))
        if same and hash(o) != hash(k):
            raise Fail("hash", "%s:same-material" % cls_name, "equal keys (different files) hash differently")
        ctx.count("other:" + ("same" if same else "different"))
        # b over certificate-bearing objects: one key pair under several different certificates
        if c.get("certs"):
            check_certificates(ctx, c, cls_name, k, ref)
        # b, converse: keys that share part of the public material are different keys
        if "near" in c:
            nk = near_key(c["key"], c["near"][0], c["near"][1])
            if nk is not None:
                check_near(ctx, cls_name, k, ref, c["prov"], nk)

        # d: bundled protected files
        if sp and sp.password:
            wp = wrong_pass(sp.password, c["wrong"])
            if c["wrong_bytes"] and wp is not None:
                wp = wp.encode()
            ld = (lambda pw: cls.from_private_key_file(sp.path, pw)) if c["write_via"] == "file" else (lambda pw: cls.from_private_key(io.StringIO(sp.text), pw))
            ctx.count("bundled-refused:" + expect_refused(cls_name, ld, wp, "bundled-" + sp.fmt))
            try:
                ld(sp.password.encode() if c["right_bytes"] else sp.password)
            except Exception as e:
                raise Fail("private-load", "%s:bundled-%s:%s" % (cls_name, sp.fmt, K.exc_bucket(e)), "bundled protected key file does not load with its passphrase: %r" % (e,))

        # d': constructed protected files (independent traditional-PEM writer, every supported cipher)
        if c["prov"] in ENC_PROVS:
            text = prov_text(c["key"], c["prov"])
            wp = wrong_pass(ENC_PROV_PASS, c["wrong"])
            if c["wrong_bytes"] and wp is not None:
                wp = wp.encode()
            ld = lambda pw: cls.from_private_key(io.StringIO(text), pw)  # noqa: E731
            ctx.count("constructed-refused:" + expect_refused(cls_name, ld, wp, c["prov"]))
            back = ld(ENC_PROV_PASS.encode() if c["right_bytes"] else ENC_PROV_PASS)
            if not (back == k) or hash(back) != hash(k):
                raise Fail("private-roundtrip", "%s:%s:unequal" % (cls_name, c["prov"]), "protected text loads as a different key")

        # c / e: writers
        if writes:
            write_and_reload(ctx, c, cls_name, cls, k, ref)
        # c/d on a history: several key files on one path, each loaded back at once
        if "history" in c:
            history_on_one_path(ctx, c, cls_name, k, ref)
    except Fail as f:
        if "%s|%s" % (f.clause, f.bucket) in ctx.unknown:
            # this root cause has its (shrunk) replay already: do not shrink it once more in every later sweep
            ctx.count("violation-repeated")
            return
        ctx.violation(f.clause, f.bucket, c, f.detail)


def write_and_reload(ctx, c, cls_name, cls, k, ref):
    pw = c["pass"]
    d = K.fast_tmpdir(ctx)
    path = os.path.join(d, "key-%d" % ctx.evaluations)
    if os.path.exists(path):
        os.unlink(path)
    content = None
    if c["write_via"] == "file":
        if c["pre"] is not None:
            with open(path, "w") as f:
                f.write("OLD CONTENT\n" * 1000)
            os.chmod(path, c["pre"])
        old = os.umask(c["umask"])
        try:
            try:
                k.write_private_key_file(path, password=pw)
            except ValueError as e:
                if pw == "":
                    ctx.count("write-refused-empty-passphrase")
                    return
                raise Fail("write", "%s:%s" % (cls_name, type(e).__name__), "write_private_key_file raised %r" % (e,))
        finally:
            os.umask(old)
        mode = stat.S_IMODE(os.stat(path).st_mode)
        if c["pre"] is None:
            if mode & 0o077 or (mode & 0o600) != 0o600:
                raise Fail("new-file-mode", "%s:umask-%o" % (cls_name, c["umask"]), "newly created key file has mode %o" % mode)
            ctx.count("new-file-mode-checked")
        with open(path) as f:
            content = f.read()
        if "OLD CONTENT" in content:
            raise Fail("replace", cls_name, "pre-existing file was not fully replaced")
    else:
        f = io.StringIO()
        try:
            k.write_private_key(f, password=pw)
        except ValueError as e:
            if pw == "":
                ctx.count("write-refused-empty-passphrase")
                return
            raise Fail("write", "%s:%s" % (cls_name, type(e).__name__), "write_private_key raised %r" % (e,))
        content = f.getvalue()
        with open(path, "w") as f2:
            f2.write(content)
    loaders = {
        "file": lambda p: cls.from_private_key_file(path, p),
        "fileobj": lambda p: cls.from_private_key(io.StringIO(content), p),
    }
    for how, ld in sorted(loaders.items()):
        right = pw.encode() if (pw and c["right_bytes"]) else pw
        try:
            back = ld(right)
        except Exception as e:
            raise Fail("private-roundtrip", "%s:%s:%s" % (cls_name, how, type(e).__name__), "written key does not load back with its passphrase %r: %r" % (pw, e))
        if not (back == k) or hash(back) != hash(k):
            raise Fail("private-roundtrip", "%s:%s:unequal" % (cls_name, how), "written key loads back as a different key")
        check_signs(cls_name, back, ref, "reloaded-" + how)
        check_public(cls_name, back, ref, "reloaded-" + how)
        if pw:
            ctx.count("refused:" + expect_refused(cls_name, ld, None, "written"))
            wp = wrong_pass(pw, c["wrong"])
            if wp is not None:
                if c["wrong_bytes"]:
                    wp = wp.encode()
                ctx.count("refused:" + expect_refused(cls_name, ld, wp, "written"))
        else:
            # an unprotected file loads with any passphrase argument as well (nothing to decrypt)
            pass
    os.unlink(path)


_kdf_memo = {}
_real_kdf = None


def _memoise_bcrypt_kdf():
    """bcrypt.kdf is a pure function that costs ~120 ms per call at the 16 rounds of the bundled OpenSSH-format
    files; histories load such a file several times. The harness memoises it (same arguments -> same bytes)."""
    global _real_kdf
    import bcrypt

    if _real_kdf is not None:
        return
    _real_kdf = bcrypt.kdf

    def kdf(password, salt, desired_key_bytes, rounds, ignore_few_rounds=False):
        try:
            key = (bytes(password), bytes(salt), desired_key_bytes, rounds, ignore_few_rounds)
        except TypeError:
            return _real_kdf(password, salt, desired_key_bytes, rounds, ignore_few_rounds)
        if key not in _kdf_memo:
            if len(_kdf_memo) > 2000:
                _kdf_memo.clear()
            _kdf_memo[key] = _real_kdf(password, salt, desired_key_bytes, rounds, ignore_few_rounds)
        return _kdf_memo[key]

    bcrypt.kdf = kdf


def _hist_material(c, who, cls_name, k, ref):
    """(class name, private paramiko object, reference public key, KeySpec or None, who) of one history step."""
    if who == "near":
        nk = near_key(c["key"], c["near"][0], c["near"][1])
        if nk is not None and nk["priv"] is not None:
            return cls_name, dict(near_objects(cls_name, nk))["object"], K.RefPub.from_crypto(nk["priv"].public_key()), None, "near"
        who = "other"
    if who == "other":
        return key_class(c["other"]), obtain(c["other"], c["oprov"]), ref_public(c["other"]), (KM.spec(c["other"]) if isinstance(c["other"], str) else None), "other"
    return cls_name, k, ref, (KM.spec(c["key"]) if isinstance(c["key"], str) else None), "key"


def history_classes(c):
    out = ["hist:steps-%d" % len(c["history"])]
    prev = None
    for who, pw, writer in c["history"]:
        cur = (who, "protected" if pw else "plain")
        out.append("hist:writer:" + writer)
        if prev is not None:
            out.append("hist:overwrite:%s->%s:%s->%s" % (prev[0], cur[0], prev[1], cur[1]))
        prev = cur
    return sorted(set(out))


def history_on_one_path(ctx, c, cls_name, k, ref):
    """A HISTORY of key files on ONE path: every step writes a key file (paramiko's file writer, or the text of
    paramiko's stream writer / a bundled Ed25519 file put there by the harness, in place or by rename) over what
    the previous step left, and loads it back at once. Oracle per load, unchanged: the file just written loads as
    THAT key (equal, same public bytes, signing-capable); protected: refused without / with a wrong passphrase."""
    import paramiko

    _memoise_bcrypt_kdf()
    path = os.path.join(K.fast_tmpdir(ctx), "hist-%d" % ctx.evaluations)
    for p in (path, path + ".tmp"):
        if os.path.exists(p):
            os.unlink(p)
    aux = c["near"][1]
    prev = None
    for i, (who, pw, writer) in enumerate(c["history"]):
        mcls, obj, mref, msp, who = _hist_material(c, who, cls_name, k, ref)
        cls = getattr(paramiko, mcls)
        text = None
        if mcls == "Ed25519Key":  # no writer in paramiko: the bundled file itself
            text, pw = msp.text, msp.password
            writer = "external-truncate" if writer == "paramiko" else writer
        elif writer != "paramiko":
            f = io.StringIO()
            obj.write_private_key(f, password=pw)
            text = f.getvalue()
        existed = os.path.exists(path)
        if writer == "paramiko":
            obj.write_private_key_file(path, password=pw)
            mode = stat.S_IMODE(os.stat(path).st_mode)
            if not existed and (mode & 0o077 or (mode & 0o600) != 0o600):
                raise Fail("new-file-mode", "%s:history" % mcls, "newly created key file has mode %o" % mode)
        elif writer == "external-truncate":
            with open(path, "w") as f:
                f.write(text)
        else:
            with open(path + ".tmp", "w") as f:
                f.write(text)
            os.replace(path + ".tmp", path)
        cur = (mref.blob(), pw)
        if prev is None:
            stage = "first-write"
        elif prev[0] != cur[0]:
            stage = "after-overwrite-with-another-key"
        elif prev[1] != cur[1]:
            stage = "after-overwrite-with-another-passphrase"
        else:
            stage = "after-rewrite"
        ctx.count("history-step:%s:%s" % (stage, writer))
        prev = cur
        loaders = [("file", lambda p_: cls.from_private_key_file(path, p_)), ("ctor", lambda p_: cls(filename=path, password=p_))]
        how, ld = loaders[(i + aux) % 2]
        try:
            back = ld(pw)
        except Exception as e:
            raise Fail("private-roundtrip", "%s:history:%s:%s" % (mcls, stage, type(e).__name__), "step %d (%s): the key file just written (%s, passphrase %r) does not load: %r" % (i, stage, writer, pw, e))
        if back.asbytes() != mref.blob() or not (back == obj) or hash(back) != hash(obj):
            raise Fail("private-roundtrip", "%s:history:%s:unequal" % (mcls, stage), "step %d (%s): loading the file just written (%s) gave another key than the one written" % (i, stage, writer))
        check_signs(mcls, back, mref, "history-" + how)
        if pw:
            how2, ld2 = loaders[(i + aux + 1) % 2]
            ctx.count("history-refused:" + expect_refused(mcls, ld2, None, "history:" + stage))
            wp = wrong_pass(pw, c["wrong"])
            if wp is not None:
                ctx.count("history-refused:" + expect_refused(mcls, ld, wp.encode() if c["wrong_bytes"] else wp, "history:" + stage))
        if (i + aux) % 3 == 0 and not (mcls == "Ed25519Key" and pw):  # (bcrypt inside `cryptography` cannot be memoised)
            try:
                back = paramiko.PKey.from_path(path, pw.encode() if pw else None)
            except Exception as e:
                raise Fail("private-roundtrip", "%s:history:%s:from_path:%s" % (mcls, stage, type(e).__name__), "step %d: PKey.from_path does not load the file just written: %r" % (i, e))
            if back.asbytes() != mref.blob() or not (back == obj):
                raise Fail("private-roundtrip", "%s:history:%s:from_path:unequal" % (mcls, stage), "step %d: PKey.from_path gave another key than the one written" % i)
            ctx.count("history-from_path")
    os.unlink(path)


def run(ctx):
    ctx.set_budget(55, 700)
    fresh_rsa_pool(ctx)
    if ctx.tier == "thorough":
        import paramiko
        from cryptography.hazmat.primitives import serialization as S

        bits = [1024, 2048, 3072, 4096][ctx.worker % 4]
        k = paramiko.RSAKey.generate(bits)
        text = k.key.private_bytes(S.Encoding.PEM, S.PrivateFormat.TraditionalOpenSSL, S.NoEncryption()).decode()
        _extra_keys.append(["rsapem", text])
        ctx.count("generated-rsa-%d" % bits)
    ctx.assume("write_private_key* with an empty passphrase may refuse (ValueError from the serializer); nothing is asserted about that call")
    ctx.assume("process umask is changed only around the write call (single-threaded) and restored")
    ctx.assume("bcrypt.kdf is memoised by the harness (pure function; same arguments give the same bytes)")
    # 1. sweep: the finite set of constructed keys is enumerated completely in every run (every special scalar of
    #    every curve, every generated RSA key); the other dimensions of each case are drawn
    constructed = [["ec", curve, d] for curve in sorted(KM.EC_SHORT_COORD_SCALARS) for d in KM.ec_special_scalars(curve)] + list(_extra_keys)
    if ctx.tier == "thorough":
        constructed = constructed[ctx.worker :: ctx.nworkers] if ctx.nworkers > 1 else constructed
    for i, key in enumerate(constructed):
        ctx.explore(cases(fixed_key=key), lambda c: execute(ctx, c), 3, seed_offset=1000 + i)
    ctx.count("constructed-keys-swept", len(constructed))
    # 2. free exploration
    ctx.explore(cases(), lambda c: execute(ctx, c), ctx.scale(300, 2500))


def replay(ctx, case):
    execute(ctx, case)
