"""C36 - keys survive serialisation; equality/hash on public material; passphrases; new files are private.

One case = (key material, how the object was obtained, passphrase used for writing, a wrong
passphrase, entry points for writing/loading, state of the target path, process umask, another key).
Key material is bundled files plus CONSTRUCTED keys with structurally special encodings: ECDSA private scalars
whose public point has a coordinate with 1-2 leading zero bytes (vlib.keymat.ec_special_scalars, every curve; also
the smallest and largest scalars), random scalars, and 1024-1216 bit RSA keys generated at the start of every run
and selected so that the DER body length is / is not a multiple of the 16 and 8 byte cipher blocks (the body of a
passphrase-protected file then ends in a full / partial padding block). Constructed keys are obtained as
`cryptography` object, from PEM and OpenSSH-format text written by `cryptography`, and from traditional
encrypted PEM text written by the independent vlib.keymat.legacy_pem_encrypt under each cipher paramiko reads.
Oracle (every clause of the statement):
 a. public round trip: Class(data=k.asbytes()), Class(msg=...), PKey.from_type_string(...) are equal to k and
    hash-equal; asbytes / name / bits / fingerprints / base64 equal the independent encoding
    (vlib.keys.RefPub built from the `cryptography` key, hashlib, base64);
 b. equality and hashing depend only on the public material: private, public-only and certificate-bearing
    objects of one key are equal and hash-equal; objects of different material are unequal (the reference
    decides what "same material" is);
 c. RSA/ECDSA: write_private_key_file / write_private_key output loads back (file name and file object entry
    points) as an equal key that can sign, and the signature verifies under the ORIGINAL public key with the
    independent verifier; written with a passphrase: loading without one raises PasswordRequiredException,
    with a wrong one raises and never returns a key;
 d. the same passphrase clauses for the bundled passphrase-protected files of all three types;
 e. a newly created key file has no group/other permission bits and is owner read+write, under umask 0, 0o022
    and 0o077 (umask restored afterwards); a pre-existing longer file is fully replaced.
"""
import base64
import hashlib
import io
import os
import stat

from hypothesis import strategies as st

from vlib import core
from vlib import keymat as KM
from vlib import keys as K

PROPERTY = "C36"
LEVEL = "exploration"
RULE = (
    "hypothesis draws key material (27 bundled private key files of RSA 1024/2048, ECDSA P-256/384/521 and Ed25519, "
    "plain and passphrase-protected, PEM and OpenSSH container; ECDSA scalars: random, and constructed ones whose public "
    "x or y has 1-2 leading zero bytes / smallest / largest, every curve; RSA 1024-1216 generated in every run and selected "
    "by DER length mod 16 and mod 8 (full vs partial final padding block); in thorough also RSAKey.generate 1024-4096), "
    "object provenance (file, file object, cryptography object, +certificate; constructed keys: PEM text, OpenSSH-format "
    "text, traditional encrypted PEM under AES-128-CBC/AES-256-CBC/DES-EDE3-CBC from an independent writer), a writing passphrase "
    "(none, ascii, unicode incl. astral, long, whitespace, empty), a wrong passphrase (none, empty, prefix, case-changed, "
    "other, bytes form), target path new or pre-existing (0644/0600/0666, longer content), umask 0/0o022/0o077 and a "
    "second key for the inequality clause; non-trivial = passphrase-protected (written or obtained from encrypted text) or "
    "certificate-bearing or umask != 0o077; "
    "distinct by SHA-1 of the case"
)
CERTS = {"t:rsa": "rsa.key-cert.pub", "t:ed25519": "ed25519.key-cert.pub", "t:ecdsa-256": "ecdsa-256.key-cert.pub"}

_cache = {}


def _kid(keyid):
    return core.to_json(keyid)


def key_class(keyid):
    if isinstance(keyid, str):
        return K.spec(keyid).cls
    return {"ec": "ECDSAKey", "rsapem": "RSAKey"}[keyid[0]]


def ref_private(keyid):
    k = ("ref", _kid(keyid))
    if k not in _cache:
        if isinstance(keyid, str):
            _cache[k] = K.spec(keyid).ref_private()
        elif keyid[0] == "ec":
            from cryptography.hazmat.primitives.asymmetric import ec

            curve = {"nistp256": ec.SECP256R1, "nistp384": ec.SECP384R1, "nistp521": ec.SECP521R1}[keyid[1]]
            _cache[k] = ec.derive_private_key(int(keyid[2]), curve())
        else:
            from cryptography.hazmat.primitives import serialization

            _cache[k] = serialization.load_pem_private_key(keyid[1].encode(), password=None)
    return _cache[k]


def ref_public(keyid):
    return K.RefPub.from_crypto(ref_private(keyid).public_key())


ENC_PROV_PASS = "prov pass\u00e9"  # passphrase of the encrypted text provenances
ENC_PROVS = ["pem-enc:" + c for c in sorted(KM.LEGACY_PEM_CIPHERS)]


def provs_for(keyid):
    out = []
    if isinstance(keyid, str):
        out += ["file", "fileobj"]
        if keyid in CERTS:
            out += ["file+cert"]
    else:
        out += ["pem-text", "openssh-text"] + ENC_PROVS
    if key_class(keyid) != "Ed25519Key":
        out.append("object")
    return out


def der_body(keyid):
    """Traditional (PKCS#1 / SEC1) DER body of the private key: what a PEM writer encrypts."""
    k = ("der", _kid(keyid))
    if k not in _cache:
        from cryptography.hazmat.primitives import serialization as S

        _cache[k] = ref_private(keyid).private_bytes(S.Encoding.DER, S.PrivateFormat.TraditionalOpenSSL, S.NoEncryption())
    return _cache[k]


def prov_text(keyid, prov):
    """Private key file text of a constructed key, written without paramiko."""
    from cryptography.hazmat.primitives import serialization as S

    priv = ref_private(keyid)
    if prov == "pem-text":
        if keyid[0] == "rsapem":
            return keyid[1]
        return priv.private_bytes(S.Encoding.PEM, S.PrivateFormat.TraditionalOpenSSL, S.NoEncryption()).decode()
    if prov == "openssh-text":
        return priv.private_bytes(S.Encoding.PEM, S.PrivateFormat.OpenSSH, S.NoEncryption()).decode()
    cipher = prov.split(":", 1)[1]
    der = der_body(keyid)
    iv = hashlib.sha256(der + cipher.encode()).digest()[: KM.LEGACY_PEM_CIPHERS[cipher][1]]  # deterministic
    return KM.legacy_pem_encrypt(der, "RSA" if key_class(keyid) == "RSAKey" else "EC", cipher, ENC_PROV_PASS, iv)


def get_obj(keyid, prov):
    k = (_kid(keyid), prov)
    if k in _cache:
        return _cache[k]
    import paramiko

    cls = getattr(paramiko, key_class(keyid))
    sp = K.spec(keyid) if isinstance(keyid, str) else None
    if prov == "file":
        obj = cls.from_private_key_file(sp.path, sp.password)
    elif prov == "fileobj":
        obj = cls.from_private_key(io.StringIO(sp.text), sp.password)
    elif prov == "file+cert":
        obj = cls.from_private_key_file(sp.path, sp.password)
        obj.load_certificate("/repo/tests/_support/" + CERTS[keyid])
    elif prov == "object":
        priv = ref_private(keyid)
        obj = cls(key=priv) if cls is paramiko.RSAKey else cls(vals=(priv, priv.public_key()))
    elif prov in ("pem-text", "openssh-text"):
        obj = cls.from_private_key(io.StringIO(prov_text(keyid, prov)), None)
    elif prov in ENC_PROVS:
        obj = cls.from_private_key(io.StringIO(prov_text(keyid, prov)), ENC_PROV_PASS)
    else:
        raise AssertionError(prov)
    _cache[k] = obj
    return obj


# ----------------------------------------------------------------------------- strategies


def _by_class():
    out = {}
    for s in K.specs():
        out.setdefault(s.cls, []).append(s.name)
    return out


_extra_keys = []  # RSA keys generated in this run: ["rsapem", text] (see fresh_rsa_pool; thorough adds RSAKey.generate)


def fresh_rsa_pool(ctx):
    """Small RSA keys generated now (every run, both tiers) and SELECTED by the length of their DER body modulo
    the cipher block sizes: at least one whose body is a whole number of 16-byte blocks (its encrypted form ends
    in a full padding block), one that is a multiple of 8 only, one that is neither. Modulus sizes cycle so the
    lengths really vary (a 1024-bit key is 607-611 bytes)."""
    from cryptography.hazmat.primitives import serialization as S
    from cryptography.hazmat.primitives.asymmetric import rsa

    have = {}
    sizes = [1024, 1024, 1024, 1088, 1152, 1216]
    for i in range(60):
        priv = rsa.generate_private_key(65537, sizes[i % len(sizes)])
        der = priv.private_bytes(S.Encoding.DER, S.PrivateFormat.TraditionalOpenSSL, S.NoEncryption())
        shape = "mod16=0" if len(der) % 16 == 0 else ("mod8=0" if len(der) % 8 == 0 else "partial")
        if len(have.setdefault(shape, [])) < 2:
            text = priv.private_bytes(S.Encoding.PEM, S.PrivateFormat.TraditionalOpenSSL, S.NoEncryption()).decode()
            have[shape].append(["rsapem", text])
        if len(have) == 3 and all(len(v) == 2 for v in have.values()):
            break
    for shape in sorted(have):
        _extra_keys.extend(have[shape])
        ctx.count("generated-rsa-der-%s" % shape, len(have[shape]))
    if "mod16=0" not in have or "partial" not in have:
        ctx.inconc("fresh-rsa-pool-lacks-a-der-length-class")


@st.composite
def keyids(draw):
    by = _by_class()
    cls = draw(st.sampled_from(["RSAKey", "ECDSAKey", "Ed25519Key"]))
    kind = draw(st.integers(0, 5))
    if cls == "ECDSAKey" and kind == 0:
        curve = draw(st.sampled_from(["nistp256", "nistp384", "nistp521"]))
        return ["ec", curve, draw(st.integers(1, K.curve_order(curve) - 1))]
    if cls == "ECDSAKey" and kind in (1, 2):
        curve = draw(st.sampled_from(["nistp256", "nistp384", "nistp521"]))
        return ["ec", curve, draw(st.sampled_from(KM.ec_special_scalars(curve)))]
    if cls == "RSAKey" and kind in (0, 1, 2) and _extra_keys:
        return draw(st.sampled_from(_extra_keys))
    return draw(st.sampled_from(by[cls]))


def material_classes(keyid):
    """Evidence classes describing the structure of the key material (computed from the reference key)."""
    if isinstance(keyid, str):
        out = ["key:bundled"]
    elif keyid[0] == "ec":
        lx, ly = KM.ec_coord_shape(ref_private(keyid).public_key())
        d = int(keyid[2])
        size = "tiny" if d < 65536 else ("top" if d > K.curve_order(keyid[1]) - 65536 else "random")
        out = ["key:ec-scalar-" + size, "ec-coord:%s:x-lz%d:y-lz%d" % (keyid[1], lx, ly)]
        if lx or ly:
            out.append("ec-coord:short")
    else:
        out = ["key:rsa-generated"]
    if key_class(keyid) != "Ed25519Key":
        n = len(der_body(keyid))
        out.append("%s-der:%s" % (key_class(keyid), "mod16=0" if n % 16 == 0 else ("mod8=0" if n % 8 == 0 else "partial")))
    return out


passphrases = st.one_of(
    st.none(),
    st.none(),
    st.sampled_from(["television", "a", " ", "  tab\tand space ", "pass word", "x" * 200, "éèüß", "密码", "\U0001f511key", ""]),
    st.text(alphabet=st.characters(min_codepoint=0x20, max_codepoint=0x7E), min_size=1, max_size=20),
    st.text(min_size=1, max_size=12),
)


@st.composite
def cases(draw, fixed_key=None):
    key = fixed_key if fixed_key is not None else draw(keyids())
    prov = draw(st.sampled_from(provs_for(key)))
    other = draw(keyids())
    return {
        "key": key,
        "prov": prov,
        "pass": draw(passphrases),
        "wrong": draw(st.sampled_from(["none", "empty", "prefix", "case", "other", "suffix"])),
        "wrong_bytes": draw(st.booleans()),
        "right_bytes": draw(st.booleans()),
        "write_via": draw(st.sampled_from(["file", "file", "fileobj"])),
        "pre": draw(st.sampled_from([None, None, 0o644, 0o600, 0o666])),
        "umask": draw(st.sampled_from([0, 0o022, 0o077])),
        "other": other,
        "oprov": draw(st.sampled_from(provs_for(other))),
    }


def wrong_pass(right, kind):
    """A passphrase different from ``right`` (None = no passphrase)."""
    if kind == "none":
        return None
    if kind == "empty":
        return ""
    if kind == "prefix":
        return right[:-1] if len(right) > 1 else right + "x"
    if kind == "suffix":
        return right + " "
    if kind == "case":
        sw = right.swapcase()
        return sw if sw != right else right + "X"
    return "not-" + right[::-1]


# ----------------------------------------------------------------------------- oracle


class Fail(Exception):
    def __init__(self, clause, bucket, detail):
        Exception.__init__(self, clause)
        self.clause, self.bucket, self.detail = clause, bucket, detail


def _fp_sha256(blob):
    return "SHA256:" + base64.b64encode(hashlib.sha256(blob).digest()).decode().rstrip("=")


def check_public(cls_name, k, ref, where):
    """Clause a/b for one object ``k`` whose material is ``ref``."""
    import paramiko
    from paramiko.message import Message

    cls = getattr(paramiko, cls_name)
    blob = ref.blob()
    got = k.asbytes()
    if got != blob:
        raise Fail("public-encoding", "%s:%s" % (cls_name, where), "asbytes() differs from the independent encoding: %s vs %s" % (got.hex()[:80], blob.hex()[:80]))
    if bytes(k) != blob:
        raise Fail("public-encoding", "%s:%s:bytes" % (cls_name, where), "bytes(key) != asbytes()")
    if k.get_name() != ref.name or k.get_bits() != ref.bits:
        raise Fail("public-attributes", "%s:%s" % (cls_name, where), "name/bits %r/%r expected %r/%r" % (k.get_name(), k.get_bits(), ref.name, ref.bits))
    if k.get_fingerprint() != hashlib.md5(blob).digest() or k.fingerprint != _fp_sha256(blob) or k.get_base64() != base64.b64encode(blob).decode():
        raise Fail("fingerprint", "%s:%s" % (cls_name, where), "fingerprint/base64 differ from hashlib/base64 over the reference blob")
    twins = {
        "data": lambda: cls(data=got),
        "msg": lambda: cls(msg=Message(got)),
        "type_string": lambda: paramiko.PKey.from_type_string(ref.name, got),
    }
    for how, mk in sorted(twins.items()):
        try:
            t = mk()
        except Exception as e:
            raise Fail("public-roundtrip", "%s:%s:%s" % (cls_name, how, type(e).__name__), "public bytes do not parse back: %r" % (e,))
        if not (t == k and k == t) or (t != k):
            raise Fail("equality", "%s:%s-vs-%s" % (cls_name, how, where), "object rebuilt from public bytes is not equal to the key")
        if hash(t) != hash(k):
            raise Fail("hash", "%s:%s-vs-%s" % (cls_name, how, where), "equal keys hash differently")
        if t.can_sign():
            raise Fail("public-roundtrip", "%s:%s:can-sign" % (cls_name, how), "public-only object claims it can sign")
        if t.asbytes() != blob or t.fingerprint != k.fingerprint:
            raise Fail("public-roundtrip", "%s:%s:bytes" % (cls_name, how), "re-encoded public bytes differ")


def check_signs(cls_name, k, ref, where):
    if not k.can_sign():
        raise Fail("signing-capable", "%s:%s" % (cls_name, where), "can_sign() is False for a key loaded from private material")
    sig = k.sign_ssh_data(b"c36 probe").asbytes()
    ok, why = ref.verify(b"c36 probe", sig)
    if not ok:
        raise Fail("signing-capable", "%s:%s:bad-signature" % (cls_name, where), "signature does not verify under the original public key: " + why)


def expect_refused(cls_name, loader, password, where):
    """Loading must raise; returns the exception class name."""
    from paramiko.ssh_exception import PasswordRequiredException

    try:
        key = loader(password)
    except PasswordRequiredException:
        return "PasswordRequiredException"
    except Exception as e:
        if password is None:
            raise Fail("passphrase", "%s:%s:none-raises-%s" % (cls_name, where, type(e).__name__), "loading a protected key without passphrase raised %r, not PasswordRequiredException" % (e,))
        return type(e).__name__
    raise Fail("passphrase", "%s:%s:loaded-with-%s" % (cls_name, where, "none" if password is None else "wrong"), "protected key loaded with passphrase %r -> %r" % (password, key))


def obtain(keyid, prov):
    """get_obj; for constructed key text (written by `cryptography` / the independent PEM writer, i.e. valid
    by construction) a loader exception is a violation of the load-back clause, not a harness error."""
    try:
        return get_obj(keyid, prov)
    except Exception as e:
        if isinstance(keyid, str) or prov == "object":
            raise
        raise Fail("private-load", "%s:%s:%s" % (key_class(keyid), prov, K.exc_bucket(e)), "valid key text (%s) does not load: %r" % (prov, e))


def execute(ctx, c):
    import paramiko

    cls_name = key_class(c["key"])
    cls = getattr(paramiko, cls_name)
    ref = ref_public(c["key"])
    sp = K.spec(c["key"]) if isinstance(c["key"], str) else None
    writes = cls_name != "Ed25519Key"
    protected = bool(c["pass"]) if writes else bool(sp and sp.password)
    nontrivial = protected or c["prov"] == "file+cert" or c["prov"] in ENC_PROVS or (writes and c["umask"] != 0o077)
    classes = ["cls:" + cls_name, "prov:" + c["prov"], "umask:%o" % c["umask"], "pre:%s" % ("new" if c["pre"] is None else "%o" % c["pre"])]
    classes += material_classes(c["key"])
    if writes and c["pass"]:
        classes.append("written-protected:" + [x for x in classes if x.startswith(cls_name + "-der:")][0])
    ctx.case(c, nontrivial, classes)
    try:
        k = obtain(c["key"], c["prov"])
        # a / b
        check_public(cls_name, k, ref, c["prov"])
        check_signs(cls_name, k, ref, c["prov"])
        for p2 in provs_for(c["key"]):
            k2 = obtain(c["key"], p2)
            if not (k2 == k) or k2 != k or hash(k2) != hash(k):
                raise Fail("equality", "%s:%s-vs-%s" % (cls_name, p2, c["prov"]), "two objects of one key are unequal or hash differently")
        if isinstance(c["key"], str) and c["key"] in CERTS:
            from paramiko.pkey import PublicBlob

            ck = cls(data=PublicBlob.from_file("/repo/tests/_support/" + CERTS[c["key"]]).key_blob)
            if not (ck == k) or hash(ck) != hash(k):
                raise Fail("equality", "%s:certdata-vs-%s" % (cls_name, c["prov"]), "object built from the certificate blob is unequal to the key / hashes differently")
            ctx.count("cert-compared")
        o = obtain(c["other"], c["oprov"])
        same = ref_public(c["other"]).same(ref)
        if (o == k) != same or (k == o) != same or (o != k) == same:
            raise Fail("equality", "%s-vs-%s:%s" % (cls_name, key_class(c["other"]), "same-material" if same else "different-material"), "== says %r, reference says same material = %r" % (o == k, same))
        if same and hash(o) != hash(k):
            raise Fail("hash", "%s:same-material" % cls_name, "equal keys (different files) hash differently")
        ctx.count("other:" + ("same" if same else "different"))

        # d: bundled protected files
        if sp and sp.password:
            wp = wrong_pass(sp.password, c["wrong"])
            if c["wrong_bytes"] and wp is not None:
                wp = wp.encode()
            ld = (lambda pw: cls.from_private_key_file(sp.path, pw)) if c["write_via"] == "file" else (lambda pw: cls.from_private_key(io.StringIO(sp.text), pw))
            ctx.count("bundled-refused:" + expect_refused(cls_name, ld, wp, "bundled-" + sp.fmt))
            ld(sp.password.encode() if c["right_bytes"] else sp.password)

        # d': constructed protected files (independent traditional-PEM writer, every supported cipher)
        if c["prov"] in ENC_PROVS:
            text = prov_text(c["key"], c["prov"])
            wp = wrong_pass(ENC_PROV_PASS, c["wrong"])
            if c["wrong_bytes"] and wp is not None:
                wp = wp.encode()
            ld = lambda pw: cls.from_private_key(io.StringIO(text), pw)  # noqa: E731
            ctx.count("constructed-refused:" + expect_refused(cls_name, ld, wp, c["prov"]))
            back = ld(ENC_PROV_PASS.encode() if c["right_bytes"] else ENC_PROV_PASS)
            if not (back == k) or hash(back) != hash(k):
                raise Fail("private-roundtrip", "%s:%s:unequal" % (cls_name, c["prov"]), "protected text loads as a different key")

        # c / e: writers
        if writes:
            write_and_reload(ctx, c, cls_name, cls, k, ref)
    except Fail as f:
        ctx.violation(f.clause, f.bucket, c, f.detail)


def write_and_reload(ctx, c, cls_name, cls, k, ref):
    pw = c["pass"]
    d = K.fast_tmpdir(ctx)
    path = os.path.join(d, "key-%d" % ctx.evaluations)
    if os.path.exists(path):
        os.unlink(path)
    content = None
    if c["write_via"] == "file":
        if c["pre"] is not None:
            with open(path, "w") as f:
                f.write("OLD CONTENT\n" * 1000)
            os.chmod(path, c["pre"])
        old = os.umask(c["umask"])
        try:
            try:
                k.write_private_key_file(path, password=pw)
            except ValueError as e:
                if pw == "":
                    ctx.count("write-refused-empty-passphrase")
                    return
                raise Fail("write", "%s:%s" % (cls_name, type(e).__name__), "write_private_key_file raised %r" % (e,))
        finally:
            os.umask(old)
        mode = stat.S_IMODE(os.stat(path).st_mode)
        if c["pre"] is None:
            if mode & 0o077 or (mode & 0o600) != 0o600:
                raise Fail("new-file-mode", "%s:umask-%o" % (cls_name, c["umask"]), "newly created key file has mode %o" % mode)
            ctx.count("new-file-mode-checked")
        with open(path) as f:
            content = f.read()
        if "OLD CONTENT" in content:
            raise Fail("replace", cls_name, "pre-existing file was not fully replaced")
    else:
        f = io.StringIO()
        try:
            k.write_private_key(f, password=pw)
        except ValueError as e:
            if pw == "":
                ctx.count("write-refused-empty-passphrase")
                return
            raise Fail("write", "%s:%s" % (cls_name, type(e).__name__), "write_private_key raised %r" % (e,))
        content = f.getvalue()
        with open(path, "w") as f2:
            f2.write(content)
    loaders = {
        "file": lambda p: cls.from_private_key_file(path, p),
        "fileobj": lambda p: cls.from_private_key(io.StringIO(content), p),
    }
    for how, ld in sorted(loaders.items()):
        right = pw.encode() if (pw and c["right_bytes"]) else pw
        try:
            back = ld(right)
        except Exception as e:
            raise Fail("private-roundtrip", "%s:%s:%s" % (cls_name, how, type(e).__name__), "written key does not load back with its passphrase %r: %r" % (pw, e))
        if not (back == k) or hash(back) != hash(k):
            raise Fail("private-roundtrip", "%s:%s:unequal" % (cls_name, how), "written key loads back as a different key")
        check_signs(cls_name, back, ref, "reloaded-" + how)
        check_public(cls_name, back, ref, "reloaded-" + how)
        if pw:
            ctx.count("refused:" + expect_refused(cls_name, ld, None, "written"))
            wp = wrong_pass(pw, c["wrong"])
            if wp is not None:
                if c["wrong_bytes"]:
                    wp = wp.encode()
                ctx.count("refused:" + expect_refused(cls_name, ld, wp, "written"))
        else:
            # an unprotected file loads with any passphrase argument as well (nothing to decrypt)
            pass
    os.unlink(path)


def run(ctx):
    ctx.set_budget(40, 700)
    fresh_rsa_pool(ctx)
    if ctx.tier == "thorough":
        import paramiko
        from cryptography.hazmat.primitives import serialization as S

        bits = [1024, 2048, 3072, 4096][ctx.worker % 4]
        k = paramiko.RSAKey.generate(bits)
        text = k.key.private_bytes(S.Encoding.PEM, S.PrivateFormat.TraditionalOpenSSL, S.NoEncryption()).decode()
        _extra_keys.append(["rsapem", text])
        ctx.count("generated-rsa-%d" % bits)
    ctx.assume("write_private_key* with an empty passphrase may refuse (ValueError from the serializer); nothing is asserted about that call")
    ctx.assume("process umask is changed only around the write call (single-threaded) and restored")
    # 1. sweep: the finite set of constructed keys is enumerated completely in every run (every special scalar of
    #    every curve, every generated RSA key); the other dimensions of each case are drawn
    constructed = [["ec", curve, d] for curve in sorted(KM.EC_SHORT_COORD_SCALARS) for d in KM.ec_special_scalars(curve)] + list(_extra_keys)
    if ctx.tier == "thorough":
        constructed = constructed[ctx.worker :: ctx.nworkers] if ctx.nworkers > 1 else constructed
    for i, key in enumerate(constructed):
        ctx.explore(cases(fixed_key=key), lambda c: execute(ctx, c), 3, seed_offset=1000 + i)
    ctx.count("constructed-keys-swept", len(constructed))
    # 2. free exploration
    ctx.explore(cases(), lambda c: execute(ctx, c), ctx.scale(300, 2500))


def replay(ctx, case):
    execute(ctx, case)
