"""C24 - after fileno(), select() reports the channel's descriptor readable iff stdout or
stderr holds unread data, or the channel reached EOF / was closed.

Engine: vlib.sched + vlib.chanbench.  A real ``paramiko.Channel`` on a fake transport, real
``os.pipe`` and real ``select``.  The start state (buffered stdout/stderr bytes, peer EOF, peer
CLOSE, combine_stderr) is produced through the real handlers, then ``fileno()`` is called, then
task 0 plays the transport thread (peer DATA / EXTENDED_DATA(1) / EOF / CLOSE through
``Channel._feed`` / ``_feed_extended`` / ``_handle_eof`` / ``_handle_close`` - in paramiko these all run on
the one transport thread, so they are never concurrent with each other) and 1-2 application
tasks call ``recv(n)``, ``recv_stderr(n)`` (channel timeout 0 = non-blocking, so an empty buffer
raises socket.timeout) and ``set_combine_stderr(True)``.  Switch points: every lock operation and every source line of
``paramiko/pipe.py`` and ``paramiko/buffered_pipe.py``.

Oracle, evaluated at every quiescent point (no task inside an operation) and at the end:
    select([fd],[],[],0) readable  <=>  len(in_buffer)+len(in_stderr_buffer) > 0 or eof_received or closed
The user-level ``Channel.close()`` is not generated: it destroys the descriptor, after which the
statement says nothing.

Round 3 dimensions:
  * history BEFORE the first fileno() ("pre", sequential - the descriptor does not exist yet): 0-5 of peer DATA /
    EXTENDED_DATA, recv(n), recv_stderr(n), set_combine_stderr, EOF, CLOSE through the same handlers / calls, or 1-2
    (message, read | combine) cycles: the buffer state fileno() starts from was reached by filling AND draining
    (partly, completely, repeatedly), not only by filling.  Classes: pre-fileno-history[-with-reads],
    stream-filled-and-drained-before-fileno.
  * message sizes include 0 (empty CHANNEL_DATA / EXTENDED_DATA string, legal per RFC 4254 5.2), before and after
    fileno().  Class zero-length-feed.  On the unchanged tree this shows a genuine defect (open finding
    "readable-with-nothing-pending|buffer-event-set-after-zero-length-feed", replays/C24/zero-length-data-marks-descriptor-readable.json,
    fixes/C24-empty-feed-marks-descriptor-readable.patch); it is NOT excluded from the generator.
"""
import select
import socket

from hypothesis import strategies as st

from vlib import chanbench as CB
from vlib import sched as S
from vlib.core import HarnessError

PROPERTY = "C24"
LEVEL = "exploration"
THOROUGH_WORKERS = 16
RULE = (
    "start state (0-3 stdout bytes, 0-3 stderr bytes, peer EOF?, peer CLOSE?, combine_stderr?) x history before the first fileno() (none | 0-5 of peer DATA/EXTENDED_DATA "
    "of 0-3 bytes, recv(n), recv_stderr(n), set_combine_stderr, EOF, CLOSE | 1-2 (message, read|combine) cycles) x one transport task (1-4 of peer "
    "DATA / EXTENDED_DATA of 0-3 bytes (zero-length messages included) / EOF / CLOSE via the real handlers) + 1-2 application tasks (1-3 of recv(n), recv_stderr(n), set_combine_stderr) on a real Channel "
    "(fake transport, real os.pipe/select) under the deterministic scheduler with line-level switch points in pipe.py and "
    "buffered_pipe.py; schedules from a generated preemption list (<=3 anywhere + <=2 placed at the n-th line inside pipe.py set/clear) and, in thorough, all schedules with <=k preemptions "
    "(k=3 lock-level, k=2 line-level) of 100 small transport||application programs; non-trivial = a task switch happened "
    "inside OrPipe.set/clear or PosixPipe.set/clear/set_forever; distinct by SHA-1 of (start, program, schedule)"
)

PEER_OPS = ("out", "err", "eof", "pclose")
APP_OPS = ("recv", "recv_err", "combine")

# peer messages are all delivered by ONE thread (the transport thread); applications read
# (and switch combine_stderr) from other threads
# message sizes include 0: a CHANNEL_DATA / CHANNEL_EXTENDED_DATA whose string is empty is a legal message (RFC 4254 5.2) and
# holds no unread data
feed_size_st = st.sampled_from([0, 1, 1, 2, 2, 3, 3])
peer_op_st = st.one_of(
    st.tuples(st.just("out"), feed_size_st),
    st.tuples(st.just("err"), feed_size_st),
    st.tuples(st.just("out"), feed_size_st).map(lambda v: v),
    st.tuples(st.just("err"), feed_size_st).map(lambda v: v),
    st.tuples(st.just("eof")),
    st.tuples(st.just("pclose")),
)
app_op_st = st.one_of(
    st.tuples(st.just("recv"), st.integers(1, 4)),
    st.tuples(st.just("recv_err"), st.integers(1, 4)),
    st.tuples(st.just("recv"), st.integers(1, 4)),
    st.tuples(st.just("recv_err"), st.integers(1, 4)),
    st.tuples(st.just("combine")),
)

# history of the channel BEFORE the first fileno() (sequential: the descriptor does not exist yet): feeds, reads - a stream may
# have been filled and drained, partly or completely, any number of times -, combine, EOF, CLOSE
_pre_feed = st.one_of(st.tuples(st.just("out"), feed_size_st), st.tuples(st.just("err"), feed_size_st))
_pre_read = st.one_of(st.tuples(st.just("recv"), st.integers(1, 4)), st.tuples(st.just("recv_err"), st.integers(1, 4)))
pre_op_st = st.one_of(
    _pre_feed, _pre_feed.map(lambda v: v), _pre_feed.map(lambda v: (v)),
    _pre_read, _pre_read.map(lambda v: v), _pre_read.map(lambda v: (v)),
    st.just(("combine",)),  # set_combine_stderr(True): moves what stderr holds into stdout
    st.sampled_from([("eof",), ("pclose",)]),
)
# second shape: 1-2 x (message, read | combine) - fill / drain cycles
_pre_cycles = st.lists(st.tuples(_pre_feed, st.one_of(_pre_read, _pre_read.map(lambda v: v), st.just(("combine",)))), min_size=1, max_size=2).map(lambda l: [op for pair in l for op in pair])
pre_st = st.one_of(st.just([]), st.lists(pre_op_st, max_size=5), _pre_cycles)

start_st = st.fixed_dictionaries(
    {
        "out": st.integers(0, 3),
        "err": st.integers(0, 3),
        "eof": st.sampled_from([False, False, False, True]),
        "closed": st.sampled_from([False, False, False, False, True]),
        "combine": st.sampled_from([False, False, False, True]),
    }
)

case_st = st.fixed_dictionaries(
    {
        "start": start_st,
        "pre": pre_st,
        "tasks": st.builds(
            lambda peer, apps: [peer] + apps,
            st.lists(peer_op_st, min_size=1, max_size=4),
            st.lists(st.lists(app_op_st, min_size=1, max_size=3), min_size=1, max_size=2),
        ),
        "sched": S.schedule_strategy(max_pre=3, max_gap=80, max_forced=10, max_hot=2, hot_range=14),
    }
)

CRITICAL = {("pipe.py", "set"), ("pipe.py", "clear"), ("pipe.py", "set_forever")}


def in_critical(tag):
    return tag[0] == "line" and (tag[1], tag[2]) in CRITICAL



class Bench:
    def __init__(self, strategy, trace="lines"):
        import paramiko.pipe as PP
        import paramiko.buffered_pipe as BP

        self.PP = PP
        tf = {PP.__file__: None, BP.__file__: None} if trace == "lines" else None
        self.s = S.Scheduler(strategy, trace_files=tf, max_steps=20000)
        self.ft = CB.FakeTransport(self.s)
        self.chan = CB.make_channel(self.s, self.ft, chanid=1, remote_chanid=7)
        self.chan.settimeout(0.0)
        self.fd = None
        self.pipe = None
        self.checks = []  # (where, readable, n_out, n_err, eof, closed, flags, zero-length feeds delivered so far)
        self.zero_feeds = 0
        self.pre_classes = set()

    def start(self, st_, pre=()):
        ft, chan = self.ft, self.chan
        if st_["combine"]:
            chan.set_combine_stderr(True)
        if st_["out"]:
            ft.deliver(CB.MSG_CHANNEL_DATA, 1, bytes(range(100, 100 + st_["out"])))
        if st_["err"]:
            ft.deliver(CB.MSG_CHANNEL_EXTENDED_DATA, 1, 1, bytes(range(200, 200 + st_["err"])))
        if st_["eof"]:
            ft.deliver(CB.MSG_CHANNEL_EOF, 1)
        if st_["closed"]:
            ft.deliver(CB.MSG_CHANNEL_CLOSE, 1)
        # the generated history before the first fileno(), through the same handlers / public calls as afterwards
        fed = {"out": 0, "err": 0}
        counter = [7]
        for op in pre:
            op = tuple(op)
            self.do(op, counter)
            if op[0] in fed:
                fed[op[0]] += op[1]
        if pre:
            self.pre_classes.add("pre-fileno-history")
            if any(tuple(op)[0] in ("recv", "recv_err") for op in pre):
                self.pre_classes.add("pre-fileno-history-with-reads")
            for k, ready in (("out", chan.recv_ready()), ("err", chan.recv_stderr_ready())):
                if fed[k] and not ready and not st_[k] and not (st_["combine"] or any(tuple(op)[0] == "combine" for op in pre)):
                    self.pre_classes.add("stream-filled-and-drained-before-fileno")
        self.fd = chan.fileno()
        self.pipe = chan._pipe
        if self.pipe is None or self.pipe.fileno() != self.fd:
            raise HarnessError("Channel.fileno() no longer keeps its pipe in Channel._pipe")
        self.p1 = chan.in_buffer._event
        self.p2 = chan.in_stderr_buffer._event
        for o in (self.p1, self.p2):
            if type(o).__name__ != "OrPipe":
                raise HarnessError("BufferedPipe._event is %r, expected an OrPipe" % (o,))
        # forward compatibility: locks added to the pipe objects by a repair become cooperative
        memo = {}
        S.coopify(self.s, self.p1, memo, prefix="orpipe1.")
        S.coopify(self.s, self.p2, memo, prefix="orpipe2.")
        S.coopify(self.s, self.pipe, memo, prefix="pipe.")

    def check(self, where):
        chan = self.chan
        if chan._pipe is None:
            return
        readable = bool(select.select([self.fd], [], [], 0)[0])
        n_out = len(chan.in_buffer._buffer)
        n_err = len(chan.in_stderr_buffer._buffer)
        flags = "p1=%d,p2=%d,pipe=%d,forever=%d" % (bool(self.p1._set), bool(self.p2._set), bool(self.pipe._set), bool(self.pipe._forever))
        self.checks.append((where, readable, n_out, n_err, bool(chan.eof_received), bool(chan.closed), flags, self.zero_feeds))

    def do(self, op, counter):
        ft, chan = self.ft, self.chan
        k = op[0]
        if k == "out":
            b = bytes((counter[0] + i) % 256 for i in range(op[1]))
            counter[0] += op[1]
            if not b:
                self.zero_feeds += 1
            ft.deliver(CB.MSG_CHANNEL_DATA, 1, b)
        elif k == "err":
            b = bytes((counter[0] + i) % 256 for i in range(op[1]))
            counter[0] += op[1]
            if not b:
                self.zero_feeds += 1
            ft.deliver(CB.MSG_CHANNEL_EXTENDED_DATA, 1, 1, b)
        elif k == "recv":
            try:
                chan.recv(op[1])
            except socket.timeout:
                pass
        elif k == "recv_err":
            try:
                chan.recv_stderr(op[1])
            except socket.timeout:
                pass
        elif k == "eof":
            ft.deliver(CB.MSG_CHANNEL_EOF, 1)
        elif k == "pclose":
            ft.deliver(CB.MSG_CHANNEL_CLOSE, 1)
        elif k == "combine":
            chan.set_combine_stderr(True)
        else:
            raise HarnessError("bad op %r" % (op,))

    def run(self, tasks):
        s = self.s
        for ti, ops in enumerate(tasks):
            for op in ops:
                if (op[0] in PEER_OPS) != (ti == 0):
                    raise HarnessError("task 0 is the transport thread (peer messages only), other tasks are applications: %r" % (tasks,))
        inop = [False] * len(tasks)

        def mk(ti, ops):
            def body():
                counter = [1 + 50 * ti]
                for oi, op in enumerate(ops):
                    inop[ti] = True
                    self.do(op, counter)
                    inop[ti] = False
                    if not any(inop):
                        self.check("after t%d.%d" % (ti, oi))

            return body

        for ti, ops in enumerate(tasks):
            s.spawn("t%d" % ti, mk(ti, ops))
        PP = self.PP
        real_os = PP.os
        PP.os = CB.pipe_os_shim(s)
        try:
            with S.patch_time(s, *CB.chan_time_modules()):
                res = s.run()
        finally:
            PP.os = real_os
        if res.outcome == "ok":
            # after a deadlock/abort some task is parked in the middle of an operation: not quiescent
            self.check("final")
        return res

    def cleanup(self):
        p = self.pipe
        if p is not None and not p._closed:
            try:
                p.close()
            except OSError:
                pass
        self.chan._pipe = None


def judge(bench, res):
    viol = []
    classes = set()
    crit = res.switched_in(in_critical, preempt_only=False)
    # a violation without any task switch inside the pipe operations is not a race between them
    seq = "" if crit else ":no-switch-inside-pipe-ops"
    for where, readable, n_out, n_err, eof, closed, flags, zero_feeds in bench.checks:
        pending = []
        if n_out:
            pending.append("stdout-data")
        if n_err:
            pending.append("stderr-data")
        if eof:
            pending.append("eof")
        if closed:
            pending.append("closed")
        should = bool(pending)
        p1, p2, pp, forever = [x.endswith("1") for x in flags.split(",")]
        # bucket = the layer whose bookkeeping is inconsistent (root cause), not the symptom
        if readable and not should:
            if not (pp or forever):
                layer = "posixpipe-flag-clear-but-fd-readable"
            elif p1 or p2:
                # a zero-length DATA / EXTENDED_DATA message was delivered earlier in this case: own bucket (it carries no data)
                layer = "buffer-event-set-without-data"
            else:
                layer = "orpipe-halves-clear-but-pipe-set"
            if layer == "buffer-event-set-without-data" and zero_feeds:
                # a zero-length DATA / EXTENDED_DATA message was delivered earlier in this case: own bucket, and - not being a
                # race - the same one whatever the schedule did
                viol.append(("readable-with-nothing-pending", "buffer-event-set-after-zero-length-feed", "%s: descriptor readable, buffers empty, no eof/close, %d zero-length DATA/EXTENDED_DATA message(s) delivered before (%s)" % (where, zero_feeds, flags)))
            else:
                viol.append(("readable-with-nothing-pending", layer + seq, "%s: descriptor readable, buffers empty, no eof/close (%s)" % (where, flags)))
        elif should and not readable:
            if pp or forever:
                layer = "posixpipe-flag-set-but-fd-empty"
            elif p1 or p2:
                layer = "orpipe-half-set-but-pipe-clear"
            else:
                layer = "no-buffer-event-set:" + "+".join(pending)
            viol.append(("unreadable-with-pending", layer + seq, "%s: descriptor NOT readable although %s (%s)" % (where, "+".join(pending), flags)))
        classes.add("checked-readable" if readable else "checked-unreadable")
    if res.outcome == "deadlock":
        kinds = sorted(set(w[0] if isinstance(w, tuple) else str(w) for w in res.waits.values()))
        if "os.read" in kinds:
            bucket = "blocked-in-PosixPipe.clear-os.read"
        else:
            bucket = "+".join(kinds)
        viol.append(("deadlock", bucket, "waits=%r" % (res.waits,)))
    elif res.outcome == "budget":
        viol.append(("no-termination", "step-budget", "waits=%r" % (res.waits,)))
    elif res.outcome != "ok":
        raise HarnessError("outcome %r" % res.outcome)
    for name, info in res.tasks.items():
        if info.exc is not None:
            viol.append(("operation-raised", "%s" % type(info.exc).__name__, "%s: %s" % (name, info.tb)))
    if crit:
        classes.add("switch-inside-pipe-set/clear")
    if res.switched_in(lambda tag: tag[0] == "line" and tag[1] == "buffered_pipe.py", preempt_only=False):
        classes.add("switch-inside-buffered_pipe")
    classes.add("quiescent-checks=%d" % min(len(bench.checks), 4))
    classes.update(bench.pre_classes)
    if bench.zero_feeds:
        classes.add("zero-length-feed")
    return viol, classes, crit > 0


def execute(ctx, case, strategy=None, trace="lines", extra_classes=()):
    strat = strategy if strategy is not None else S.strategy_from_case(case["sched"], in_critical)
    b = Bench(strat, trace=case.get("trace", trace))
    try:
        b.start(case["start"], case.get("pre") or ())
        res = b.run([[tuple(op) for op in t] for t in case["tasks"]])
        viol, classes, nontrivial = judge(b, res)
    finally:
        b.cleanup()
    if strategy is not None and isinstance(strategy, S.DFSStrategy):
        case = dict(case)
        case["sched"] = {"dfs": [t[2] for t in strategy.trace]}
    ctx.case(case, nontrivial, sorted(classes) + list(extra_classes))
    seen = set()
    for clause, bucket, detail in viol:
        if (clause, bucket) in seen:
            continue
        seen.add((clause, bucket))
        ctx.violation(clause, bucket, case, detail)
    return res


# ----------------------------------------------------------------------------- enumeration

DFS_PEER = [[("out", 1)], [("err", 1)], [("eof",)], [("err", 1), ("out", 1)], [("out", 1), ("err", 1)]]
DFS_APP = [[("recv", 4)], [("recv_err", 4)], [("combine",)], [("recv", 4), ("recv_err", 4)]]
DFS_STARTS = [
    {"out": 0, "err": 0, "eof": False, "closed": False, "combine": False, "pre": [("out", 1), ("recv", 4)]},  # filled and drained before fileno()
    {"out": 0, "err": 0, "eof": False, "closed": False, "combine": False},
    {"out": 1, "err": 0, "eof": False, "closed": False, "combine": False},
    {"out": 0, "err": 1, "eof": False, "closed": False, "combine": False},
    {"out": 1, "err": 1, "eof": False, "closed": False, "combine": False},
]


def dfs_programs():
    progs = []
    for st_ in DFS_STARTS:
        for a in DFS_PEER:
            for b in DFS_APP:
                progs.append({"start": {k: v for k, v in st_.items() if k != "pre"}, "pre": [list(o) for o in st_.get("pre", ())], "tasks": [a, b]})
    return progs


def run_dfs(ctx, programs, k, trace, limit, label):
    complete = True
    for prog in programs:
        if ctx.out_of_time():
            complete = False
            break

        def one(strategy, prog=prog):
            case = {"start": prog["start"], "pre": prog.get("pre", []), "tasks": prog["tasks"], "sched": None, "trace": trace}
            execute(ctx, case, strategy=strategy, trace=trace, extra_classes=("dfs-" + label,))

        gen = S.enumerate_schedules(one, k, limit=limit)
        n = 0
        while True:
            try:
                next(gen)
                n += 1
            except StopIteration as e:
                if not e.value:
                    complete = False
                    ctx.inconc("dfs-program-truncated-" + label)
                break
        ctx.count("dfs-programs-" + label)
    return complete


def run(ctx):
    ctx.set_budget(60, 840)
    ctx.assume("switching granularity: source lines of pipe.py/buffered_pipe.py and lock operations (not bytecodes)")
    ctx.explore(case_st, lambda c: execute(ctx, c), ctx.scale(3500, 30000))
    progs = dfs_programs()
    if ctx.tier == "thorough":
        mine = progs[ctx.worker :: ctx.nworkers]
        ok1 = run_dfs(ctx, mine, 3, "locks", 500000, "k3-locks")
        ok2 = run_dfs(ctx, mine, 2, "lines", 500000, "k2-lines")
        ctx.exhaustive = bool(ok1 and ok2)
        ctx.note("dfs_domain", "%d programs (5 start states, one of them filled and drained before fileno(), x 5 transport-thread programs x 4 application programs of 1-2 ops): all schedules with <=3 preemptions at lock-level switch points and <=2 preemptions at line-level switch points" % len(progs))
    else:
        step = max(1, len(progs) // 4)
        run_dfs(ctx, progs[(ctx.seed % step) :: step][:4], 1, "lines", 300, "k1-lines")


def replay(ctx, case):
    execute(ctx, case)
