"""C24 - after fileno(), select() reports the channel's descriptor readable iff stdout or
stderr holds unread data, or the channel reached EOF / was closed.

Engine: vlib.sched + vlib.chanbench.  A real ``paramiko.Channel`` on a fake transport, real
``os.pipe`` and real ``select``.  The start state (buffered stdout/stderr bytes, peer EOF, peer
CLOSE, combine_stderr) is produced through the real handlers, then ``fileno()`` is called, then
task 0 plays the transport thread (peer DATA / EXTENDED_DATA(1) / EOF / CLOSE through
``Channel._feed`` / ``_feed_extended`` / ``_handle_eof`` / ``_handle_close`` - in paramiko these all run on
the one transport thread, so they are never concurrent with each other) and 1-2 application
tasks call ``recv(n)``, ``recv_stderr(n)`` (channel timeout 0 = non-blocking, so an empty buffer
raises socket.timeout; round 4: also blocking and timed), ``set_combine_stderr(True|False)`` and ``fileno()``.  Switch points: every lock operation and every source line of
``paramiko/pipe.py`` and ``paramiko/buffered_pipe.py``.

Oracle, evaluated at every quiescent point (no task inside an operation) and at the end:
    select([fd],[],[],0) readable  <=>  len(in_buffer)+len(in_stderr_buffer) > 0 or eof_received or closed
The user-level ``Channel.close()`` is not generated: it destroys the descriptor, after which the
statement says nothing.

Round 3 dimensions:
  * history BEFORE the first fileno() ("pre", sequential - the descriptor does not exist yet): 0-5 of peer DATA /
    EXTENDED_DATA, recv(n), recv_stderr(n), set_combine_stderr, EOF, CLOSE through the same handlers / calls, or 1-2
    (message, read | combine) cycles: the buffer state fileno() starts from was reached by filling AND draining
    (partly, completely, repeatedly), not only by filling.  Classes: pre-fileno-history[-with-reads],
    stream-filled-and-drained-before-fileno.
  * message sizes include 0 (empty CHANNEL_DATA / EXTENDED_DATA string, legal per RFC 4254 5.2), before and after
    fileno().  Class zero-length-feed.  This showed a genuine defect (finding
    "readable-with-nothing-pending|buffer-event-set-after-zero-length-feed", replays/C24/zero-length-data-marks-descriptor-readable.json,
    fixes/C24-empty-feed-marks-descriptor-readable.patch; recorded as fixed, commit 31f2947, in known_findings.d/C24.json); it was never
    excluded from the generator.

Round 4 dimensions:
  * WHERE the first fileno() happens ("first_fileno"): "seq" - sequentially after the pre-history (as before) - or "task" - it is an
    operation ("fileno",) of an application task, at a generated position (or a task of its own): other threads may be in the
    middle of an operation, or PARKED IN A BLOCKING READ, when the descriptor comes into being; the oracle starts when the first
    fileno() has returned.  ("fileno",) is in the application alphabet in both modes: repeated calls must hand out the same
    descriptor (clause descriptor-changed).  Classes first-fileno-in-task, first-fileno-while-reader-parked,
    first-fileno-while-other-op-in-progress, repeated-fileno.
  * reads with the channel timeout None (blocking) or 5.0 virtual seconds (timed) next to the non-blocking ones: ("recv"|"recv_err",
    n, timeout).  A reader parked inside BufferedPipe.read's Condition.wait has released the buffer lock and left nothing half
    done, so a point where every other task is outside an operation is still quiescent and is checked.  A run that ends with
    blocking readers parked for ever on an open, empty stream is what blocking reads do (class reader-parked-forever, final
    check made); any other deadlock stays a violation.  Read sizes now include 16 (drains the stream whatever it holds: the
    read that clears the stream's event).  Classes blocking-read, timed-read, blocking-read-started-before-first-fileno.
  * set_combine_stderr both ways - ("combine", True|False) - before the first fileno(), in the start state and after it: the
    setting at the first fileno() may differ from the one in force when data arrives.  Classes first-fileno-while-combined /
    -separate, combine-switched-on/off-after-fileno, combine-differs-from-setting-at-first-fileno.
  * balance: the start state holds no data in 1/4 of the cases and EOF/CLOSE less often, the transport task is in half of the cases
    data-only or data with ONE ending, so that "nothing pending -> not readable" is decided about as often as the converse.
  * two enumerated families, run completely in the quick tier without preemptions (k=0: every order in which the tasks can
    take turns at blocking points and task ends) and, a seed-dependent part, with one line-level preemption; thorough: all with
    <=2 / <=1 preemptions: (a) combine_stderr on/off at the first fileno() x an application switching it the other way [+ draining
    read] x 5 transport programs; (b) three tasks: 5 transport programs || blocking/timed reader || the thread that makes the
    first fileno() call [+ read].
  * the verdict needs no private attribute of paramiko: buffer lengths fall back to recv_ready()/recv_stderr_ready(), the
    OrPipe / PosixPipe flags only NAME the layer in the bucket ("layer-unobservable" when they are gone; an event that is not
    attached counts as "not set").  Locks created inside paramiko.pipe while the bench runs are cooperative from birth
    (threading shim), whatever object holds them.
"""
import select
import socket

from hypothesis import strategies as st

from vlib import chanbench as CB
from vlib import sched as S
from vlib.core import HarnessError

PROPERTY = "C24"
LEVEL = "exploration"
THOROUGH_WORKERS = 16
RULE = (
    "start state (stdout/stderr bytes from {0,0,0,1,2,3}, peer EOF? 1/6, peer CLOSE? 1/8, combine_stderr? 1/4) x history before the first fileno() (none | 0-5 of peer DATA/EXTENDED_DATA "
    "of 0-3 bytes, recv(n), recv_stderr(n), set_combine_stderr(True|False), EOF, CLOSE | 1-2 (message, read|combine) cycles) x one transport task (1-4 of peer "
    "DATA / EXTENDED_DATA of 0-3 bytes (zero-length messages included) / EOF / CLOSE via the real handlers; or data only; or data with one EOF/CLOSE/EOF+CLOSE) + 1-2 (3) application tasks (1-3 of "
    "recv(n) / recv_stderr(n) non-blocking, blocking (timeout None) or timed (5 virtual s), n in {1,2,3,4,16}; set_combine_stderr(True|False); fileno()) on a real Channel "
    "(fake transport, real os.pipe/select) x first fileno() {sequential, after the pre-history | an operation inside an application task, concurrent with the others (incl. readers parked in a blocking read)} "
    "under the deterministic scheduler with line-level switch points in pipe.py and "
    "buffered_pipe.py; schedules from a generated preemption list (<=3 anywhere + <=2 placed at the n-th line inside pipe.py set/clear) and, in thorough, all schedules with <=k preemptions "
    "(k=3 lock-level, k=2 line-level) of 100 small transport||application programs, k=2 of 20 combine-toggle programs, k=1 of 40 three-task programs transport||blocking reader||first-fileno caller "
    "(quick: 4 of the 100 with k=1, the 20+40 with k=0 and a quarter/eighth of them with k=1); oracle at every point where each task is outside an operation or parked in a read's wait, from the "
    "return of the first fileno() on; non-trivial = a task switch happened "
    "inside OrPipe.set/clear or PosixPipe.set/clear/set_forever, or the first fileno() ran while another task was inside an operation / parked in a read; distinct by SHA-1 of (start, program, schedule)"
)

PEER_OPS = ("out", "err", "eof", "pclose")
APP_OPS = ("recv", "recv_err", "combine")

# peer messages are all delivered by ONE thread (the transport thread); applications read
# (and switch combine_stderr) from other threads
# message sizes include 0: a CHANNEL_DATA / CHANNEL_EXTENDED_DATA whose string is empty is a legal message (RFC 4254 5.2) and
# holds no unread data
feed_size_st = st.sampled_from([0, 1, 1, 2, 2, 3, 3])
peer_op_st = st.one_of(
    st.tuples(st.just("out"), feed_size_st),
    st.tuples(st.just("err"), feed_size_st),
    st.tuples(st.just("out"), feed_size_st).map(lambda v: v),
    st.tuples(st.just("err"), feed_size_st).map(lambda v: v),
    st.tuples(st.just("eof")),
    st.tuples(st.just("pclose")),
)
# reads: 2-tuples are non-blocking (channel timeout 0.0, an empty stream raises socket.timeout); 3-tuples carry the channel timeout
# in force for that read - None = blocking (the reader parks in BufferedPipe.read until fed / EOF / close), 5.0 = timed (virtual
# seconds: the scheduler decides when the timeout fires)
read_tmo_st = st.sampled_from([None, None, 5.0])
# read sizes: 1-4 bytes (partial reads of what the feeds of 0-3 bytes piled up) and 16 = more than a stream can hold here (the
# read that drains the stream completely is the one that clears the stream's event)
read_n_st = st.sampled_from([1, 2, 3, 4, 4, 16, 16])
_recv_nb = st.tuples(st.just("recv"), read_n_st)
_recv_err_nb = st.tuples(st.just("recv_err"), read_n_st)
app_op_st = st.one_of(
    _recv_nb,
    _recv_err_nb,
    _recv_nb.map(lambda v: v),
    _recv_err_nb.map(lambda v: v),
    st.tuples(st.just("recv"), read_n_st, read_tmo_st),
    st.tuples(st.just("recv_err"), read_n_st, read_tmo_st),
    st.tuples(st.just("combine"), st.booleans()),  # set_combine_stderr(True | False): the setting can be flipped at any time, both ways
    st.tuples(st.just("fileno")),  # the first call creates the descriptor; later calls must hand out the same one
)

# the transport task: any 1-4 peer messages (data after EOF, repeated EOF/CLOSE included), or - so that the "nothing pending ->
# not readable" half of the equivalence is exercised as often as the other half - data messages only, or data messages with a
# single EOF / CLOSE / EOF+CLOSE somewhere among them
_feed_op_st = st.one_of(st.tuples(st.just("out"), feed_size_st), st.tuples(st.just("err"), feed_size_st))
_ending_st = st.sampled_from([[("eof",)], [("pclose",)], [("eof",), ("pclose",)]])
peer_task_st = st.one_of(
    st.lists(peer_op_st, min_size=1, max_size=4),
    st.lists(_feed_op_st, min_size=1, max_size=4),
    st.lists(_feed_op_st, min_size=1, max_size=4).map(lambda l: l),
    st.builds(lambda l, e, at: l[: at % (len(l) + 1)] + e + l[at % (len(l) + 1) :], st.lists(_feed_op_st, min_size=0, max_size=3), _ending_st, st.integers(0, 3)),
)

# history of the channel BEFORE the first fileno() (sequential: the descriptor does not exist yet): feeds, reads - a stream may
# have been filled and drained, partly or completely, any number of times -, combine, EOF, CLOSE
_pre_feed = st.one_of(st.tuples(st.just("out"), feed_size_st), st.tuples(st.just("err"), feed_size_st))
_pre_read = st.one_of(_recv_nb, _recv_err_nb)
pre_op_st = st.one_of(
    _pre_feed, _pre_feed.map(lambda v: v), _pre_feed.map(lambda v: (v)),
    _pre_read, _pre_read.map(lambda v: v), _pre_read.map(lambda v: (v)),
    st.sampled_from([("combine", True), ("combine", True), ("combine", False)]),  # set_combine_stderr: True moves what stderr holds into stdout
    st.sampled_from([("eof",), ("pclose",)]),
)
# second shape: 1-2 x (message, read | combine) - fill / drain cycles
_pre_cycles = st.lists(st.tuples(_pre_feed, st.one_of(_pre_read, _pre_read.map(lambda v: v), st.sampled_from([("combine", True), ("combine", False)]))), min_size=1, max_size=2).map(lambda l: [op for pair in l for op in pair])
pre_st = st.one_of(st.just([]), st.lists(pre_op_st, max_size=5), _pre_cycles)

start_st = st.fixed_dictionaries(
    {
        "out": st.sampled_from([0, 0, 0, 1, 2, 3]),
        "err": st.sampled_from([0, 0, 0, 1, 2, 3]),
        "eof": st.sampled_from([False, False, False, False, False, True]),
        "closed": st.sampled_from([False, False, False, False, False, False, False, True]),
        "combine": st.sampled_from([False, False, False, True]),
    }
)

def _place_fileno(d):
    """Where the FIRST fileno() call happens: "seq" = sequentially after the pre-history, before the tasks start (the descriptor
    exists when the concurrency begins); "task" = inside the concurrent part, as an operation of an application task (an existing
    one, at a generated position, or a task of its own) - other threads may be in the middle of an operation, or parked in a
    blocking read, when the descriptor comes into being."""
    at = d.pop("fileno_at")
    tasks = [list(t) for t in d["tasks"]]
    if at is None:
        d["first_fileno"] = "seq"
    else:
        a, b = at
        napps = len(tasks) - 1
        slot = a % (napps + 1)
        if slot == napps and napps < 3:
            tasks.append([("fileno",)])
        else:
            t = tasks[1 + slot % napps]
            t.insert(b % (len(t) + 1), ("fileno",))
        d["first_fileno"] = "task"
    d["tasks"] = tasks
    return d


case_st = st.fixed_dictionaries(
    {
        "start": start_st,
        "pre": pre_st,
        "tasks": st.builds(
            lambda peer, apps: [peer] + apps,
            peer_task_st,
            st.lists(st.lists(app_op_st, min_size=1, max_size=3), min_size=1, max_size=2),
        ),
        "fileno_at": st.one_of(st.none(), st.tuples(st.integers(0, 5), st.integers(0, 3))),
        "sched": S.schedule_strategy(max_pre=3, max_gap=80, max_forced=10, max_hot=2, hot_range=14),
    }
).map(_place_fileno)

CRITICAL = {("pipe.py", "set"), ("pipe.py", "clear"), ("pipe.py", "set_forever")}


def in_critical(tag):
    return tag[0] == "line" and (tag[1], tag[2]) in CRITICAL


class _ThreadingShim:
    """``threading`` for paramiko.pipe: locks created while the bench runs (make_or_pipe gives the two OrPipe halves a shared
    one) are cooperative from birth - the first fileno() may run inside a task, concurrently with users of those locks."""

    def __init__(self, sched):
        self._s = sched
        self._n = 0

    def __getattr__(self, name):
        import threading

        return getattr(threading, name)

    def Lock(self):
        self._n += 1
        return self._s.Lock("pipe.lock%d" % self._n)


def _bit(obj, attr):
    """'0'/'1' for a private flag used only to NAME the layer in a bucket; '?' when it cannot be observed."""
    if obj is None:
        return "0"
    try:
        return "1" if getattr(obj, attr) else "0"
    except AttributeError:
        return "?"


class Bench:
    def __init__(self, strategy, trace="lines"):
        import paramiko.pipe as PP
        import paramiko.buffered_pipe as BP

        self.PP = PP
        tf = {PP.__file__: None, BP.__file__: None} if trace == "lines" else None
        self.s = S.Scheduler(strategy, trace_files=tf, max_steps=20000)
        self.ft = CB.FakeTransport(self.s)
        self.chan = CB.make_channel(self.s, self.ft, chanid=1, remote_chanid=7)
        self.chan.settimeout(0.0)
        self.fd = None
        self.fds = []  # every descriptor fileno() ever returned (closed in cleanup through the channel's pipe)
        self.checks = []  # (where, readable, n_out, n_err, eof, closed, flags, zero-length feeds delivered so far)
        self.zero_feeds = 0
        self.pre_classes = set()
        self.classes = set()
        self.extra_viol = []
        self.first_concurrent = False  # the first fileno() ran while another task was inside an operation / parked in a read
        self.combine_at_fileno = None
        self.inop = []
        self.parked_forever = False
        self._saved = []

    # -- patching of paramiko.pipe's view of threading (whole bench) ---------------------
    def __enter__(self):
        PP = self.PP
        if hasattr(PP, "threading"):
            self._saved.append(("threading", PP.threading))
            PP.threading = _ThreadingShim(self.s)
        return self

    def __exit__(self, *a):
        for name, old in self._saved:
            setattr(self.PP, name, old)
        self._saved = []
        self.cleanup()

    def start(self, st_, pre=(), first_fileno="seq"):
        ft, chan = self.ft, self.chan
        if st_["combine"]:
            chan.set_combine_stderr(True)
        if st_["out"]:
            ft.deliver(CB.MSG_CHANNEL_DATA, 1, bytes(range(100, 100 + st_["out"])))
        if st_["err"]:
            ft.deliver(CB.MSG_CHANNEL_EXTENDED_DATA, 1, 1, bytes(range(200, 200 + st_["err"])))
        if st_["eof"]:
            ft.deliver(CB.MSG_CHANNEL_EOF, 1)
        if st_["closed"]:
            ft.deliver(CB.MSG_CHANNEL_CLOSE, 1)
        # the generated history before the first fileno(), through the same handlers / public calls as afterwards
        fed = {"out": 0, "err": 0}
        counter = [7]
        for op in pre:
            op = tuple(op)
            if op[0] in ("recv", "recv_err") and len(op) > 2 and op[2] != 0.0:
                raise HarnessError("the sequential history before fileno() cannot hold blocking reads: %r" % (op,))
            self.do(op, counter)
            if op[0] in fed:
                fed[op[0]] += op[1]
        if pre:
            self.pre_classes.add("pre-fileno-history")
            if any(tuple(op)[0] in ("recv", "recv_err") for op in pre):
                self.pre_classes.add("pre-fileno-history-with-reads")
            for k, ready in (("out", chan.recv_ready()), ("err", chan.recv_stderr_ready())):
                if fed[k] and not ready and not st_[k] and not (st_["combine"] or any(tuple(op)[0] == "combine" for op in pre)):
                    self.pre_classes.add("stream-filled-and-drained-before-fileno")
        if first_fileno == "seq":
            self.call_fileno()

    # -- fileno() ----------------------------------------------------------------------------
    def call_fileno(self, ti=None):
        chan = self.chan
        first = self.fd is None and not self.fds
        if first:
            self.combine_at_fileno = bool(chan.combine_stderr)
            self.classes.add("first-fileno-while-combined" if self.combine_at_fileno else "first-fileno-while-separate")
            if ti is not None:
                self.classes.add("first-fileno-in-task")
                for tj, busy in enumerate(self.inop):
                    if tj == ti or not busy:
                        continue
                    self.first_concurrent = True
                    self.classes.add("first-fileno-while-reader-parked" if self.parked_in_read(tj) else "first-fileno-while-other-op-in-progress")
        else:
            self.classes.add("repeated-fileno")
        fd = chan.fileno()
        if self.fds and fd != self.fds[-1]:
            # "its descriptor": a later call handing out another descriptor leaves select() users on the earlier one behind
            self.extra_viol.append(("descriptor-changed", "second-fileno-returns-another-descriptor", "fileno() returned %r, then %r" % (self.fds[-1], fd)))
        self.fds.append(fd)
        self.fd = fd
        # forward compatibility: locks on the pipe objects that were not created through paramiko.pipe's ``threading`` become
        # cooperative as well (no yield point between fileno() returning and this)
        memo = {}
        for name, o in (("orpipe1.", getattr(chan.in_buffer, "_event", None)), ("orpipe2.", getattr(chan.in_stderr_buffer, "_event", None)), ("pipe.", getattr(chan, "_pipe", None))):
            if o is not None and hasattr(o, "__dict__"):
                S.coopify(self.s, o, memo, prefix=name)

    def parked_in_read(self, tj):
        """Task tj is parked inside BufferedPipe.read's Condition.wait (its lock released, nothing half-done)."""
        t = self.s.tasks[tj]
        r = t.reason
        return t.state == "blocked" and isinstance(r, tuple) and len(r) == 2 and r[0] == "cond" and "_buffer." in str(r[1])

    def quiescent(self):
        return all((not busy) or self.parked_in_read(tj) for tj, busy in enumerate(self.inop))

    def pending(self):
        """(n_out, n_err) - buffer lengths, for the verdict.  Read without taking the buffer locks (a lock operation is a switch
        point); when the attribute is gone, through the public recv_ready()/recv_stderr_ready(), and the check is dropped if
        another task got to run meanwhile."""
        chan = self.chan
        try:
            return len(chan.in_buffer._buffer), len(chan.in_stderr_buffer._buffer)
        except AttributeError:
            pass
        before = len(self.s.res.switches)
        n_out = 1 if chan.recv_ready() else 0
        n_err = 1 if chan.recv_stderr_ready() else 0
        if len(self.s.res.switches) != before or not self.quiescent():
            return None
        return n_out, n_err

    def check(self, where):
        chan = self.chan
        if self.fd is None:
            return  # the statement starts with the first fileno()
        pend = self.pending()
        if pend is None:
            return
        n_out, n_err = pend
        readable = bool(select.select([self.fd], [], [], 0)[0])
        pipe = getattr(chan, "_pipe", None)
        flags = "p1=%s,p2=%s,pipe=%s,forever=%s" % (
            _bit(getattr(chan.in_buffer, "_event", None), "_set"),
            _bit(getattr(chan.in_stderr_buffer, "_event", None), "_set"),
            "?" if pipe is None else _bit(pipe, "_set"),
            "?" if pipe is None else _bit(pipe, "_forever"),
        )
        self.checks.append((where, readable, n_out, n_err, bool(chan.eof_received), bool(chan.closed), flags, self.zero_feeds))

    def do(self, op, counter, ti=None):
        ft, chan = self.ft, self.chan
        k = op[0]
        if k == "out":
            b = bytes((counter[0] + i) % 256 for i in range(op[1]))
            counter[0] += op[1]
            if not b:
                self.zero_feeds += 1
            ft.deliver(CB.MSG_CHANNEL_DATA, 1, b)
        elif k == "err":
            b = bytes((counter[0] + i) % 256 for i in range(op[1]))
            counter[0] += op[1]
            if not b:
                self.zero_feeds += 1
            ft.deliver(CB.MSG_CHANNEL_EXTENDED_DATA, 1, 1, b)
        elif k in ("recv", "recv_err"):
            tmo = op[2] if len(op) > 2 else 0.0
            if tmo != 0.0:
                self.classes.add("blocking-read" if tmo is None else "timed-read")
                if self.fd is None:
                    self.classes.add("blocking-read-started-before-first-fileno")
            # the channel timeout in force for THIS read (no switch point between the two calls: channel.py is not traced and
            # the timeout is evaluated before BufferedPipe.read is entered)
            chan.settimeout(tmo)
            try:
                (chan.recv if k == "recv" else chan.recv_stderr)(op[1])
            except socket.timeout:
                pass
        elif k == "eof":
            ft.deliver(CB.MSG_CHANNEL_EOF, 1)
        elif k == "pclose":
            ft.deliver(CB.MSG_CHANNEL_CLOSE, 1)
        elif k == "combine":
            on = bool(op[1]) if len(op) > 1 else True
            was = bool(chan.combine_stderr)
            chan.set_combine_stderr(on)
            if self.fds and was != on:
                self.classes.add("combine-switched-%s-after-fileno" % ("on" if on else "off"))
                if self.combine_at_fileno is not None and on != self.combine_at_fileno:
                    self.classes.add("combine-differs-from-setting-at-first-fileno")
        elif k == "fileno":
            self.call_fileno(ti)
        else:
            raise HarnessError("bad op %r" % (op,))

    def run(self, tasks):
        s = self.s
        for ti, ops in enumerate(tasks):
            for op in ops:
                if (op[0] in PEER_OPS) != (ti == 0):
                    raise HarnessError("task 0 is the transport thread (peer messages only), other tasks are applications: %r" % (tasks,))
        inop = self.inop = [False] * len(tasks)

        def mk(ti, ops):
            def body():
                counter = [1 + 50 * ti]
                for oi, op in enumerate(ops):
                    inop[ti] = True
                    self.do(op, counter, ti)
                    inop[ti] = False
                    if self.quiescent():
                        self.check("after t%d.%d" % (ti, oi))

            return body

        for ti, ops in enumerate(tasks):
            s.spawn("t%d" % ti, mk(ti, ops))
        PP = self.PP
        real_os = PP.os
        PP.os = CB.pipe_os_shim(s)
        try:
            with S.patch_time(s, *CB.chan_time_modules()):
                res = s.run()
        finally:
            PP.os = real_os
        self.parked_forever = False
        if res.outcome == "deadlock" and self.benign_deadlock(res):
            # every unfinished task is a reader blocked (no timeout) on an open stream that holds nothing: that is what a
            # blocking recv does; nothing is half-done, the state is quiescent
            self.parked_forever = True
            self.classes.add("reader-parked-forever")
        if res.outcome == "ok" or self.parked_forever:
            # after any other deadlock/abort some task is parked in the middle of an operation: not quiescent
            self.check("final")
        return res

    def benign_deadlock(self, res):
        chan = self.chan
        pend = None
        try:
            pend = {"in_buffer": len(chan.in_buffer._buffer), "in_stderr_buffer": len(chan.in_stderr_buffer._buffer)}
        except AttributeError:
            return False
        if not res.waits or chan.eof_received or chan.closed:
            return False
        for name, w in res.waits.items():
            if not (isinstance(w, tuple) and len(w) == 2 and w[0] == "cond"):
                return False
            which = [k for k in ("in_stderr_buffer", "in_buffer") if ("." + k + ".") in str(w[1])]
            if not which or pend[which[0]]:
                return False
        return True

    def cleanup(self):
        p = getattr(self.chan, "_pipe", None)
        if p is not None and not getattr(p, "_closed", False):
            try:
                p.close()
            except OSError:
                pass
        try:
            self.chan._pipe = None
        except AttributeError:
            pass


def judge(bench, res):
    viol = list(bench.extra_viol)
    classes = set()
    crit = res.switched_in(in_critical, preempt_only=False)
    # a violation without any task switch inside the pipe operations is not a race between them
    seq = "" if crit else ":no-switch-inside-pipe-ops"
    for where, readable, n_out, n_err, eof, closed, flags, zero_feeds in bench.checks:
        pending = []
        if n_out:
            pending.append("stdout-data")
        if n_err:
            pending.append("stderr-data")
        if eof:
            pending.append("eof")
        if closed:
            pending.append("closed")
        should = bool(pending)
        p1, p2, pp, forever = [x.endswith("1") for x in flags.split(",")]
        blind = "?" in flags.split(",", 2)[2]  # the pipe's own flags cannot be observed: name no layer
        # bucket = the layer whose bookkeeping is inconsistent (root cause), not the symptom
        if readable and not should:
            if blind:
                layer = "layer-unobservable"
            elif not (pp or forever):
                layer = "posixpipe-flag-clear-but-fd-readable"
            elif p1 or p2:
                # a zero-length DATA / EXTENDED_DATA message was delivered earlier in this case: own bucket (it carries no data)
                layer = "buffer-event-set-without-data"
            else:
                layer = "orpipe-halves-clear-but-pipe-set"
            if layer == "buffer-event-set-without-data" and zero_feeds:
                # a zero-length DATA / EXTENDED_DATA message was delivered earlier in this case: own bucket, and - not being a
                # race - the same one whatever the schedule did
                viol.append(("readable-with-nothing-pending", "buffer-event-set-after-zero-length-feed", "%s: descriptor readable, buffers empty, no eof/close, %d zero-length DATA/EXTENDED_DATA message(s) delivered before (%s)" % (where, zero_feeds, flags)))
            else:
                viol.append(("readable-with-nothing-pending", layer + seq, "%s: descriptor readable, buffers empty, no eof/close (%s)" % (where, flags)))
        elif should and not readable:
            if blind:
                layer = "layer-unobservable:" + "+".join(pending)
            elif pp or forever:
                layer = "posixpipe-flag-set-but-fd-empty"
            elif p1 or p2:
                layer = "orpipe-half-set-but-pipe-clear"
            else:
                layer = "no-buffer-event-set:" + "+".join(pending)
            viol.append(("unreadable-with-pending", layer + seq, "%s: descriptor NOT readable although %s (%s)" % (where, "+".join(pending), flags)))
        classes.add("checked-readable" if readable else "checked-unreadable")
    if res.outcome == "deadlock":
        if not bench.parked_forever:
            kinds = sorted(set(w[0] if isinstance(w, tuple) else str(w) for w in res.waits.values()))
            if "os.read" in kinds:
                bucket = "blocked-in-PosixPipe.clear-os.read"
            else:
                bucket = "+".join(kinds)
            viol.append(("deadlock", bucket, "waits=%r" % (res.waits,)))
    elif res.outcome == "budget":
        viol.append(("no-termination", "step-budget", "waits=%r" % (res.waits,)))
    elif res.outcome != "ok":
        raise HarnessError("outcome %r" % res.outcome)
    for name, info in res.tasks.items():
        if info.exc is not None:
            viol.append(("operation-raised", "%s" % type(info.exc).__name__, "%s: %s" % (name, info.tb)))
    if crit:
        classes.add("switch-inside-pipe-set/clear")
    if res.switched_in(lambda tag: tag[0] == "line" and tag[1] == "buffered_pipe.py", preempt_only=False):
        classes.add("switch-inside-buffered_pipe")
    classes.add("quiescent-checks=%d" % min(len(bench.checks), 4))
    classes.update(bench.pre_classes)
    classes.update(bench.classes)
    if bench.zero_feeds:
        classes.add("zero-length-feed")
    return viol, classes, (crit > 0 or bench.first_concurrent)


def execute(ctx, case, strategy=None, trace="lines", extra_classes=()):
    strat = strategy if strategy is not None else S.strategy_from_case(case["sched"], in_critical)
    first = case.get("first_fileno") or "seq"
    tasks = [[tuple(op) for op in t] for t in case["tasks"]]
    if first == "task" and not any(op[0] == "fileno" for t in tasks[1:] for op in t):
        raise HarnessError("first_fileno=task but no application task calls fileno(): %r" % (tasks,))
    with Bench(strat, trace=case.get("trace", trace)) as b:
        b.start(case["start"], case.get("pre") or (), first)
        res = b.run(tasks)
        viol, classes, nontrivial = judge(b, res)
    if strategy is not None and isinstance(strategy, S.DFSStrategy):
        case = dict(case)
        case["sched"] = {"dfs": [t[2] for t in strategy.trace]}
    ctx.case(case, nontrivial, sorted(classes) + list(extra_classes))
    seen = set()
    for clause, bucket, detail in viol:
        if (clause, bucket) in seen:
            continue
        seen.add((clause, bucket))
        ctx.violation(clause, bucket, case, detail)
    return res


# ----------------------------------------------------------------------------- enumeration

DFS_PEER = [[("out", 1)], [("err", 1)], [("eof",)], [("err", 1), ("out", 1)], [("out", 1), ("err", 1)]]
DFS_APP = [[("recv", 4)], [("recv_err", 4)], [("combine",)], [("recv", 4), ("recv_err", 4)]]
DFS_STARTS = [
    {"out": 0, "err": 0, "eof": False, "closed": False, "combine": False, "pre": [("out", 1), ("recv", 4)]},  # filled and drained before fileno()
    {"out": 0, "err": 0, "eof": False, "closed": False, "combine": False},
    {"out": 1, "err": 0, "eof": False, "closed": False, "combine": False},
    {"out": 0, "err": 1, "eof": False, "closed": False, "combine": False},
    {"out": 1, "err": 1, "eof": False, "closed": False, "combine": False},
]


def dfs_programs():
    progs = []
    for st_ in DFS_STARTS:
        for a in DFS_PEER:
            for b in DFS_APP:
                progs.append({"start": {k: v for k, v in st_.items() if k != "pre"}, "pre": [list(o) for o in st_.get("pre", ())], "tasks": [a, b]})
    return progs


_EMPTY = {"out": 0, "err": 0, "eof": False, "closed": False, "combine": False}
# round 4 families (small enough to be enumerated in the quick tier as well)
# (a) combine_stderr differs between the first fileno() and the traffic: first fileno() while combined, an application switches
#     the combination off (or: first fileno() while separate, switched on) while the transport delivers
DFS_COMBINE_APP = [[("combine", False)], [("combine", False), ("recv_err", 16)], [("combine", True)], [("combine", True), ("recv", 16)]]
# (b) the first fileno() is made by one application thread while another one is parked in a blocking read and the transport
#     delivers: three tasks
DFS_READER = [[("recv", 16, None)], [("recv_err", 16, None)], [("recv", 16, 5.0)], [("recv", 1, None)]]
DFS_FILENO = [[("fileno",)], [("fileno",), ("recv_err", 16)]]


def dfs_combine_programs():
    progs = []
    for b in DFS_COMBINE_APP:
        on = bool(b[0][1])
        for a in DFS_PEER:
            progs.append({"start": dict(_EMPTY, combine=not on), "pre": [], "tasks": [a, b]})
    return progs


def dfs_first_fileno_programs():
    progs = []
    for r in DFS_READER:
        for f in DFS_FILENO:
            for a in DFS_PEER:
                progs.append({"start": dict(_EMPTY), "pre": [], "tasks": [a, r, f], "first_fileno": "task"})
    return progs


def run_dfs(ctx, programs, k, trace, limit, label):
    complete = True
    for prog in programs:
        if ctx.out_of_time():
            complete = False
            break

        def one(strategy, prog=prog):
            case = {"start": prog["start"], "pre": prog.get("pre", []), "tasks": prog["tasks"], "first_fileno": prog.get("first_fileno", "seq"), "sched": None, "trace": trace}
            execute(ctx, case, strategy=strategy, trace=trace, extra_classes=("dfs-" + label,))

        gen = S.enumerate_schedules(one, k, limit=limit)
        n = 0
        while True:
            try:
                next(gen)
                n += 1
            except StopIteration as e:
                if not e.value:
                    complete = False
                    ctx.inconc("dfs-program-truncated-" + label)
                break
        ctx.count("dfs-programs-" + label)
    return complete


def run(ctx):
    ctx.set_budget(60, 840)
    ctx.assume("switching granularity: source lines of pipe.py/buffered_pipe.py and lock operations (not bytecodes)")
    ctx.explore(case_st, lambda c: execute(ctx, c), ctx.scale(3500, 30000))
    progs = dfs_programs()
    cprogs = dfs_combine_programs()
    fprogs = dfs_first_fileno_programs()
    if ctx.tier == "thorough":
        mine = progs[ctx.worker :: ctx.nworkers]
        ok1 = run_dfs(ctx, mine, 3, "locks", 500000, "k3-locks")
        ok2 = run_dfs(ctx, mine, 2, "lines", 500000, "k2-lines")
        ok3 = run_dfs(ctx, cprogs[ctx.worker :: ctx.nworkers], 2, "lines", 500000, "combine-k2-lines")
        ok4 = run_dfs(ctx, fprogs[ctx.worker :: ctx.nworkers], 1, "lines", 500000, "first-fileno-k1-lines")
        ctx.exhaustive = bool(ok1 and ok2 and ok3 and ok4)
        ctx.note("dfs_domain", "%d programs (5 start states, one of them filled and drained before fileno(), x 5 transport-thread programs x 4 application programs of 1-2 ops): all schedules with <=3 preemptions at lock-level switch points and <=2 preemptions at line-level switch points; %d programs (combine_stderr on/off at the first fileno() x an application switching it the other way [+ a draining read] x 5 transport programs): <=2 line-level preemptions; %d three-task programs (5 transport programs || a blocking/timed reader || the thread making the first fileno() call [+ a read]): <=1 line-level preemption" % (len(progs), len(cprogs), len(fprogs)))
    else:
        step = max(1, len(progs) // 4)
        run_dfs(ctx, progs[(ctx.seed % step) :: step][:4], 1, "lines", 300, "k1-lines")
        # the two round-4 families completely, without preemptions (every order in which the tasks can take turns at their
        # blocking points and ends), plus a seed-dependent quarter of them with one line-level preemption
        run_dfs(ctx, cprogs, 0, "lines", 300, "combine-k0")
        run_dfs(ctx, fprogs, 0, "lines", 300, "first-fileno-k0")
        run_dfs(ctx, cprogs[(ctx.seed % 4) :: 4], 1, "lines", 150, "combine-k1-lines")
        run_dfs(ctx, fprogs[(ctx.seed % 8) :: 8], 1, "lines", 150, "first-fileno-k1-lines")


def replay(ctx, case):
    execute(ctx, case)
