"""C29 - SFTP bulk transfers are exact or fail loudly.

Engine: E5 (production SFTPServer + SFTPClient over a socketpair) with a fault plan: the
k-th WRITE (or READ) request of the session is answered with an SFTP error status
(writes: codes 1..8; reads: codes 2..8) or, for reads, with fewer bytes than requested
("short"). k == -1 means "every request". Operations: put (local path), putfo (file
object, optionally a source that returns short local reads), get (local path), getfo,
and "pwrite" = SFTPFile opened for writing, set_pipelined(True/False), write()s, close().
Interleaved requests (the application is single-threaded): the progress callback of put / putfo / get / getfo may be
a callback that issues requests of its own on the same SFTPClient ("cbreq": the i-th invocation issues
cbreq[i mod len]: stat / lstat / listdir / stat of the transfer's own remote file / open+close of another file /
nothing), and a pwrite program may issue such requests between its write()s ("between", same alphabet plus
set_pipelined(False/True) switches).  Whoever waits for its own reply reads the replies queued before it - those of
the transfer's pipelined writes and prefetched reads included.
History on one file object (round 3): the "between" alphabet of a pwrite program also has the non-write operations
of the SFTPFile itself - stat(), seek(0, SEEK_END), the size idiom (tell / seek to the end / tell / seek back),
seek(0, SEEK_CUR), seek(tell()), tell(), flush(), chmod(), utime(), truncate(tell()) - all of which leave the bytes
and the position of a fault-free upload untouched, so the oracle is unchanged.
Reply order (round 3): SFTP lets a server answer outstanding requests in any order.  A case may carry "reorder", a
list of holds [k, d]: the k-th reply of the session (k = "fault": the reply to the request the fault plan hit) is held
back by the server and delivered after d later replies have gone out - or, like any reply a real server owes, when the
server has nothing else to do (no request arrives for REORDER_GRACE_S).  Only the ORDER of complete reply packets
changes; every reply is delivered (see ReorderChan).
Announced size (round 4): every transfer is told a size in advance - putfo's file_size argument ("hint"), the
length put() finds when it stats the local file, the length the server's STAT reports to get() / getfo() - and that
size need not be the length of the source: "hint" = any file_size (0, 1, a byte / a chunk short or over, a fraction,
chunk boundaries, far too large); "src0" = the length the source has when it is stat'ed: a served file has its real
content from the transfer's OPEN on (change_at -1: STAT lagging behind or ahead of a file that then keeps still), or is
appended to when its change_at-th READ is served; a local file is appended to in put()'s change_at-th progress callback.
Files only shrink before their first read (the bytes a read of a shrinking file returns are not defined).

Oracle (the statement, nothing more):
  * the call returns  =>  destination bytes == source bytes; put/putfo with confirm return
    attributes whose st_size is the source length; getfo returns the source length;
    "the source bytes" of a source that was appended to WHILE it was copied are its content before or after the append
    (either is exact); of one that changed before its first read was served, its content since then;
  * otherwise it raised (any exception type) - accepted;
  * pwrite: if the server rejected a write, some call up to and including close() raised;
  * a call that neither returns nor raises is reported as "blocks": proven deadlock (both ends
    parked in recv on a drained link) or 30 s without any traffic on the link, three times in a
    row (the channel is closed to release it);
  * sanity against vacuity: without a fault that was actually hit, the transfer must succeed (a transfer whose
    source changed under it may raise: counted, never seen on the unchanged tree).
SFTP_EOF is not used as a read fault: an EOF status is the protocol's way of saying
"the file ends here", so a shorter result is then the honest answer (recorded assumption).
"""
import hashlib
import io
import os
import shutil
import threading
import time

from hypothesis import strategies as st

from vlib import sftpwatch as W

PROPERTY = "C29"
LEVEL = "fault_enumeration"
THOROUGH_WORKERS = 16
RULE = (
    "cases = (operation put/putfo/get/getfo/pwrite, size 0..1 MiB dense at multiples of 32768 and 8192 +-1, "
    "confirm, callback (none | recording | issuing requests of its own on the same client at generated invocations: stat, lstat, listdir, "
    "stat of the transfer's remote file, open+close of another file), pwrite: such requests, set_pipelined switches and the file object's own "
    "non-write operations (stat, seek to the end, size idiom, seek cur/set, tell, flush, chmod, utime, truncate at the position) between the write()s, "
    "reply order = in request order | generated holds (k-th reply, or the reply to the faulted request, delivered after d later replies / when the server is idle), "
    "announced size = the source's length | another one (putfo file_size argument 0 / 1 / a byte or a chunk off / a fraction / chunk boundaries / up to 3 chunks "
    "past the end / 2**31 .. 2**63-1; get, getfo: the served file has that length when STAT is answered and its real content from the OPEN on, or is appended "
    "to when its k-th READ is served; put: the local file is appended to in the k-th progress callback), "
    "prefetch, max_concurrent_prefetch_requests, short local source reads, fault plan = "
    "k-th WRITE/READ request (or every request) answered with SFTP error code 1..8 (reads: 2..8) or a short read); "
    "hypothesis-sampled, plus an enumeration of every single failing chunk position x every code for files of 1..N "
    "chunks (N=3 quick, 8 thorough, sharded over the workers), each position also with the faulted reply overtaken by 1..N later replies and "
    "with one file operation after each write(); and fault-free transfers of 1..M chunk files (M=2 quick, 5 thorough) under every announced size in "
    "{0, 1, half, length-1, length+1, every chunk boundary up to 2 chunks past the end} as putfo argument, as lagging STAT for get / getfo with and without "
    "prefetch, and as the length of a local / served file that is appended to during put / getfo. non-trivial = the fault plan was actually hit "
    "(server log shows the faulted request) or the announced size really differed from the source's length; distinct = SHA-1 of the case"
)

CHUNK = 32768
WRITE_CODES = [1, 2, 3, 4, 5, 6, 7, 8]
READ_CODES = [2, 3, 4, 5, 6, 7, 8]
BOUND_S = 30.0

SIG_DROPPED = ("rejected-write-not-reported", "pipelined-write-status-dropped")
SIG_CONSUMED = ("rejected-write-not-reported", "reply-read-by-interleaved-request")

# requests a progress callback / the application issues on the same client while a transfer is under way
CB_KINDS = ["none", "stat", "lstat", "listdir", "statself", "openclose"]
# non-write operations of the SFTPFile being written (they keep content and position of a fault-free upload)
FILE_OPS = ["fstat", "seek_end", "sizeidiom", "seek_cur0", "seek_set", "tell", "flush", "fchmod", "futime", "ftruncate"]
BETWEEN_KINDS = CB_KINDS + ["setpipe0", "setpipe1"] + FILE_OPS
# a held reply is delivered at the latest when no request has arrived for this long (the client is waiting)
REORDER_GRACE_S = 0.03


def _content(seed, size):
    if size == 0:
        return b""
    return hashlib.shake_256(b"c29:%d" % seed).digest(size)


def _state0(src, seed, src0):
    """Content of a source while it has its ANNOUNCED length src0: a prefix of the real content, or the real content
    followed by bytes that are gone again before the first read."""
    if src0 <= len(src):
        return src[:src0]
    return src + hashlib.shake_256(b"c29-gone:%d" % seed).digest(src0 - len(src))


class Plan:
    """fault = None | [dir, k, kind, arg]; dir "w"/"r"; kind "error"/"short"."""

    def __init__(self, fault):
        self.fault = fault
        self.hits = 0
        self.on_hit = None  # called (in the server thread) when a request is faulted, before its reply is sent
        # a served source whose length is not the announced one: change(), run once in the server thread, gives the file
        # its real content - when the transfer OPENs it (change_at == -1) or when its change_at-th READ is about to be served
        self.change = None
        self.change_at = None
        self.change_path = None
        self.changed = False

    def _change(self):
        if self.change is not None and not self.changed:
            self.changed = True
            self.change()

    def on_call(self, where, op, n, args):
        if where == "iface" and op == "open" and self.change_at == -1 and args and args[0] == self.change_path:
            self._change()
        return None

    def _act(self, d, n):
        f = self.fault
        if f is None or f[0] != d:
            return None
        if f[1] != -1 and f[1] != n:
            return None
        self.hits += 1
        if self.on_hit is not None:
            self.on_hit()
        return (f[2], f[3])

    def on_write(self, handle, n, offset, data):
        return self._act("w", n)

    def on_read(self, handle, n, offset, length):
        if self.change_at is not None and self.change_at >= 0 and n >= self.change_at:
            self._change()
        return self._act("r", n)


class ShortSource:
    """Local source file object whose read() returns at most `m` bytes per call."""

    def __init__(self, data, m):
        self._b = io.BytesIO(data)
        self._m = m

    def read(self, n=-1):
        if n is None or n < 0:
            n = self._m
        return self._b.read(min(n, self._m))


def _reorder_chan_class():
    import select
    import struct

    from vlib.sftpenv import ChanLike

    class ReorderChan(ChanLike):
        """Server end of the link for a server that answers out of order.  The production SFTPServer still PROCESSES
        the requests one after the other; this layer cuts its output into SFTP packets (uint32 length + body) and
        delivers some of them later than it was handed them.  holds: {reply index: d}; fault_d: d for the reply that
        follows `mark_fault()`.  A held reply goes out after d later replies went out, or as soon as the server finds
        nothing to read for `grace` seconds (every request is answered without the client having to do anything)."""

        def _setup(self, holds, fault_d, grace):
            self._holds = dict(holds)
            self._fault_d = fault_d
            self._grace = grace
            self._mark = False
            self._n = 0
            self._held = []  # [packet, replies still to let pass, reply index, overtaken by, is fault reply]
            self._buf = b""
            self.order_log = []  # (reply index, overtaken by n later replies, "count"/"idle", is fault reply)

        def mark_fault(self):
            self._mark = True

        def send(self, data):
            self._buf += data
            self.sent += len(data)
            while len(self._buf) >= 4:
                (n,) = struct.unpack(">I", self._buf[:4])
                if len(self._buf) < 4 + n:
                    break
                pkt, self._buf = self._buf[: 4 + n], self._buf[4 + n :]
                self._reply(pkt)
            return len(data)

        def sendall(self, data):
            self.send(data)

        def _reply(self, pkt):
            i = self._n
            self._n += 1
            d = self._holds.get(i)
            fault = self._mark
            self._mark = False
            if fault and self._fault_d:
                d = self._fault_d
            if d:
                self._held.append([pkt, d, i, 0, fault])
                return
            self._s.sendall(pkt)
            for h in self._held:
                h[1] -= 1
                h[3] += 1
            due = [h for h in self._held if h[1] <= 0]
            self._held = [h for h in self._held if h[1] > 0]
            for h in due:
                # (logged first: the client may end the session while this is on its way)
                self.order_log.append((h[2], h[3], "count", h[4]))
                self._s.sendall(h[0])

        def _flush(self):
            held, self._held = self._held, []
            for h in held:
                self.order_log.append((h[2], h[3], "idle", h[4]))
                self._s.sendall(h[0])

        def recv(self, n):
            if self._held:
                try:
                    r, _, _ = select.select([self._s], [], [], self._grace)
                except (OSError, ValueError):
                    r = [1]
                if not r:
                    self._flush()
            return ChanLike.recv(self, n)

    return ReorderChan


_ReorderChan = [None]


def install_reorder(schan, plan, reorder):
    """Turn the server end of a running session into a ReorderChan (only harness objects are touched: the server
    thread is parked in ChanLike.recv of this very object and picks the new methods up with its next call)."""
    if _ReorderChan[0] is None:
        _ReorderChan[0] = _reorder_chan_class()
    cls = _ReorderChan[0]
    holds, fault_d = {}, None
    for k, d in reorder:
        if k == "fault":
            fault_d = int(d)
        else:
            holds[int(k)] = int(d)
    cls._setup(schan, holds, fault_d, REORDER_GRACE_S)
    schan.__class__ = cls
    plan.on_hit = schan.mark_fault
    return schan


_counter = [0]
_scratch_dir = [None]


def scratch(ctx):
    """Directory for the served and local trees: tmpfs when available (every case writes and removes files of up to 1 MiB),
    else ctx.tmpdir().  Removed at interpreter exit."""
    if _scratch_dir[0] is None or not os.path.isdir(_scratch_dir[0]):
        import atexit
        import tempfile

        shm = "/dev/shm"
        if os.path.isdir(shm) and os.access(shm, os.W_OK):
            _scratch_dir[0] = tempfile.mkdtemp(prefix="verif-C29-", dir=shm)
            atexit.register(shutil.rmtree, _scratch_dir[0], True)
        else:
            _scratch_dir[0] = ctx.tmpdir()
    return _scratch_dir[0]


def _norm(case):
    c = {
        "op": case["op"],
        "size": int(case["size"]),
        "seed": int(case.get("seed", 0)),
        "confirm": bool(case.get("confirm", True)),
        "cb": bool(case.get("cb", False)),
        "prefetch": bool(case.get("prefetch", True)),
        "maxreq": case.get("maxreq"),
        "srcread": int(case.get("srcread", 0) or 0),
        "fault": None,
        "chunks": [int(x) for x in case.get("chunks", [])],
        "bufsize": int(case.get("bufsize", -1)),
        "pipelined": bool(case.get("pipelined", True)),
    }
    # (cases of the first generation of this check carry neither key)
    if case.get("cbreq"):
        c["cbreq"] = [str(k) for k in case["cbreq"]]
    if case.get("between"):
        c["between"] = [str(k) for k in case["between"]]
    if case.get("reorder"):
        c["reorder"] = [[k if k == "fault" else int(k), max(1, int(d))] for k, d in case["reorder"]]
    # announced size != real length (round 4): putfo's file_size argument; the length put() / get() / getfo() find when
    # they stat the source, which has its real length only later (see execute)
    if c["op"] == "putfo" and case.get("hint") is not None:
        c["hint"] = max(0, int(case["hint"]))
    if c["op"] in ("put", "get", "getfo") and case.get("src0") is not None:
        src0 = max(0, int(case["src0"]))
        at = int(case.get("change_at", -1 if c["op"] != "put" else 0))
        if c["op"] == "put":
            src0, at = min(src0, c["size"]), max(0, at)  # local files only grow (appends), in a progress callback
        elif src0 > c["size"]:
            at = -1  # a served file gets shorter only before it is opened (reads of a shrinking file have no defined result)
        # ... at the latest with the last callback invocation / READ request the source would see if it never changed
        steps = (src0 + CHUNK - 1) // CHUNK
        at = min(at, max(0, steps - 1) if c["op"] == "put" else steps)
        if src0 != c["size"]:
            c["src0"], c["change_at"] = src0, max(-1, at)
    f = case.get("fault")
    if f is not None:
        c["fault"] = [f[0], int(f[1]), f[2], int(f[3])]
    return c


def execute(ctx, case, _attempt=0):
    from vlib.sftpenv import SftpEnv

    case = _norm(case)
    op = case["op"]
    src = _content(case["seed"], case["size"])
    _counter[0] += 1
    base = os.path.join(scratch(ctx), "c%d" % _counter[0])
    root = os.path.join(base, "root")
    local = os.path.join(base, "local")
    os.makedirs(root)
    os.makedirs(local)
    plan = Plan(case["fault"])
    cb_calls = []
    other = {"n": 0, "kinds": set(), "fileops": set()}  # requests issued by the callback / between the writes
    remote_self = "/src" if op in ("get", "getfo") else "/dst"
    with open(os.path.join(root, "aux"), "wb") as f:
        f.write(b"aux")

    def issue(kind, fobj=None):
        """One interleaved request on the transfer's own client (single-threaded: the caller waits for the reply)."""
        if kind == "none":
            return
        if kind == "setpipe0" or kind == "setpipe1":
            fobj.set_pipelined(kind == "setpipe1")
            other["kinds"].add(kind)
            return
        if kind in FILE_OPS:
            other["fileops"].add(kind)
            if kind == "fstat":
                fobj.stat()
            elif kind == "seek_end":
                fobj.seek(0, fobj.SEEK_END)
            elif kind == "sizeidiom":
                pos = fobj.tell()
                fobj.seek(0, fobj.SEEK_END)
                fobj.tell()
                fobj.seek(pos)
            elif kind == "seek_cur0":
                fobj.seek(0, fobj.SEEK_CUR)
            elif kind == "seek_set":
                fobj.seek(fobj.tell())
            elif kind == "tell":
                fobj.tell()
            elif kind == "flush":
                fobj.flush()
            elif kind == "fchmod":
                fobj.chmod(0o644)
            elif kind == "futime":
                fobj.utime((1000000000, 1000000001))
            elif kind == "ftruncate":
                fobj.truncate(fobj.tell())
            else:
                raise AssertionError(kind)
            return
        other["n"] += 1
        other["kinds"].add(kind)
        if kind == "stat":
            client.stat("/")
        elif kind == "lstat":
            client.lstat("/aux")
        elif kind == "listdir":
            client.listdir("/")
        elif kind == "statself":
            client.stat(remote_self)
        elif kind == "openclose":
            client.open("/aux", "rb").close()
        else:
            raise AssertionError(kind)

    cbreq = case.get("cbreq") or []
    # a source whose length is not the one announced to the transfer
    src0 = case.get("src0")
    state0 = src if src0 is None else _state0(src, case["seed"], src0)
    local_change = {"done": False}

    def callback(a, b):
        i = len(cb_calls)
        cb_calls.append((a, b))
        if op == "put" and src0 is not None and i >= case["change_at"] and not local_change["done"]:
            # the local file is being appended to while it is copied
            local_change["done"] = True
            with open(lpath, "ab") as f:
                f.write(src[src0:])
        if cbreq:
            issue(cbreq[i % len(cbreq)])

    cb = callback if (case["cb"] or cbreq or (op == "put" and src0 is not None)) else None
    between = case.get("between") or []
    env = SftpEnv(root, plan)
    baseline = set(threading.enumerate())
    files = W.track_files(env.client)
    out = io.BytesIO()
    lpath = os.path.join(local, "file")
    client = env.client

    if op in ("get", "getfo"):
        rsrc = os.path.join(root, "src")
        with open(rsrc, "wb") as f:
            f.write(state0)
        if src0 is not None:
            # the server's STAT is answered from the announced length; the file has its real content from the OPEN of
            # the transfer on (change_at -1), or from its change_at-th READ on (a file growing while it is downloaded)
            def change():
                if src0 <= len(src):
                    with open(rsrc, "ab") as f:
                        f.write(src[src0:])
                else:
                    os.truncate(rsrc, len(src))

            plan.change, plan.change_at, plan.change_path = change, case["change_at"], "/src"
    if op == "put":
        with open(lpath, "wb") as f:
            f.write(state0)

    def call():
        if op == "put":
            return client.put(lpath, "/dst", cb, case["confirm"])
        if op == "putfo":
            fl = ShortSource(src, case["srcread"]) if case["srcread"] else io.BytesIO(src)
            return client.putfo(fl, "/dst", case.get("hint", len(src)), cb, case["confirm"])
        if op == "get":
            return client.get("/src", lpath, cb, case["prefetch"], case["maxreq"])
        if op == "getfo":
            return client.getfo("/src", out, cb, case["prefetch"], case["maxreq"])
        if op == "pwrite":
            f = client.open("/dst", "wb", case["bufsize"])
            f.set_pipelined(case["pipelined"])
            try:
                pos = 0
                for i, n in enumerate(case["chunks"]):
                    f.write(src[pos : pos + n])
                    pos += n
                    if between:
                        issue(between[i % len(between)], f)
                f.write(src[pos:])
                if between:
                    issue(between[len(case["chunks"]) % len(between)], f)
            finally:
                f.close()
            return None
        raise AssertionError(op)

    cchan, schan, sth, _server = env._sessions[0]
    reorder = case.get("reorder") or []
    if reorder:
        install_reorder(schan, plan, reorder)
    try:
        # "blocks" = proven deadlock (both ends parked in recv on a drained link) or BOUND_S without return
        proof = W.deadlock_proof(cchan, schan, sth, baseline)
        traffic = {"n": None, "t": time.monotonic()}

        def poll(th):
            why = proof(th)
            if why:
                return why
            n = (cchan.sent, cchan.received)
            now = time.monotonic()
            if n != traffic["n"]:
                traffic["n"], traffic["t"] = n, now  # still moving data: slow is not blocked
            elif now - traffic["t"] > BOUND_S:
                return "no return and no traffic on the link for %.0f s" % BOUND_S
            return None

        status, value, g = W.run_guarded(call, 40 * BOUND_S, poll)
        if status == "stuck":
            where = W.where(g.thread)
            env.client_chan.close()
            g.join(10)
        left = W.settle(files, baseline)
    finally:
        env.close()
        for f in files:
            f._closed = True  # the session is over: nothing left for __del__ to flush or close
    if left or env.threads_alive():
        ctx.inconc("harness:thread-left-behind")
    if status == "stuck" and not str(value).startswith("deadlock proven") and _attempt < 2:
        # verdict by the clock only: must show three times in a row (retry rule)
        shutil.rmtree(base, ignore_errors=True)
        return execute(ctx, case, _attempt + 1)
    if status != "stuck" and _attempt > 0:
        ctx.inconc("transfer-block-not-reproduced")

    hit = plan.hits > 0
    fkind = "none" if case["fault"] is None else "%s-%s" % (case["fault"][0], case["fault"][2])
    classes = ["op:" + op, "fault:" + fkind, "outcome:" + {"ok": "returned", "exc": "raised", "stuck": "blocked"}[status]]
    if hit:
        classes.append("hit:" + fkind)
    if case["fault"] is not None and case["fault"][2] == "error" and hit:
        classes.append("code:%d" % case["fault"][3])
    if cbreq:
        classes.append("callback:issues-requests")
    elif case["cb"]:
        classes.append("callback:records")
    classes.extend("interleaved:" + k for k in sorted(other["kinds"]))
    if other["n"]:
        classes.append("interleaved-requests:" + ("callback" if cbreq else "between-writes"))
        if hit:
            classes.append("fault-hit-in-a-transfer-with-interleaved-requests")
    classes.extend("file-op-between-writes:" + k for k in sorted(other["fileops"]))
    if other["fileops"] and hit:
        classes.append("fault-hit-on-a-file-with-other-file-operations")
    # announced size vs real length
    changed = plan.changed if op != "put" else local_change["done"]
    announced = None
    if op == "putfo" and "hint" in case:
        announced = case["hint"]
        rel = "zero" if announced == 0 else ("exact" if announced == len(src) else ("smaller" if announced < len(src) else "larger"))
        classes.append("announced:putfo-file_size:" + rel)
    elif src0 is not None:
        announced = src0
        rel = "smaller" if src0 < len(src) else "larger"
        when = "at-open" if case["change_at"] == -1 else "during-the-copy"
        classes.append("announced:%s:%s-than-real:source-changes-%s%s" % ("local-stat" if op == "put" else "server-stat", rel, when, "" if changed else ":never-reached"))
    mismatch = announced is not None and announced != len(src) and (src0 is None or changed)
    if mismatch:
        classes.append("announced-size-differs-from-source-length:" + op)
        if 0 < announced < len(src):
            classes.append("announced-smaller:ends-%s" % ("on-a-chunk-boundary" if announced % CHUNK == 0 else "inside-a-chunk"))
        if hit:
            classes.append("fault-hit-in-a-transfer-with-wrong-announced-size")
    # what "the source bytes" are: a source that kept its content has one answer; one that was appended to while it was
    # copied has two (before / after); one that changed before its first read was served has its content since then
    if src0 is None:
        accepted = [src]
    elif not changed:
        accepted = [state0]
    elif op != "put" and case["change_at"] == -1:
        accepted = [src]
    else:
        accepted = [state0, src]
    order_log = list(getattr(schan, "order_log", [])) if reorder else []
    if reorder:
        # replies the server still owed when the client ended the session (the server thread has been joined)
        order_log += [(h[2], h[3], "undelivered-at-session-end", h[4]) for h in getattr(schan, "_held", [])]
    out_of_order = [e for e in order_log if e[1] > 0]
    fault_late = [e for e in out_of_order if e[3]]
    if reorder:
        classes.append("reply-order:holds-planned")
        if out_of_order:
            classes.append("reply-order:delivered-out-of-order")
            classes.append("reply-order:overtaken-by-%s" % ("1" if max(e[1] for e in out_of_order) == 1 else "2+"))
            classes.append("reply-order:out-of-order:" + op)
        elif order_log:
            classes.append("reply-order:held-reply-delivered-at-idle-in-order")
        if fault_late:
            classes.append("reply-order:faulted-reply-overtaken:" + fkind)
    else:
        classes.append("reply-order:request-order")
    ctx.case(case, hit or mismatch, classes)

    try:
        if status == "stuck":
            ctx.violation("transfer-blocks", "%s:%s:%s" % (op, fkind, where), case, value)
            return
        if status == "exc":
            if not hit and src0 is not None:
                # no request was failed, but the source changed under the transfer: an error is one of the two outcomes
                # the statement allows
                ctx.count("raised-on-a-source-that-changed:%s:%s" % (op, type(value).__name__))
            elif not hit:
                ctx.violation("raised-without-fault", "%s:%s" % (op, type(value).__name__), case, repr(value))
            return
        # the call returned normally: the destination must equal the source
        if op in ("put", "putfo", "pwrite"):
            try:
                with open(os.path.join(root, "dst"), "rb") as f:
                    got = f.read()
            except OSError:
                got = None
        elif op == "get":
            try:
                with open(lpath, "rb") as f:
                    got = f.read()
            except OSError:
                got = None
        else:
            got = out.getvalue()
        rejected_write = hit and case["fault"][0] == "w"
        if got not in accepted:
            detail = "%s returned normally; destination %s != source (%d bytes); fault=%r; server log tail %r" % (
                op,
                "missing" if got is None else "%d bytes, first difference at %d" % (len(got), _first_diff(got, src)),
                len(src),
                case["fault"],
                env.server_log[-4:],
            )
            if announced is not None:
                detail += "; size announced to the transfer: %d (%s)" % (
                    announced,
                    "file_size argument" if src0 is None else "length of the source when it was stat'ed; real length since %s" % ("the OPEN" if case["change_at"] == -1 and op != "put" else "the copy was under way" if changed else "never"),
                )
            if out_of_order:
                detail += "; replies delivered out of order (reply index, overtaken by, released by, faulted): %r" % (order_log,)
            if other["fileops"]:
                detail += "; file operations between the writes: %s" % ", ".join(sorted(other["fileops"]))
            if rejected_write:
                if other["n"]:
                    detail += "; %d other requests (%s) were issued on the same client during the transfer" % (other["n"], ", ".join(sorted(other["kinds"])))
                ctx.violation(SIG_DROPPED[0], _lost_bucket(case, other, out_of_order), case, detail)
            else:
                where_ = ""
                if mismatch and got is not None and len(got) != len(src) and src[: len(got)] == got[: len(src)]:
                    # a clean prefix of the source (or the source plus bytes that were gone): tell it from other corruption
                    where_ = ":stops-short-of-the-source-end:announced-%s" % ("smaller" if announced < len(src) else "larger")
                ctx.violation("silent-corruption", "%s:%s:prefetch=%s%s%s" % (op, fkind, case["prefetch"], ":replies-out-of-order" if out_of_order else "", where_), case, detail)
            return
        if op == "pwrite" and rejected_write:
            # same bytes by luck is impossible here (a rejected write leaves a hole), kept for completeness
            ctx.violation(SIG_DROPPED[0], _lost_bucket(case, other, out_of_order), case, "write rejected but close() returned")
            return
        if op in ("put", "putfo") and case["confirm"]:
            if getattr(value, "st_size", None) != len(got):
                ctx.violation("returned-size", "%s:st_size" % op, case, "st_size=%r source=%d" % (getattr(value, "st_size", None), len(got)))
                return
        if op == "getfo" and value != len(got):
            ctx.violation("returned-size", "getfo", case, "returned %r source=%d" % (value, len(got)))
            return
    finally:
        shutil.rmtree(base, ignore_errors=True)


def _lost_bucket(case, other, out_of_order):
    """Bucket of "rejected-write-not-reported": which part of the history the case needs (shrinking removes the rest)."""
    if out_of_order:
        return "replies-delivered-out-of-order"
    if other["fileops"]:
        return "after-file-operation:" + "+".join(sorted(other["fileops"]))
    if other["n"]:
        return SIG_CONSUMED[1]
    return SIG_DROPPED[1] if case["pipelined"] else "non-pipelined-file"


def _first_diff(a, b):
    n = min(len(a), len(b))
    for i in range(0, n, 4096):
        if a[i : i + 4096] != b[i : i + 4096]:
            for j in range(i, min(i + 4096, n)):
                if a[j] != b[j]:
                    return j
    return n


# ----------------------------------------------------------------------------- generation

_bound = sorted(set(max(0, k * CHUNK + d) for k in range(0, 33) for d in (-1, 0, 1)) | set(max(0, k * 8192 + d) for k in range(0, 9) for d in (-1, 0, 1)))
_small = [s for s in _bound if s <= 5 * CHUNK + 1]
sizes = st.one_of(
    st.sampled_from(_small),
    st.sampled_from(_small),
    st.integers(0, 100000),
    st.integers(0, 100000),
    st.sampled_from(_bound),
    st.integers(0, 1 << 20),
)


_cb_kind = st.sampled_from(CB_KINDS[1:])
# which invocations issue a request: every one, every other one, only some - and which request
_cbreq = st.one_of(
    st.lists(_cb_kind, min_size=1, max_size=1),
    st.lists(st.sampled_from(CB_KINDS), min_size=1, max_size=4).filter(lambda ks: any(k != "none" for k in ks)),
    st.builds(lambda k, n: ["none"] * n + [k], _cb_kind, st.integers(1, 3)),
)
_between = st.lists(st.sampled_from(BETWEEN_KINDS), min_size=1, max_size=4).filter(lambda ks: any(k != "none" for k in ks))


def _announced(draw, size):
    """A size announced to a transfer whose source has `size` bytes: none at all, a byte or a chunk off, a fraction,
    the previous / next chunk boundaries, anything up to a few chunks beyond the end, or far too large."""
    return draw(
        st.one_of(
            st.sampled_from([0, 1, max(0, size - 1), size + 1, size // 2, size // CHUNK * CHUNK, max(0, size - CHUNK), size + CHUNK, 2 * size + 7]),
            st.integers(0, size),
            st.integers(0, size).map(lambda v: v // CHUNK * CHUNK),
            st.integers(0, size + 3 * CHUNK),
        )
    )


@st.composite
def case_st(draw):
    op = draw(st.sampled_from(["put", "putfo", "putfo", "get", "getfo", "getfo", "pwrite"]))
    size = draw(sizes)
    nreq = (size + CHUNK - 1) // CHUNK
    case = {"op": op, "size": size, "seed": draw(st.integers(0, 7)), "cb": draw(st.booleans())}
    writes = op in ("put", "putfo", "pwrite")
    if op != "pwrite" and case["cb"] and draw(st.booleans()):
        case["cbreq"] = draw(_cbreq)
    if writes:
        case["confirm"] = draw(st.booleans())
        if op == "putfo" and draw(st.integers(0, 3)) == 0:
            case["srcread"] = draw(st.sampled_from([1000, 8191, 8192, 8193, 20000, 32767, 40000]))
            nreq = nreq * 4 + 4
        if op == "pwrite":
            case["bufsize"] = draw(st.sampled_from([-1, 0, 1000, 65536]))
            case["pipelined"] = draw(st.sampled_from([True, True, False]))
            case["chunks"] = draw(st.lists(st.sampled_from([0, 1, 100, 8191, 8192, 32768, 32769, 70000]), max_size=6))
            nreq = nreq + len(case["chunks"]) + 2
            if draw(st.booleans()):
                case["between"] = draw(_between)
            if sum(case["chunks"]) and draw(st.integers(0, 2)) == 0:
                size = case["size"] = sum(case["chunks"])  # the write()s cover the file exactly: nothing is written after the last of them
    else:
        case["prefetch"] = draw(st.booleans())
        case["maxreq"] = draw(st.sampled_from([None, None, 1, 2, 3, 64]))
        nreq += 1
    # the size announced to the transfer is not the length of the source (about every third put / putfo / get / getfo)
    wrong_size = op != "pwrite" and draw(st.integers(0, 2)) == 0
    if wrong_size and op == "putfo":
        case["hint"] = draw(st.sampled_from([1 << 31, (1 << 32) + 5, (1 << 63) - 1])) if draw(st.integers(0, 7)) == 0 else _announced(draw, size)
    elif wrong_size and op == "put":
        case["src0"] = min(size, _announced(draw, size))
        case["change_at"] = draw(st.sampled_from([0, 0, 1, 2, 5]))
    elif wrong_size:
        case["src0"] = _announced(draw, size)
        case["change_at"] = draw(st.sampled_from([-1, -1, -1, 0, 1, 2, 3]))
    if draw(st.integers(0, 9)) > (3 if wrong_size else 0):
        k = draw(st.one_of(st.integers(0, max(0, nreq - 1)), st.integers(-1, nreq + 1)))
        if writes:
            case["fault"] = ["w", k, "error", draw(st.sampled_from(WRITE_CODES))]
        elif draw(st.booleans()):
            case["fault"] = ["r", k, "error", draw(st.sampled_from(READ_CODES))]
        else:
            n = draw(st.sampled_from([1, 2, 100, 8191, 8192, 32767]))
            if k == -1:
                n = max(n, size // 1500)  # "every read is short": keep the transfer below ~1500 round trips
            case["fault"] = ["r", k, "short", n]
    if draw(st.integers(0, 2)) == 0:
        # a server that answers out of order: up to three replies of the session are overtaken by d later ones
        which = st.integers(0, nreq + 4)
        if case.get("fault") is not None and case["fault"][1] != -1:
            which = st.one_of(st.just("fault"), st.just("fault").map(lambda v: v), which)
        case["reorder"] = draw(st.lists(st.tuples(which, st.sampled_from([1, 1, 2, 3, 5, 8, 40])), min_size=1, max_size=3, unique_by=lambda h: h[0]))
    return case


def baseline_cases(quick):
    """Fault-free transfers (the sanity clause, and short local source reads)."""
    out = []
    for size in (0, 8192, CHUNK, CHUNK + 1, 3 * CHUNK + 5) if quick else (0, 1, 8191, 8192, CHUNK - 1, CHUNK, CHUNK + 1, 3 * CHUNK + 5, 200000):
        out.append({"op": "put", "size": size, "seed": 3, "confirm": True, "cb": True})
        out.append({"op": "putfo", "size": size, "seed": 4, "confirm": False})
        out.append({"op": "get", "size": size, "seed": 5, "prefetch": True, "cb": True})
        out.append({"op": "getfo", "size": size, "seed": 6, "prefetch": False})
        out.append({"op": "getfo", "size": size, "seed": 6, "prefetch": True, "maxreq": 1})
        for m in (1000, 8192, 20000, 40000):
            out.append({"op": "putfo", "size": size, "seed": 7, "confirm": True, "srcread": m})
        out.append({"op": "pwrite", "size": size, "seed": 2, "bufsize": 0, "chunks": [70000, 1, 32769]})
        out.append({"op": "pwrite", "size": size, "seed": 2, "bufsize": -1, "chunks": [100, 8192, 40000]})
        # fault-free uploads through a file object that is also looked at / repositioned, and with an out-of-order server
        out.append({"op": "pwrite", "size": size, "seed": 2, "bufsize": -1, "chunks": [100, 8192, 40000, 1], "between": FILE_OPS[:5]})
        out.append({"op": "pwrite", "size": size, "seed": 2, "bufsize": 0, "chunks": [70000, 1, 32769, 0], "between": FILE_OPS[5:]})
        out.append({"op": "put", "size": size, "seed": 3, "confirm": True, "reorder": [[1, 2], [3, 40]]})
        out.append({"op": "get", "size": size, "seed": 5, "prefetch": True, "reorder": [[2, 1], [3, 2]]})
    return out


def announced_cases(max_chunks):
    """Fault-free transfers of files of 1..max_chunks chunks whose announced size is not the source's length: none,
    one byte, every chunk boundary up to two chunks past the end, a byte short / over - as putfo file_size argument,
    as the length get / getfo (prefetch on and off) find with their STAT before the file is opened, and as the length
    of a local file / served file that is appended to while put / getfo copy it."""
    out = []
    for n in range(1, max_chunks + 1):
        for size in ((n - 1) * CHUNK + 1, n * CHUNK, n * CHUNK + 12345):
            wrong = sorted(set([0, 1, size - 1, size + 1, size // 2] + [k * CHUNK for k in range(1, n + 3)]) - {size})
            for j, a in enumerate(wrong):
                out.append({"op": "putfo", "size": size, "seed": n, "confirm": bool(j & 1), "cb": bool(j & 2), "hint": a})
                for prefetch in (True, False):
                    out.append({"op": "getfo", "size": size, "seed": n, "prefetch": prefetch, "cb": bool(j & 1), "src0": a, "change_at": -1})
                out.append({"op": "get", "size": size, "seed": n, "prefetch": True, "maxreq": [None, 1, 2][j % 3], "src0": a, "change_at": -1})
                if a < size:
                    out.append({"op": "put", "size": size, "seed": n, "confirm": bool(j & 1), "src0": a, "change_at": j % 2})
                    out.append({"op": "getfo", "size": size, "seed": n, "prefetch": bool(j & 1), "src0": a, "change_at": j % 3})
    return out


def enumerated(max_chunks):
    """Every single failing chunk position x every code, files of 1..max_chunks chunks."""
    out = []
    for n in range(1, max_chunks + 1):
        for size in ((n - 1) * CHUNK + 1, n * CHUNK):
            for k in range(n):
                for code in WRITE_CODES:
                    for confirm in (True, False):
                        out.append({"op": "put", "size": size, "seed": n, "confirm": confirm, "fault": ["w", k, "error", code]})
                out.append({"op": "pwrite", "size": size, "seed": n, "fault": ["w", k, "error", 4], "chunks": [CHUNK] * (n - 1)})
                out.append({"op": "pwrite", "size": size, "seed": n, "pipelined": False, "fault": ["w", k, "error", 3], "chunks": [CHUNK] * (n - 1)})
                # the same failing positions in transfers whose progress callback / application issues requests of its own
                kinds = CB_KINDS[1:]
                kind = kinds[(n + k) % len(kinds)]
                for confirm in (True, False):
                    out.append({"op": "put", "size": size, "seed": n, "confirm": confirm, "cb": True, "cbreq": [kind], "fault": ["w", k, "error", 4]})
                out.append({"op": "putfo", "size": size, "seed": n, "confirm": False, "cb": True, "cbreq": ["none", kind], "fault": ["w", k, "error", 3]})
                out.append({"op": "pwrite", "size": size, "seed": n, "fault": ["w", k, "error", 4], "chunks": [CHUNK] * (n - 1), "between": [kind]})
                out.append({"op": "pwrite", "size": size, "seed": n, "fault": ["w", k, "error", 4], "chunks": [CHUNK] * (n - 1), "between": [kind, "setpipe0"]})
                # ... every reply read by another request after the last write(), then pipelining switched off, then close()
                if size == n * CHUNK:
                    out.append(
                        {"op": "pwrite", "size": size, "seed": n, "fault": ["w", k, "error", 4], "chunks": [CHUNK] * n, "between": ["none"] * (n - 1) + [kind, "setpipe0"]}
                    )
                # the same failing positions on a file object that is also looked at / repositioned between the write()s
                for j in range(2):
                    fop = FILE_OPS[(2 * (3 * n + k) + j + (size & 1)) % len(FILE_OPS)]
                    out.append({"op": "pwrite", "size": size, "seed": n, "fault": ["w", k, "error", WRITE_CODES[(n + k + j) % 8]], "chunks": [CHUNK] * (n - 1), "between": [fop]})
                # ... and with a server whose reply to the rejected write is overtaken by d later replies
                # (d beyond the n-1-k write replies that can still follow only waits for the idle server: one such d)
                for d in range(1, max(1, n - 1 - k) + 1):
                    for confirm in (True, False):
                        out.append({"op": "put", "size": size, "seed": n, "confirm": confirm, "fault": ["w", k, "error", 4], "reorder": [["fault", d]]})
                    out.append({"op": "pwrite", "size": size, "seed": n, "fault": ["w", k, "error", 3], "chunks": [CHUNK] * (n - 1), "reorder": [["fault", d]]})
            # reads: n data reads (+ the EOF probe, which carries no data)
            for k in range(n):
                for prefetch in (True, False):
                    for code in READ_CODES:
                        out.append({"op": "getfo", "size": size, "seed": n, "prefetch": prefetch, "fault": ["r", k, "error", code]})
                    for short in (1, 8192):
                        out.append({"op": "getfo", "size": size, "seed": n, "prefetch": prefetch, "fault": ["r", k, "short", short]})
                out.append({"op": "get", "size": size, "seed": n, "prefetch": True, "maxreq": 2, "fault": ["r", k, "error", 4]})
                kind = CB_KINDS[1:][(n + k) % (len(CB_KINDS) - 1)]
                out.append({"op": "getfo", "size": size, "seed": n, "prefetch": True, "cb": True, "cbreq": [kind], "fault": ["r", k, "error", 4]})
                out.append({"op": "getfo", "size": size, "seed": n, "prefetch": True, "maxreq": 1, "cb": True, "cbreq": [kind], "fault": ["r", k, "short", 8192]})
                # replies to prefetched reads overtaken by later ones: the faulted one, and (fault-free) the k-th data reply
                # (replies 0 and 1 of a getfo session answer its STAT and OPEN)
                for d in range(1, max(1, n - 1 - k) + 1):
                    out.append({"op": "getfo", "size": size, "seed": n, "prefetch": True, "fault": ["r", k, "error", 4], "reorder": [["fault", d]]})
                    out.append({"op": "getfo", "size": size, "seed": n, "prefetch": True, "fault": ["r", k, "short", 8192], "reorder": [["fault", d]]})
                    out.append({"op": "getfo", "size": size, "seed": n, "prefetch": True, "reorder": [[2 + k, d]]})
    return out



def _explore(ctx, strategy, body, n, **kw):
    """ctx.explore, but a violation found while hypothesis runs out of budget mid-shrink (the body is
    then skipped, hypothesis calls the test flaky) is still reported, with the last failing case."""
    try:
        ctx.explore(strategy, body, n, **kw)
    except Exception as e:
        last = getattr(ctx, "_last_fail", None)
        if type(e).__name__ in ("FlakyFailure", "Flaky", "FlakyReplay") and last:
            ctx._record_unknown(*last)
        else:
            raise


def run(ctx):
    ctx.set_budget(70, 1500)
    ctx.assume("SFTP_EOF is not injected as a read fault: an EOF status legitimately ends the file for the client")
    ctx.assume("same-size data corruption and writes acknowledged but not performed are outside the fault model (SFTP writes are all-or-error)")
    max_chunks = 3 if ctx.quick else 8
    cases = baseline_cases(ctx.quick) + announced_cases(2 if ctx.quick else 5) + enumerated(max_chunks)
    mine = [c for i, c in enumerate(cases) if i % ctx.nworkers == ctx.worker]
    done = 0
    for c in mine:
        if ctx.out_of_time() or len(ctx.unknown) >= 3:
            break
        execute(ctx, c)
        done += 1
    ctx.note("enumerated_chunk_positions_files_of_chunks", "1..%d" % max_chunks)
    ctx.note("enumerated_cases", done)
    if not ctx.quick:
        ctx.exhaustive = done == len(mine)
    _explore(ctx, case_st(), lambda c: execute(ctx, c), ctx.scale(250, 4000))


def replay(ctx, case):
    execute(ctx, case)
