"""C30 - every SFTP request completes with exactly one well-formed response; a client whose
server answers everything never blocks forever.

Engine: E5 (production SFTPServer / SFTPClient over a socketpair).

(A) server: a raw client sends a stream of <= 60 request packets (every command number 0..255,
    valid / stale / closed / garbage handles, file-vs-folder handle confusion, hostile paths,
    truncated and oversized field encodings, every extended request incl. check-file), pipelined,
    followed by two sentinel REALPATH requests. Every generated packet carries a request id
    (>= 4 body bytes): packets without one carry no obligation and are not generated.
    Oracle: the multiset of response ids equals the multiset of request ids; each response type
    is allowed for its request (SFTP v3, draft-ietf-secsh-filexfer-02: STATUS for everything,
    HANDLE for OPEN/OPENDIR, DATA for READ, NAME for READDIR/REALPATH/READLINK, ATTRS for
    STAT/LSTAT/FSTAT, EXTENDED_REPLY for EXTENDED); each response parses strictly as its type;
    the second sentinel is answered within 10 s and the server does not hang up.
    The 10 s bound is per answer (it restarts whenever a response arrives).
    A read-count guard (more than READ_LIMIT handle reads while serving ONE request) turns an
    endless server-side read loop into a verdict; a thread stuck anywhere else is located by its
    stack and released with an asynchronous exception.
    Fault plans (vlib.sftpenv on_call / on_read / on_write): the served handle and the server
    interface fail at generated requests - a packet may carry "fault": backend call number `skip`
    made while THAT request is served (handle close / stat / chattr / read / write, interface
    open / list_folder / stat / lstat / chattr / remove / rename / mkdir / ...) raises OSError(errno)
    or returns an SFTP error code; a case may also carry "faults": call number n of one named
    operation fails. About half of the handle fields refer to a handle the stream has opened
    before ("live" references), so that requests do reach the served handle. Same oracle.
(B) client: single-threaded programs on one SFTPClient interleave pipelined writes (bursts of
    1..250 requests on up to two files), set_pipelined switches, stat / lstat / listdir / fstat,
    reads and prefetched reads on another file, and closes. The server is fault free.
    Read-ahead programs ("focus" readahead / mixed): episodes on the read file - open + prefetch(),
    prefetch() or a readv() whose results are only partly taken (optionally letting the library's
    helper thread send its requests first: schedule dimension), then SFTPFile.truncate / chmod /
    utime / stat / seek / read / yield on that file while read-ahead replies are outstanding.
    Positioned read-ahead: prefetch() / readv() issued at a generated POSITION of the file object (seek to 0 / inside / the
    last byte / exactly EOF / past EOF, SEEK_END +-k, after reading the file to its end, after a truncate below the position)
    and with a generated file_size ARGUMENT (None = ask the server, the true size, 0, smaller than the position ("stale"),
    larger than the file), followed by reads / seeks on that file.
    Operations while read-ahead is IN PROGRESS (round 4, focus "busy"): the read file is a generated 1-4 MiB file (32-128 read-ahead
    requests), so after prefetch() / readv() returns the library's helper thread is still SENDING requests and their replies keep
    arriving while the application goes on: listdir / listdir_attr / listdir_iter (consumed completely or abandoned after k entries) on a
    directory of 0-40 entries (several READDIR replies), stat / lstat, a read of another file, a burst of pipelined writes on another
    file - then the file is read to its end (or in pieces) and closed.  Any synchronous request consumes the replies queued before
    its own answer; what matters here are the replies that arrive after it (requests the helper thread sent later).  The same
    session operations are also generated inside the small-file read-ahead programs.
    Oracle: every API call returns or raises. "Blocks forever" is decided by a deadlock proof
    (client parked in recv, server idle in recv, every request byte consumed, every response
    byte delivered, as many responses sent as requests processed, no other thread alive, stable
    for 0.5 s), or by 6 s without return on a settled link (every request byte consumed and answered,
    server idle in recv, no other thread alive, the application thread neither sends nor reads: it spins),
    or, failing that, by 20 s without return and without traffic on the link; for the verdicts taken by the clock the case is re-run twice
    and reported only if it blocks all three times (a deadlock proof or the request count below needs no confirmation). The channel is then closed so that no thread stays behind.
    A call that keeps the link busy without ever returning (a loop that sends requests for ever) is decided by a count, not by the
    clock: more than CALL_REQUEST_LIMIT requests processed by the server for ONE application call (the largest legitimate call of
    the alphabet needs a few hundred) is "never returns".  With a helper thread still alive (spinning on its concurrency cap) the
    "settled link" rule cannot apply; then QUIET_BOUND_S without a byte moving in either direction while the application thread is
    parked in recv, the server idle in recv and every request answered is the bound (600x the helper's 10 ms polling period).

Known defects are detected at start-up with their minimal reproductions (the committed replays);
while one is present the generator steers around it (ctx.exclude) so that the search goes on:
EXCLUDE = {...} below; None = automatic, True/False = forced.  Round 4 found the fourth one on the unchanged tree: SFTPClient.listdir_iter reads
its READDIR replies raw and takes replies of other requests (read-ahead READs still arriving) for its own ("iterhang").
All four are recorded as fixed in known_findings.d/C30.json (iterhang: commit f60ebf2); with none of them present nothing is steered around.
"""
import os
import select
import shutil
import struct
import threading
import time
from collections import Counter

from hypothesis import strategies as st

from vlib import sftpwatch as W

PROPERTY = "C30"
LEVEL = "exploration"
THOROUGH_WORKERS = 16
RULE = (
    "(A) hypothesis-generated request streams (<= 28 packets quick, <= 60 thorough, + 2 sentinels) from a raw client: all command numbers, "
    "handles hx1..hx8 / garbage, path grammar incl. '..', NUL, non-UTF-8, long names, attrs with every flag, field "
    "encodings truncated or with oversized length prefixes, extended requests check-file / posix-rename / unknown; "
    "non-trivial = stream contains an unknown command, an extended request, a mutated encoding or a handle that "
    "cannot be valid at that point, or a backend fault (served handle / interface call raising OSError or returning an "
    "error code at a generated request) fired. (B) hypothesis-generated single-threaded client programs mixing pipelined "
    "write bursts with other requests, and read-ahead episodes (prefetch / partly consumed readv, then truncate / chmod / "
    "utime / stat / seek / read on the same file), and positioned read-ahead (prefetch / readv started at a generated file position - 0, inside, "
    "at EOF, past EOF, after reading to the end, after a truncate below the position - with file_size argument None / exact / 0 / stale-smaller / "
    "larger, then reads and seeks); non-trivial = some non-write request was issued while pipelined writes "
    "were unacknowledged, or a file operation was issued while read-ahead replies were outstanding, or a read followed a prefetch that was "
    "started at or beyond the end of the file (or of its file_size argument), or a session operation (listdir / listdir_attr / listdir_iter "
    "complete or abandoned / stat / lstat / read of another file / write burst) was issued while read-ahead replies were outstanding. "
    "Focus 'busy': read file of 1-4 MiB (32-128 read-ahead requests, helper thread still sending while the application goes on), 1-4 such "
    "session operations, then the file is read to its end. distinct = SHA-1 of the case"
)

# None = decide automatically from the minimal reproduction; True / False = force
EXCLUDE = {
    "checkfile": None,  # check-file ranges past EOF / blocks > 64 KiB (endless read loop, repaired under C32)
    "attrcount": None,  # extended-attribute count far beyond the packet (multi-minute parse loop)
    "clienthang": None,  # write drain after another request consumed the pipelined replies
    "iterhang": None,  # listdir_iter while read-ahead replies are arriving takes them for its READDIR replies
}

READ_LIMIT = 8000
ANSWER_BOUND_S = 10.0
CLIENT_BOUND_S = 20.0
S1, S2 = 0xFFFFFFF0, 0xFFFFFFF1

STATUS, HANDLE, DATA, NAME, ATTRS, EXT_REPLY = 101, 102, 103, 104, 105, 201
REQ_NAMES = {
    3: "open", 4: "close", 5: "read", 6: "write", 7: "lstat", 8: "fstat", 9: "setstat", 10: "fsetstat",
    11: "opendir", 12: "readdir", 13: "remove", 14: "mkdir", 15: "rmdir", 16: "realpath", 17: "stat",
    18: "rename", 19: "readlink", 20: "symlink", 200: "extended",
}  # fmt: skip
ALLOWED = {3: {HANDLE}, 11: {HANDLE}, 5: {DATA}, 12: {NAME}, 16: {NAME}, 19: {NAME}, 17: {ATTRS}, 7: {ATTRS}, 8: {ATTRS}, 200: {EXT_REPLY}}

SIG_FSETSTAT = "response-type|fsetstat->5"
SIG_CHECKFILE = "stops-answering|check-file-endless-read-loop"
SIG_ATTRCOUNT = "stops-answering|stuck-under:sftp_attr.py:_from_msg"
SIG_CLIENTHANG = "client-blocks-forever|pipelined-write-reply-consumed-by-other-request"
SIG_ITERHANG = "client-blocks-forever|read-ahead-replies-outstanding-during:listiter"

_present = {}  # exclusion name -> bool (defect reproduced in this process)
_client_blocked = [False]  # an unlisted client block was reported in this run: part (B) stops exploring
_counter = [0]


def u32(n):
    return struct.pack(">I", n & 0xFFFFFFFF)


def u64(n):
    return struct.pack(">Q", n & 0xFFFFFFFFFFFFFFFF)


def sstr(b):
    if isinstance(b, str):
        b = b.encode("utf-8")
    return u32(len(b)) + bytes(b)


def req_name(t):
    return REQ_NAMES.get(t, "unknown-cmd")


# ----------------------------------------------------------------------------- byte readers


class PadReader:
    """Reads the way paramiko.Message does (missing bytes read as zeros) - used only to
    recognise requests the generator has to steer around, never in the oracle."""

    def __init__(self, b):
        self.b = b
        self.p = 0

    def take(self, n):
        x = self.b[self.p : self.p + n]
        self.p = min(len(self.b), self.p + n)
        if len(x) < n < (1 << 20):
            x = x + b"\x00" * (n - len(x))
        return x

    def u32(self):
        return struct.unpack(">I", self.take(4))[0]

    def u64(self):
        return struct.unpack(">Q", self.take(8))[0]

    def string(self):
        return self.take(self.u32())


class Malformed(Exception):
    pass


class Strict:
    def __init__(self, b):
        self.b = b
        self.p = 0

    def take(self, n):
        if self.p + n > len(self.b):
            raise Malformed("truncated: need %d bytes at %d of %d" % (n, self.p, len(self.b)))
        x = self.b[self.p : self.p + n]
        self.p += n
        return x

    def u32(self):
        return struct.unpack(">I", self.take(4))[0]

    def u64(self):
        return struct.unpack(">Q", self.take(8))[0]

    def string(self):
        return self.take(self.u32())

    def attrs(self):
        flags = self.u32()
        if flags & ~0x8000000F:
            raise Malformed("attribute flags %#x undefined in SFTP v3" % flags)
        if flags & 1:
            self.u64()
        if flags & 2:
            self.u32(), self.u32()
        if flags & 4:
            self.u32()
        if flags & 8:
            self.u32(), self.u32()
        if flags & 0x80000000:
            for _ in range(self.u32()):
                self.string(), self.string()

    def end(self):
        if self.p != len(self.b):
            raise Malformed("%d trailing bytes" % (len(self.b) - self.p))


def check_wellformed(t, payload):
    """payload = response packet after the type byte (starts with the request id)."""
    r = Strict(payload)
    r.u32()
    if t == STATUS:
        code = r.u32()
        if code > 8:
            raise Malformed("status code %d undefined in SFTP v3" % code)
        r.string().decode("utf-8")
        r.string()
        r.end()
    elif t == HANDLE:
        if len(r.string()) > 256:
            raise Malformed("handle longer than 256 bytes")
        r.end()
    elif t == DATA:
        r.string()
        r.end()
    elif t == NAME:
        for _ in range(r.u32()):
            r.string(), r.string(), r.attrs()
        r.end()
    elif t == ATTRS:
        r.attrs()
        r.end()
    elif t == EXT_REPLY:
        pass
    else:
        raise Malformed("type %d is not a response type" % t)


# ----------------------------------------------------------------------------- raw pump


class Pump:
    def __init__(self, chan):
        self.s = chan._s
        self.s.setblocking(False)
        self.buf = b""
        self.out = []  # (type or None, payload after type)
        self.eof = False

    def _recv(self):
        try:
            x = self.s.recv(1 << 16)
        except (BlockingIOError, InterruptedError):
            return
        except OSError:
            x = b""
        if not x:
            self.eof = True
            return
        self.buf += x
        while len(self.buf) >= 4:
            (n,) = struct.unpack(">I", self.buf[:4])
            if len(self.buf) < 4 + n:
                break
            pkt = self.buf[4 : 4 + n]
            self.buf = self.buf[4 + n :]
            self.out.append((pkt[0] if n else None, pkt[1:]))

    def send(self, data, timeout=ANSWER_BOUND_S):
        end = time.monotonic() + timeout
        view = memoryview(data)
        while len(view):
            r, w, _ = select.select([self.s], [self.s], [], 0.05)
            if r:
                self._recv()
                if self.eof:
                    return False
            if w:
                try:
                    n = self.s.send(view)
                except (BlockingIOError, InterruptedError):
                    n = 0
                except OSError:
                    self.eof = True
                    return False
                view = view[n:]
            if time.monotonic() > end:
                return False
        return True

    def wait(self, pred, timeout):
        """Wait until pred(); gives up after `timeout` seconds WITHOUT ANY NEW RESPONSE
        (the bound is per answer, not per stream: a loaded machine only slows the stream down)."""
        end = time.monotonic() + timeout
        seen = len(self.out)
        while not pred():
            if self.eof:
                return False
            r, _, _ = select.select([self.s], [], [], 0.02)
            if r:
                self._recv()
                if len(self.out) != seen:
                    seen = len(self.out)
                    end = time.monotonic() + timeout
            elif time.monotonic() > end:
                return False
        return True


_scratch_dir = [None]


def scratch(ctx):
    """Directory for the served trees: tmpfs when available (each case builds and removes a small tree), else ctx.tmpdir().
    Removed at interpreter exit."""
    if _scratch_dir[0] is None or not os.path.isdir(_scratch_dir[0]):
        import atexit
        import tempfile

        shm = "/dev/shm"
        if os.path.isdir(shm) and os.access(shm, os.W_OK):
            _scratch_dir[0] = tempfile.mkdtemp(prefix="verif-C30-", dir=shm)
            atexit.register(shutil.rmtree, _scratch_dir[0], True)
        else:
            _scratch_dir[0] = ctx.tmpdir()
    return _scratch_dir[0]


def frame(t, rid, body):
    return u32(len(body) + 5) + bytes([t]) + u32(rid) + body


# ----------------------------------------------------------------------------- served tree


def make_root(root):
    os.makedirs(os.path.join(root, "d", "sub"))
    with open(os.path.join(root, "f0"), "wb") as f:
        f.write(bytes(range(256)) * 4)
    with open(os.path.join(root, "f1"), "wb") as f:
        f.write(b"paramiko-verif-" * 4000)  # 60000 bytes
    with open(os.path.join(root, "empty"), "wb") as f:
        pass
    for i in range(20):
        with open(os.path.join(root, "d", "a%02d" % i), "wb") as f:
            f.write(b"x" * i)
    os.symlink("f0", os.path.join(root, "lnk"))
    os.symlink("d", os.path.join(root, "dl"))


class Guard:
    """Fault-plan object: counts handle reads per request (livelock guard) and injects the case's faults.

    per_request = {i: {"skip": k, "act": ["raise", errno] | ["error", code]}}: while request number i of the stream
        (from 0) is served, backend call number k (from 0; handle close/stat/chattr/read/write or any interface
        method) fails - in a case this is the "fault" entry of packet i;
    faults = [{"op": "handle.close" | "iface.open" | ..., "n": k, "count": c, "act": ...}]: calls number k .. k+c-1 of
        that operation (per session, from 0) fail."""

    def __init__(self, faults=(), per_request=None):
        self.reads = 0
        self.fired = 0
        self.req = -1  # index of the request being served
        self.calls = 0  # backend calls made for it so far
        self.plan, self.at = {}, {}
        for i, f in (per_request or {}).items():
            self.at[(int(i), int(f.get("skip", 0)))] = (f["act"][0], int(f["act"][1]))
        for f in faults or ():
            for k in range(int(f["n"]), int(f["n"]) + int(f.get("count", 1))):
                self.plan.setdefault((f["op"], k), (f["act"][0], int(f["act"][1])))
        self.faults_fired = []  # (request index, "op:kind")
        self.backend = set()  # (request index, op): backend calls made while serving that request

    def begin_request(self, idx):
        self.reads = 0
        self.req = idx
        self.calls = 0

    def _fault(self, op, n):
        act = self.at.get((self.req, self.calls))
        if act is None:
            act = self.plan.get((op, n))
        if act is not None and op == "handle.close" and act[0] == "error":
            act = ("raise", 5)  # close() has no return value: the only way for it to fail is to raise (here EIO)
        self.calls += 1
        self.backend.add((self.req, op))
        if act is not None:
            self.faults_fired.append((self.req, "%s:%s" % (op, act[0])))
        return act

    def on_call(self, where, op, n, args):
        return self._fault(where + "." + op, n)

    def on_write(self, handle, n, offset, data):
        return self._fault("handle.write", n)

    def on_read(self, handle, n, offset, length):
        from vlib.sftpenv import HarnessAbortLoop

        self.reads += 1
        if self.reads > READ_LIMIT:
            self.fired += 1
            self.reads = 0
            raise HarnessAbortLoop("more than %d reads while serving one request" % READ_LIMIT)
        return self._fault("handle.read", n)


def instrument(server, guard=None):
    """Count requests processed / packets sent by this server object (instance patch)."""
    stats = {"requests": 0, "responses": 0}
    proc, send = server._process, server._send_packet

    def _process(t, request_number, msg):
        if guard is not None:
            guard.begin_request(stats["requests"])
        stats["requests"] += 1
        return proc(t, request_number, msg)

    def _send_packet(t, packet):
        stats["responses"] += 1
        return send(t, packet)

    server._process = _process
    server._send_packet = _send_packet
    return stats


def frames_below(th, name):
    """'file.py:function' of the frame called directly by function `name` in thread th."""
    import sys

    fr = sys._current_frames().get(th.ident)
    chain = []
    while fr is not None:
        chain.append(fr)
        fr = fr.f_back
    for i, f in enumerate(chain):
        if f.f_code.co_name == name and i > 0:
            c = chain[i - 1].f_code
            return "%s:%s" % (os.path.basename(c.co_filename), c.co_name)
    return W.where(th)


# ----------------------------------------------------------------------------- (A) server


def _excluded(name):
    if EXCLUDE[name] is not None:
        return EXCLUDE[name]
    return _present.get(name, False)


def _checkfile_fields(body):
    """If `body` (after the id) is a check-file request as the server will read it, return
    (handle, algs_raw, start, length, block) else None."""
    r = PadReader(body)
    if r.string() != b"check-file":
        return None
    handle = r.string()
    algs = r.string()
    return handle, algs, r.u64(), r.u64(), r.u32()


def _checkfile_problem(server, fields):
    handle, algs, start, length, block = fields
    f = server.file_table.get(handle)
    if f is None:
        return None
    try:
        names = algs.decode("utf-8").split(",")
    except UnicodeDecodeError:
        return None
    if not any(x in ("sha1", "md5") for x in names):
        return None
    try:
        size = os.fstat(f.readfile.fileno()).st_size
    except (OSError, ValueError, AttributeError):
        return None
    L = length if length else size - start
    if L <= 0:
        return None
    bs = block if block else L
    if bs < 256:
        return None
    if start + L > size or min(bs, L) > 65536:
        return size
    return None


def _attr_count_pos(t, body):
    """Offset (in body) of an extended-attribute count > 1000, else None."""
    r = PadReader(body)
    if t in (9, 14, 10):  # setstat / mkdir: path, attrs ; fsetstat: handle, attrs
        r.string()
    elif t == 3:  # open: path, pflags, attrs
        r.string()
        r.u32()
    else:
        return None
    flags = r.u32()
    if not flags & 0x80000000:
        return None
    if flags & 1:
        r.u64()
    if flags & 2:
        r.u32(), r.u32()
    if flags & 4:
        r.u32()
    if flags & 8:
        r.u32(), r.u32()
    pos = r.p
    if r.u32() > 1000:
        return pos  # (the count may straddle the end of a truncated packet: the rest reads as zeros)
    return None


def run_server_case(ctx, case, forced=False):
    """Execute one request stream and judge it; returns the list of signatures reported."""
    run = _serve(ctx, case, forced)
    v = run["verdict"]
    sig = None
    if v is not None and v[0] == "stuck":
        sig = SIG_CHECKFILE if v[1] == "sftp_server.py:_check_file" else "stops-answering|stuck-under:" + v[1]
    if sig is not None and not _is_open(ctx, sig):
        # time-based verdict about something that is not a listed open finding: must repeat twice (retry rule)
        for _ in range(2):
            again = _serve(ctx, case, forced)
            if again["verdict"] != v:
                ctx.inconc("server-stall-not-reproduced")
                run = again
                break
    return _judge_server(ctx, case, run)


def _is_open(ctx, sig):
    ent = getattr(ctx, "_known", {}).get(sig)
    return bool(ent) and ent.get("status") == "open"


def _serve(ctx, case, forced):
    from vlib.sftpenv import SftpEnv, HarnessAbortLoop

    pkts = [(int(p["t"]), int(p["id"]), bytes(p["body"])) for p in case["pkts"]]
    _counter[0] += 1
    root = os.path.join(scratch(ctx), "s%d" % _counter[0])
    make_root(root)
    guard = Guard(case.get("faults"), {i: p["fault"] for i, p in enumerate(case["pkts"]) if p.get("fault")})
    env = SftpEnv(root, guard, loop_limit=READ_LIMIT // 2, start_client=False)
    sent = []  # (t, id, body) in order
    verdict = None
    try:
        cchan, server = env._session("c30")
        sth = env._sessions[-1][2]
        stats = instrument(server, guard)
        pump = Pump(cchan)
        pump.send(u32(5) + b"\x01" + u32(3))
        if not pump.wait(lambda: len(pump.out) >= 1, ANSWER_BOUND_S) or pump.out[0][0] != 2:
            raise AssertionError("harness: no VERSION reply to INIT: %r" % (pump.out[:1],))
        pump.out.pop(0)
        alive = True
        for t, rid, body in pkts:
            if t == 200 and not forced:
                cf = _checkfile_fields(body)
                if cf is not None and _excluded("checkfile"):
                    # decide on the settled server state
                    if not pump.wait(lambda: len(pump.out) >= len(sent), ANSWER_BOUND_S):
                        alive = False
                        break
                    size = _checkfile_problem(server, cf)
                    if size is not None:
                        ctx.exclude("check-file-endless-read-loop")
                        blk = cf[4] if 256 <= cf[4] <= 65536 else 256
                        body = sstr("check-file") + sstr(cf[0]) + sstr(cf[1]) + u64(min(cf[2], size)) + u64(0) + u32(blk)
            if not forced and _excluded("attrcount"):
                pos = _attr_count_pos(t, body)
                if pos is not None:
                    ctx.exclude("attr-extended-count-unbounded")
                    body = body[:pos] + u32(1000) + body[pos + 4 :]  # body[:pos] is complete whenever count > 0
            if not pump.send(frame(t, rid, body)):
                sent.append((t, rid, body))
                alive = False
                break
            sent.append((t, rid, body))
        if alive:
            for rid in (S1, S2):
                if pump.send(frame(16, rid, sstr("/"))):
                    sent.append((16, rid, sstr("/")))
            done = lambda: any(len(p) >= 4 and struct.unpack(">I", p[:4])[0] == S2 for _, p in pump.out[-2:])  # noqa: E731
            alive = pump.wait(done, ANSWER_BOUND_S)
        responses = list(pump.out)
        if not alive:
            if pump.eof:
                verdict = ("hangup", None)
            else:
                verdict = ("stuck", frames_below(sth, "_process"))
                W.abort_thread(sth, HarnessAbortLoop)
                pump.wait(lambda: False, 0.3)
        log_abort = [e for e in env.server_log if e[1] == "read-loop-abort"]
        thread_exc = [e for e in env.server_log if e[1] == "server-thread-exception"]
    finally:
        env.close()
        shutil.rmtree(root, ignore_errors=True)
    if env.threads_alive():
        ctx.inconc("harness:server-thread-left-behind")
    return {
        "sent": sent,
        "responses": responses,
        "verdict": verdict,
        "guard_fired": guard.fired,
        # by request: "close>handle.close:raise" (calls made after the last request - session teardown - are left out)
        "faults_fired": sorted(set("%s>%s" % (req_name(sent[i][0]), f) for i, f in guard.faults_fired if 0 <= i < len(sent) and not (i == len(sent) - 1 and sent[i][1] == S2))),
        "backend": sorted(set("%s>%s" % (req_name(sent[i][0]), op) for i, op in guard.backend if 0 <= i < len(sent) and not (i == len(sent) - 1 and sent[i][1] == S2))),
        "log_abort": log_abort,
        "thread_exc": thread_exc,
        "requests": stats["requests"],
    }


def _judge_server(ctx, case, run):
    sent, responses, verdict = run["sent"], run["responses"], run["verdict"]
    log_abort, thread_exc = run["log_abort"], run["thread_exc"]

    # ---- evidence
    nontrivial = bool(case.get("nt")) or bool(run.get("faults_fired"))
    classes = ["A:stream"] + sorted(set("A:req:" + req_name(t) for t, _, _ in sent[:-2] or sent))
    classes += sorted(set("A:resp:%s" % t for t, _ in responses))
    classes += ["A:fault:" + f for f in run.get("faults_fired", ())]
    classes += ["A:backend:" + f for f in run.get("backend", ()) if f.split(">")[1].startswith("handle.")]
    if case.get("faults") or any(p.get("fault") for p in case["pkts"]):
        classes.append("A:stream-with-fault-plan")
    ctx.case(case, nontrivial, classes)
    ctx.count("A:requests", len(sent))

    # ---- oracle
    sigs = []

    def viol(clause, bucket, detail):
        sigs.append("%s|%s" % (clause, bucket))
        ctx.violation(clause, bucket, case, detail)

    def describe(i):
        t, rid, body = sent[i]
        return "#%d %s(type %d) id=%d body=%s" % (i, req_name(t), t, rid, body[:48].hex())

    if run["guard_fired"] or log_abort:
        viol(
            "stops-answering",
            "check-file-endless-read-loop",
            "the server issued more than %d handle reads while serving one request (or re-read one offset endlessly); "
            "guard fired %d time(s); requests: %s" % (READ_LIMIT, run["guard_fired"] + len(log_abort), [describe(i) for i in range(len(sent)) if sent[i][0] == 200][:4]),
        )
        return sigs
    if verdict is not None:
        first = len(responses)
        who = describe(first) if first < len(sent) else "?"
        if verdict[0] == "stuck" and verdict[1] == "sftp_server.py:_check_file":
            # the same endless loop, caught by the clock before the read counter got to READ_LIMIT
            viol("stops-answering", "check-file-endless-read-loop", "no answer within %.0f s; first unanswered request: %s; server thread was in %s" % (ANSWER_BOUND_S, who, verdict[1]))
        elif verdict[0] == "hangup":
            viol("stops-answering", "hangup:" + (req_name(sent[first][0]) if first < len(sent) else "?"), "server closed the session; first unanswered request: %s; server thread: %r" % (who, thread_exc))
        else:
            viol("stops-answering", "stuck-under:" + verdict[1], "no answer within %.0f s; first unanswered request: %s; server thread was in %s" % (ANSWER_BOUND_S, who, verdict[1]))
        return sigs
    req_ids = Counter(rid for _, rid, _ in sent)
    resp_ids = Counter()
    for t, p in responses:
        if len(p) < 4:
            viol("malformed-response", "no-request-id", "response type %r payload %s" % (t, p.hex()))
            return sigs
        resp_ids[struct.unpack(">I", p[:4])[0]] += 1
    missing = req_ids - resp_ids
    extra = resp_ids - req_ids
    if missing or extra:
        # The verdict is the multiset comparison above; WHICH request it was is read off an in-order
        # alignment (the server is sequential, so responses arrive in request order).
        rids = [struct.unpack(">I", p[:4])[0] for _, p in responses]
        i = j = 0
        unanswered, surplus = [], []
        while i < len(sent) or j < len(rids):
            if i < len(sent) and j < len(rids) and sent[i][1] == rids[j]:
                i += 1
                j += 1
            elif j < len(rids) and i > 0 and rids[j] == sent[i - 1][1]:
                surplus.append((i - 1, j))
                j += 1
            elif i < len(sent):
                unanswered.append(i)
                i += 1
            else:
                surplus.append((None, j))
                j += 1
        if missing:
            rid = sorted(missing)[0]
            cand = [k for k in unanswered if sent[k][1] == rid] or [k for k in range(len(sent)) if sent[k][1] == rid]
            k = cand[0]
            viol("no-response", req_name(sent[k][0]), "request %s was not answered (%d responses for %d requests with id %d)" % (describe(k), resp_ids[rid], req_ids[rid], rid))
            return sigs
        rid = sorted(extra)[0]
        cand = [(k, j) for k, j in surplus if rids[j] == rid]
        k = cand[0][0] if cand else None
        viol(
            "extra-response",
            req_name(sent[k][0]) if k is not None else "unsolicited",
            "id %d: %d responses for %d requests (%s); response types %r" % (rid, resp_ids[rid], req_ids[rid], describe(k) if k is not None else "no such request", [t for t, p in responses if struct.unpack(">I", p[:4])[0] == rid]),
        )
        return sigs
    # in-order matching per id (the server is sequential)
    pending = {}
    for i, (t, rid, body) in enumerate(sent):
        pending.setdefault(rid, []).append(i)
    for t, p in responses:
        rid = struct.unpack(">I", p[:4])[0]
        i = pending[rid].pop(0)
        rt = sent[i][0]
        if t != STATUS and t not in ALLOWED.get(rt, ()):
            viol("response-type", "%s->%s" % (req_name(rt), t), "request %s answered with packet type %r payload %s" % (describe(i), t, p[:64].hex()))
            continue
        try:
            check_wellformed(t, p)
        except (Malformed, UnicodeDecodeError) as e:
            viol("malformed-response", "%s->%s:%s" % (req_name(rt), t, type(e).__name__), "request %s: response type %d payload %s: %s" % (describe(i), t, p[:96].hex(), e))
    if run["requests"] != len(sent):
        ctx.inconc("harness:request-count-mismatch")
    return sigs


# ----------------------------------------------------------------------------- (B) client

PATHS = ["/r0", "/", "/w0", "/w1", "/nope", "/d"]
RMODES = ["rb", "r+b"]
R_FILE_OPS = ("rprefetch", "rreadv", "rtruncate", "rchmod", "rutime", "rfstat", "rseek", "ryield")
QUIET_BOUND_S = 6.0
CALL_REQUEST_LIMIT = 3000  # requests the server processes for ONE application call (legitimate calls of the alphabet: at most ~600, helper thread included)
DIRS = ["/", "/d"]
RFILES = ["/r0", "/r1"]  # /r1: the case's big read file ("big_kb" KiB)


class _Abort(BaseException):
    """Raised asynchronously inside an application thread that spins instead of returning (so that it does not stay behind)."""



def _roomy_link(cchan):
    """Give the client-to-server direction of the socketpair the capacity an SSH channel has for requests.  A unix socket charges
    every small packet with its bookkeeping overhead, so the default buffer holds only a few hundred queued REQUESTS (an SSH channel
    window of 2 MiB holds tens of thousands): with the server busy sending data nobody reads yet, a client that pipelines a few
    hundred small requests (read-ahead of a big file + listdir_iter's 50 READDIRs) would block in send() - on the harness link, not
    in paramiko.  The server-to-client direction keeps its default size (replies are big; a full window there is normal SSH life)."""
    import socket

    for opt in (getattr(socket, "SO_SNDBUFFORCE", 32), socket.SO_SNDBUF):
        try:
            cchan._s.setsockopt(socket.SOL_SOCKET, opt, 16 << 20)
            break
        except OSError:
            continue


def run_client_once(ctx, case, observe):
    """One execution of a client program. Returns (blocked, info)."""
    from vlib.sftpenv import SftpEnv

    ops = case["ops"]
    _counter[0] += 1
    root = os.path.join(scratch(ctx), "k%d" % _counter[0])
    os.makedirs(os.path.join(root, "d"))
    with open(os.path.join(root, "r0"), "wb") as f:
        f.write(b"0123456789abcdef" * 6250)  # 100000 bytes
    if case.get("big_kb"):
        with open(os.path.join(root, "r1"), "wb") as f:
            f.write(b"0123456789abcdef" * (64 * int(case["big_kb"])))
    for i in range(int(case.get("dentries") or 0)):
        with open(os.path.join(root, "d", "e%02d" % i), "wb") as f:
            f.write(b"y" * i)
    env = SftpEnv(root)
    cchan, schan, sth, server = env._sessions[0]
    _roomy_link(cchan)
    stats = instrument(server)
    baseline = set(threading.enumerate())
    files = W.track_files(env.client)
    client = env.client
    wf = {}  # slot -> SFTPFile
    risk = {}  # slot -> a non-write request was issued while writes were unacknowledged
    rf = [None]
    rf_path = [os.path.join(root, "r0")]  # served file behind rf[0]
    payload = b"w" * 40000
    info = {"ra_session": [], "executed": 0, "raised": 0, "skipped": 0, "excluded": 0, "risky": 0, "ra_risky": 0, "ra_reads": 0, "ra_at_end": False, "ra_end_reads": 0, "blocked_at": None, "why": None, "op": None, "on_risky_file": False}

    def outstanding(slot):
        f = wf.get(slot)
        return f is not None and len(f._reqs) > 0

    def let_readahead_go(f, cap, nreq=None):
        """Schedule dimension: the application does something else until the library's helper thread has sent its
        read-ahead requests (all of them, or as many as the concurrency cap allows)."""
        t_end = time.monotonic() + 0.25
        while time.monotonic() < t_end:
            helpers = [t for t in threading.enumerate() if t not in baseline and t is not threading.current_thread()]
            if not helpers:
                return
            if cap is not None:
                with f._prefetch_lock:
                    if len(f._prefetch_extents) >= cap:
                        return
            time.sleep(0.001)

    def readahead_outstanding():
        """The read file has read-ahead requests (prefetch / readv) whose replies nobody has consumed yet, or a helper
        thread is still sending some."""
        if any(t not in baseline and t is not threading.current_thread() for t in threading.enumerate()):
            return True
        # (every file the program has opened counts, also one it has closed meanwhile: replies to its read-ahead still arrive)
        for f in files:
            try:
                with f._prefetch_lock:
                    if len(f._prefetch_extents) > 0:
                        return True
            except AttributeError:
                pass
        return False

    def note_session(kind):
        """A session operation (not on the read file) is about to be issued: record whether read-ahead replies are outstanding."""
        if not readahead_outstanding():
            return False
        info["ra_session"].append(kind)
        observe("B:%s-while-readahead-outstanding" % kind)
        if any(t not in baseline and t is not threading.current_thread() for t in threading.enumerate()):
            observe("B:%s-while-readahead-requests-still-being-sent" % kind)
        return True

    def note_other(except_slot=None):
        for s in list(wf):
            if outstanding(s):
                risk[s] = True
                info["risky"] += 1

    def thunk(op):
        k = op[0]
        if k == "wopen":
            slot = op[1]
            if slot in wf:
                return None
            note_other()

            def go():
                f = client.open("/w%d" % slot, "wb", op[3])
                f.set_pipelined(bool(op[2]))
                wf[slot] = f
                risk[slot] = False

            return go
        if k == "write":
            slot, n, size = op[1], op[2], op[3]
            f = wf.get(slot)
            if f is None:
                return None
            nreq = n * max(1, (size + 32767) // 32768)
            if _excluded("clienthang") and risk.get(slot) and (not f.pipelined or len(f._reqs) + nreq > 100):
                info["excluded"] += 1
                ctx.exclude("write-drain-after-consumed-replies")
                return None
            note_session("write")
            # a write on this file is "another request" for the other file
            for s in list(wf):
                if s != slot and outstanding(s):
                    risk[s] = True
                    info["risky"] += 1

            def go():
                for _ in range(n):
                    f.write(payload[:size])
                    f.flush()

            return go
        if k == "setpipe":
            f = wf.get(op[1])
            if f is None:
                return None
            return lambda: f.set_pipelined(bool(op[2]))
        if k == "wclose":
            f = wf.get(op[1])
            if f is None:
                return None
            note_other()

            def go():
                try:
                    f.close()
                finally:
                    wf.pop(op[1], None)

            return go
        if k == "fstat":
            f = wf.get(op[1])
            if f is None:
                return None
            note_other()
            return lambda: f.stat()
        if k == "stat":
            note_other()
            note_session(k)
            return lambda: client.stat(PATHS[op[1] % len(PATHS)])
        if k == "lstat":
            note_other()
            note_session(k)
            return lambda: client.lstat(PATHS[op[1] % len(PATHS)])
        if k in ("listdir", "listdirattr", "listiter"):
            note_other()
            d = DIRS[(op[1] if len(op) > 1 else 0) % len(DIRS)]
            if k == "listiter" and _excluded("iterhang") and readahead_outstanding():
                info["excluded"] += 1
                ctx.exclude("listdir_iter-while-readahead-replies-arrive")
                return None
            note_session(k)
            if k == "listdir":
                return lambda: client.listdir(d)
            if k == "listdirattr":
                return lambda: len(client.listdir_attr(d))
            take = op[2] if len(op) > 2 else None

            def go():
                it = client.listdir_iter(d)
                n = 0
                try:
                    for _ in it:
                        n += 1
                        if take is not None and n >= take:
                            break  # the application abandons the listing
                finally:
                    it.close()
                return n

            return go
        if k == "readfile":
            note_other()
            note_session(k)

            def go():
                with client.open("/r0", "rb") as f:
                    return len(f.read(op[1]))

            return go
        if k == "prefetchall":
            note_other()

            def go():
                with client.open("/r0", "rb") as f:
                    f.prefetch(None, op[1])
                    return len(f.read())

            return go
        if k == "ropen":
            if rf[0] is not None:
                return None
            note_other()

            which = (op[5] if len(op) > 5 else 0) % len(RFILES)
            if which and not case.get("big_kb"):
                which = 0

            def go():
                f = client.open(RFILES[which], RMODES[op[3] % len(RMODES)] if len(op) > 3 else "rb")
                rf[0] = f
                rf_path[0] = root + RFILES[which]
                if which:
                    observe("B:read-file:%d-read-ahead-requests" % ((os.path.getsize(rf_path[0]) + 32767) // 32768))
                if op[1]:
                    f.prefetch(None, op[2])
                    if len(op) > 4 and op[4]:
                        let_readahead_go(f, op[2])

            return go
        if k in R_FILE_OPS:
            # operations on the file that (possibly) has read-ahead replies outstanding
            f = rf[0]
            if f is None:
                return None
            if k == "ryield":
                return lambda: let_readahead_go(f, op[1])
            if k == "rseek":
                off, whence = op[1], op[2]
                base = 0 if whence == 0 else (f.tell() if whence == 1 else os.path.getsize(rf_path[0]))
                if base + off < 0:
                    return None  # a negative position is outside the domain of seek()
                if whence == 2:
                    note_other()  # SEEK_END asks the server for the size
            else:
                note_other()
            if readahead_outstanding():
                info["ra_risky"] += 1
                observe("B:%s-with-readahead-outstanding" % k)
            if k == "rprefetch":
                fsize = op[3] if len(op) > 3 else None  # file_size argument: None = let prefetch() ask the server
                real = os.path.getsize(rf_path[0])
                pos = f.tell()
                observe("B:prefetch-at:" + ("start" if pos == 0 else ("inside" if pos < real else ("eof" if pos == real else "past-eof"))))
                observe(
                    "B:prefetch-file_size:"
                    + ("none" if fsize is None else ("zero" if fsize == 0 else ("exact" if fsize == real else ("smaller" if fsize < real else "larger"))))
                )
                if fsize is not None and 0 < fsize <= pos:
                    observe("B:prefetch-file_size:not-beyond-the-position")
                if pos >= (real if fsize is None else fsize) and real > 0:
                    info["ra_at_end"] = True  # nothing to fetch from here on a non-empty file
                    observe("B:prefetch-with-nothing-left-to-fetch")
                else:
                    info["ra_at_end"] = False

                def go():
                    f.prefetch(fsize, op[1])
                    if op[2]:
                        let_readahead_go(f, op[1])

                return go
            if k == "rreadv":
                real = os.path.getsize(rf_path[0])
                if f.tell() >= real:
                    observe("B:readv-with-position-at-or-past-eof")

                def go():
                    it = f.readv([tuple(c) for c in op[1]], op[3])
                    got = [len(next(it)) for _ in range(min(op[2], len(op[1])))]  # the rest is never asked for
                    if op[4]:
                        let_readahead_go(f, op[3])
                    return got

                return go
            if k == "rtruncate":
                return lambda: f.truncate(op[1])
            if k == "rchmod":
                return lambda: f.chmod(op[1])
            if k == "rutime":
                return lambda: f.utime(None if op[1] is None else tuple(op[1]))
            if k == "rfstat":
                return lambda: f.stat()
            if k == "rseek":
                return lambda: f.seek(op[1], op[2])
        if k == "rread":
            if rf[0] is None:
                return None
            note_other()
            if readahead_outstanding():
                info["ra_reads"] += 1
            if info["ra_at_end"]:
                info["ra_end_reads"] += 1
                observe("B:read-after-prefetch-with-nothing-left-to-fetch")
            return lambda: len(rf[0].read(op[1]))
        if k == "rclose":
            if rf[0] is None:
                return None
            note_other()

            def go():
                try:
                    rf[0].close()
                finally:
                    rf[0] = None
                    info["ra_at_end"] = False

            return go
        raise AssertionError(op)

    tail = [["rclose"], ["wclose", 0], ["wclose", 1]]
    cur = {"idx": None, "op": None, "t0": time.monotonic(), "risky": False, "req0": 0}

    def program():
        # the whole program runs in ONE thread (the application thread); the main thread only watches
        for idx, op in enumerate(list(ops) + tail):
            slot_risky = op[0] in ("write", "wclose", "setpipe", "fstat") and bool(risk.get(op[1]))
            go = thunk(op)
            if go is None:
                info["skipped"] += 1
                continue
            cur.update(idx=idx, op=op, t0=time.monotonic(), risky=slot_risky, req0=stats["requests"])
            try:
                go()
            except Exception as e:  # raising is an acceptable way for a call to end (C30 only forbids blocking)
                info["raised"] += 1
                observe("B:raised:" + type(e).__name__)
            info["executed"] += 1
        cur.update(idx=None)

    poll = W.deadlock_proof(cchan, schan, sth, baseline)
    try:
        g = W.Guarded(program)
        g.thread.start()
        moved = None
        quiet = {"snap": None, "t0": None}
        hquiet = {"snap": None, "t0": None}
        while not g.done.wait(0.02):
            snap = (cchan.sent, cchan.received)
            if snap != moved:
                moved, cur["t0"] = snap, time.monotonic()  # traffic on the link: slow is not blocked
            why = poll(g.thread)
            if why and stats["requests"] != stats["responses"]:
                why = None  # the server owes an answer: not the client's fault (falls back to the long bound)
            how = "proof" if why else "clock"
            if why is None:
                # settled link: the server has consumed every request byte, answered every request and waits for the
                # next one; no helper thread is alive; the application thread neither sends nor reads (responses may
                # still sit unread in the channel). Nothing new can reach it any more. If it is not parked in recv
                # (deadlock proof above) but computes on and on, QUIET_BOUND_S (600x the library's polling period, for
                # at most a few hundred KiB of buffered data) is the bound.
                full = (cchan.sent, cchan.received, schan.sent, schan.received)
                settled = (
                    cchan.sent == schan.received
                    and stats["requests"] == stats["responses"]
                    and sth.is_alive()
                    and W._in_recv(sth)
                    and not [t for t in threading.enumerate() if t not in baseline and t is not g.thread]
                )
                if settled and full == quiet["snap"]:
                    if time.monotonic() - quiet["t0"] > QUIET_BOUND_S:
                        why = (
                            "no return for %.0f s although the link is settled (all %d request bytes consumed and answered, %d of %d response "
                            "bytes read by the client, server idle in recv, no other thread alive)" % (QUIET_BOUND_S, full[0], full[1], full[2])
                        )
                else:
                    quiet["snap"], quiet["t0"] = (full if settled else None), time.monotonic()
            if why is None:
                # a helper thread is alive (it polls its concurrency cap every 10 ms) but nothing moves: the application thread is
                # parked in recv, the server has answered everything and is idle, not a byte in either direction for QUIET_BOUND_S
                full = (cchan.sent, cchan.received, schan.sent, schan.received)
                parked = (
                    cchan.sent == schan.received
                    and schan.sent == cchan.received
                    and stats["requests"] == stats["responses"]
                    and sth.is_alive()
                    and W._in_recv(sth)
                    and W._in_recv(g.thread)
                )
                if parked and full == hquiet["snap"]:
                    if time.monotonic() - hquiet["t0"] > QUIET_BOUND_S:
                        why = (
                            "no return for %.0f s: application thread parked in recv, all %d request bytes consumed and answered, all %d response bytes "
                            "delivered, server idle in recv; a helper thread is alive but has sent nothing" % (QUIET_BOUND_S, full[0], full[2])
                        )
                else:
                    hquiet["snap"], hquiet["t0"] = (full if parked else None), time.monotonic()
            if why is None and cur["idx"] is not None and stats["requests"] - cur["req0"] > CALL_REQUEST_LIMIT:
                how = "count"
                why = "the call does not return and keeps sending requests: the server has processed %d requests for this one call" % (stats["requests"] - cur["req0"])
            if why is None and time.monotonic() - cur["t0"] > CLIENT_BOUND_S:
                why = "no return and no traffic on the link for %.0f s" % CLIENT_BOUND_S
            if why:
                info["blocked_at"] = cur["idx"]
                info["how"] = how
                info["op"] = cur["op"]
                info["on_risky_file"] = cur["risky"]
                info["where"] = W.where(g.thread)
                info["why"] = "%s; client thread in %s; server processed %d requests and sent %d responses" % (
                    why,
                    info["where"],
                    stats["requests"],
                    stats["responses"],
                )
                info["server_owes"] = stats["requests"] != stats["responses"]
                cchan.close()
                if not g.join(1.0):
                    W.abort_thread(g.thread, _Abort)  # it spins rather than waits: closing the channel does not reach it
                    g.join(10)
                break
        if g.exc is not None and info["blocked_at"] is None:
            raise g.exc  # harness bug inside program()
        left = W.settle(files, baseline)
    finally:
        env.close()
        for f in files:
            f._closed = True  # the session is over: nothing for __del__ to flush or close
        shutil.rmtree(root, ignore_errors=True)
    if left or env.threads_alive():
        ctx.inconc("harness:thread-left-behind")
    return info["blocked_at"] is not None, info


def run_client_case(ctx, case):
    sigs = []
    seen = set()
    blocked, info = run_client_once(ctx, case, seen.add)
    nontrivial = info["risky"] > 0 or info["ra_risky"] > 0 or info["ra_end_reads"] > 0 or bool(info["ra_session"])
    classes = ["B:program"] + sorted(seen) + sorted(set("B:op:" + op[0] for op in case["ops"]))
    if case.get("focus"):
        classes.append("B:focus:" + case["focus"])
    if info["risky"] > 0:
        classes.append("B:nonwrite-while-writes-outstanding")
    if info["ra_risky"] > 0:
        classes.append("B:file-op-while-readahead-outstanding")
        if info["ra_reads"] > 0:
            classes.append("B:file-ops-and-reads-interleaved-while-readahead-outstanding")
    if info["ra_session"]:
        classes.append("B:session-op-while-readahead-outstanding")
    if info["excluded"]:
        classes.append("B:steered-around-known-hang")
    ctx.case(case, nontrivial, classes)
    ctx.count("B:calls", info["executed"])
    if not blocked:
        return sigs
    # retry rule for verdicts taken by the clock: report only if it blocks three times out of three.  A deadlock proof and the
    # request count of one call do not depend on the clock (nor on the machine's load): one occurrence is a counterexample.
    runs = 1
    if info.get("how") == "clock":
        for _ in range(2):
            again, info2 = run_client_once(ctx, case, seen.add)
            if not again:
                ctx.inconc("client-block-not-reproduced")
                return sigs
            runs += 1
    if info.get("server_owes"):
        clause, bucket = "client-blocks-forever", "server-owes-a-response:" + info["op"][0]
    elif info["on_risky_file"] and info["op"][0] in ("write", "wclose"):
        clause, bucket = "client-blocks-forever", "pipelined-write-reply-consumed-by-other-request"
    elif info["ra_session"]:
        # session operations ran while read-ahead replies were outstanding (they, or a later call on the read file, never return)
        clause, bucket = "client-blocks-forever", "read-ahead-replies-outstanding-during:" + "+".join(sorted(set(info["ra_session"])))
    else:
        clause, bucket = "client-blocks-forever", "other:%s@%s" % (info["op"][0], info.get("where", "?"))
    sigs.append("%s|%s" % (clause, bucket))
    if not ctx.violation(clause, bucket, case, "call #%d %r never returned (%s): %s" % (info["blocked_at"], info["op"], "3 runs out of 3" if runs == 3 else "decided without the clock", info["why"])):
        _client_blocked[0] = True  # unlisted: the run fails; every further hit would cost three more bounds
    return sigs


# ----------------------------------------------------------------------------- probes / replays

PROBE_FSETSTAT = {"kind": "server", "nt": True, "pkts": [{"t": 10, "id": 7, "body": sstr("nohandle") + u32(0), "d": "fsetstat(invalid handle, no attrs)"}]}
PROBE_CHECKFILE = {
    "kind": "server",
    "nt": True,
    "forced": True,
    "pkts": [
        {"t": 3, "id": 1, "body": sstr("/f0") + u32(1) + u32(0), "d": "open(/f0, READ)"},
        {"t": 200, "id": 2, "body": sstr("check-file") + sstr("hx1") + sstr("md5") + u64(0) + u64(2000) + u32(0), "d": "check-file(hx1, md5, 0, 2000, 0) on a 1024-byte file"},
    ],
}
PROBE_ATTRCOUNT = {
    "kind": "server",
    "nt": True,
    "forced": True,
    "pkts": [{"t": 9, "id": 3, "body": sstr("/f0") + u32(0x80000000) + u32(0xFFFFFFFF), "d": "setstat(/f0, attrs{EXTENDED, count=0xFFFFFFFF}) - 16 body bytes"}],
}
PROBE_CLIENTHANG = {
    "kind": "client",
    "forced": True,
    "ops": [["wopen", 0, True, 0], ["write", 0, 1, 10], ["stat", 0], ["setpipe", 0, False], ["write", 0, 1, 10]],
}
PROBE_ITERHANG = {
    "kind": "client",
    "forced": True,
    "big_kb": 8192,
    "dentries": 40,
    # open /r1 (8 MiB = 256 read-ahead requests) + prefetch(); listdir_iter("/d"), abandoned after its first entry; read()
    "ops": [["ropen", True, None, 0, False, 1], ["listiter", 1, 1], ["rread", -1]],
}
PROBES = [
    ("iterhang", PROBE_ITERHANG, SIG_ITERHANG),
    ("checkfile", PROBE_CHECKFILE, SIG_CHECKFILE),
    ("attrcount", PROBE_ATTRCOUNT, SIG_ATTRCOUNT),
    ("clienthang", PROBE_CLIENTHANG, SIG_CLIENTHANG),
]


def _same(a, b):
    from vlib import core

    return core.case_hash(a) == core.case_hash(b)


def execute(ctx, case):
    forced = bool(case.get("forced"))
    if case["kind"] == "server":
        sigs = run_server_case(ctx, case, forced)
    else:
        saved = EXCLUDE["clienthang"], EXCLUDE["iterhang"]
        if forced:
            EXCLUDE["clienthang"] = EXCLUDE["iterhang"] = False
        try:
            sigs = run_client_case(ctx, case)
        finally:
            EXCLUDE["clienthang"], EXCLUDE["iterhang"] = saved
    for name, probe, sig in PROBES:
        if _same(case, probe):
            _present[name] = sig in sigs
    return sigs


# ----------------------------------------------------------------------------- generation

_names = ["f0", "f1", "empty", "d", "d/a00", "d/a07", "d/a19", "d/sub", "lnk", "dl", "new1", "new2", "d/new", "nope/x", "dl/a01", "lnk/x"]
_decor = ["/%s", "%s", "./%s", "/d/../%s", "//%s", "/%s/", "/%s/.", "/../%s", "/./%s//"]
paths = st.one_of(
    st.builds(lambda d, n: (d % n).encode(), st.sampled_from(_decor), st.sampled_from(_names)),
    st.sampled_from([b"", b"/", b".", b"..", b"/..", b"/../..", b"a" * 300, b"/" + b"b" * 5000, b"/f0\x00", b"/\xff\xfe", b"/d/\xc3", b"/f\xc3\xa9"]),
)
link_targets = st.sampled_from([b"f0", b"d", b"nope", b"lnk2", b"d/a00", b"/f1", b"/d/sub", b"lnk", b"new1"])
handles = st.one_of(
    st.builds(lambda n: b"hx%d" % n, st.integers(1, 8)),
    st.builds(lambda n: b"hx%d" % n, st.integers(1, 3)),
    st.sampled_from([b"", b"hx0", b"hx", b"nohandle", b"hx1\x00", b"HX1", b"hx01", b"\xff" * 8, b"h" * 300]),
)
# a handle the server has (probably) handed out by then: resolved when the stream is built, to one of the handles of the
# stream's leading opens (k < 12; those opens are valid and never made to fail) or to hx<1 + k mod opens-so-far>
live_handles = st.builds(lambda k: ("live", k), st.integers(0, 15))
_plain_handle_fields = handles.map(lambda h: ("s", h))


@st.composite
def _handle_fields(draw):
    return draw(live_handles) if draw(st.integers(0, 1)) else draw(_plain_handle_fields)


handle_fields = _handle_fields()
small_off = st.one_of(st.sampled_from([0, 1, 255, 256, 1023, 1024, 1025, 32768, 59999, 60000, 65536, 100000]), st.integers(0, 200000))
huge = st.sampled_from([1 << 63, (1 << 63) + 5, (1 << 64) - 1])
offsets = st.one_of(small_off, small_off, small_off, huge)
ids = st.one_of(st.integers(0, 40), st.integers(0, 40), st.integers(0, 0xFFFFFFEF), st.sampled_from([0, 0xFFFFFFEF, 0x80000000]))


# (all strategies are built once, here: building them inside the composites costs more than running the requests)
_a_flags = st.one_of(st.just(0), st.integers(0, 15), st.sampled_from([0x80000000, 0x8000000F, 0x80000001]))
_a_size = st.one_of(small_off, huge)
_a_id = st.integers(0, 70000)
_a_mode = st.one_of(st.integers(0, 0o7777), st.sampled_from([0o100644, 0o40755, 0, 0xFFFFFFFF]))
_a_time = st.integers(0, 0xFFFFFFFF)
_a_zero5 = st.integers(0, 5)
_a_bigcount = st.sampled_from([1001, 1 << 20, 1 << 31, 0xFFFFFFFF])
_a_count = st.integers(0, 3)
_a_xname = st.sampled_from([b"user.x", b"", b"a@b"])
_a_xval = st.binary(max_size=8)


@st.composite
def attrs_st(draw):
    flags = draw(_a_flags)
    out = [("u32", flags)]
    if flags & 1:
        out.append(("u64", draw(_a_size)))
    if flags & 2:
        out += [("u32", draw(_a_id)), ("u32", draw(_a_id))]
    if flags & 4:
        out.append(("u32", draw(_a_mode)))
    if flags & 8:
        out += [("u32", draw(_a_time)), ("u32", draw(_a_time))]
    if flags & 0x80000000:
        if draw(_a_zero5) == 0:
            out.append(("u32", draw(_a_bigcount)))
        else:
            n = draw(_a_count)
            out.append(("u32", n))
            for _ in range(n):
                out += [("s", draw(_a_xname)), ("s", draw(_a_xval))]
    return out


_attrs = attrs_st()


def _P(t, fields, d):
    return {"t": t, "fields": fields, "d": d}


_p_kind = st.sampled_from(
    "open open close close read read write write lstat fstat setstat fsetstat fsetstat opendir readdir readdir remove mkdir rmdir "
    "realpath stat rename readlink symlink checkfile checkfile posixrename extother unknown unknown".split()
)
_p_pflags = st.one_of(st.sampled_from([1, 2, 3, 0x1A, 0x0A, 0x2A, 0x06, 0]), st.integers(0, 0x3F))
_p_rlen = st.sampled_from([0, 1, 100, 32768, 65536, 1 << 20, 0x7FFFFFFF, 0xFFFFFFFF])
_p_wdata = st.one_of(st.binary(max_size=64), st.sampled_from([b"", b"z" * 2000, b"y" * 40000]))
_p_algs = st.sampled_from([b"md5", b"sha1", b"md5,sha1", b"sha256,md5", b"sha256", b"", b"crc32", b"\xff"])
_p_cfstart = st.one_of(st.sampled_from([0, 1, 1023, 1024, 1025, 59999, 60000, 60001]), offsets)
_p_cflen = st.one_of(st.sampled_from([0, 0, 1, 256, 1024, 1025, 60000, 65536, 65537, 1 << 40, (1 << 64) - 1]), st.integers(0, 70000))
_p_cfblock = st.sampled_from([0, 0, 1, 255, 256, 257, 1000, 1024, 65536, 65537, 1 << 31, 0xFFFFFFFF])
_p_extname = st.sampled_from([b"statvfs@openssh.com", b"", b"check-file\x00", b"\xff\xff", b"hardlink@openssh.com", b"CHECK-FILE", b"posix-rename@openssh.co"])
_p_raw = st.binary(max_size=24)
_p_cmd = st.one_of(st.integers(0, 255), st.sampled_from([0, 1, 2, 21, 22, 100, 101, 102, 103, 104, 105, 199, 201, 255]))
_p_mut = st.one_of(st.just(None), st.just(None).map(lambda v: v), st.just(None).map(lambda v: v), st.tuples(st.sampled_from(["trunc", "oversize", "trail"]), st.integers(0, 1 << 30)))


@st.composite
def packet_st(draw):
    kind = draw(_p_kind)
    S = lambda b: ("s", b)  # noqa: E731
    if kind == "open":
        p = _P(3, [S(draw(paths)), ("u32", draw(_p_pflags))] + draw(_attrs), "open")
    elif kind == "close":
        p = _P(4, [draw(handle_fields)], "close")
    elif kind == "read":
        p = _P(5, [draw(handle_fields), ("u64", draw(offsets)), ("u32", draw(_p_rlen))], "read")
    elif kind == "write":
        p = _P(6, [draw(handle_fields), ("u64", draw(offsets)), S(draw(_p_wdata))], "write")
    elif kind == "lstat":
        p = _P(7, [S(draw(paths))], "lstat")
    elif kind == "fstat":
        p = _P(8, [draw(handle_fields)], "fstat")
    elif kind == "setstat":
        p = _P(9, [S(draw(paths))] + draw(_attrs), "setstat")
    elif kind == "fsetstat":
        p = _P(10, [draw(handle_fields)] + draw(_attrs), "fsetstat")
    elif kind == "opendir":
        p = _P(11, [S(draw(paths))], "opendir")
    elif kind == "readdir":
        p = _P(12, [draw(handle_fields)], "readdir")
    elif kind == "remove":
        p = _P(13, [S(draw(paths))], "remove")
    elif kind == "mkdir":
        p = _P(14, [S(draw(paths))] + draw(_attrs), "mkdir")
    elif kind == "rmdir":
        p = _P(15, [S(draw(paths))], "rmdir")
    elif kind == "realpath":
        p = _P(16, [S(draw(paths))], "realpath")
    elif kind == "stat":
        p = _P(17, [S(draw(paths))], "stat")
    elif kind == "rename":
        p = _P(18, [S(draw(paths)), S(draw(paths))], "rename")
    elif kind == "readlink":
        p = _P(19, [S(draw(paths))], "readlink")
    elif kind == "symlink":
        p = _P(20, [S(draw(link_targets)), S(draw(paths))], "symlink")
    elif kind == "checkfile":
        p = _P(200, [S(b"check-file"), draw(handle_fields), S(draw(_p_algs)), ("u64", draw(_p_cfstart)), ("u64", draw(_p_cflen)), ("u32", draw(_p_cfblock))], "check-file")
    elif kind == "posixrename":
        p = _P(200, [S(b"posix-rename@openssh.com"), S(draw(paths)), S(draw(paths))], "posix-rename")
    elif kind == "extother":
        p = _P(200, [S(draw(_p_extname)), ("raw", draw(_p_raw))], "extended:other")
    else:
        t = draw(_p_cmd)
        if t in REQ_NAMES:
            t = 21
        p = _P(t, [("raw", draw(_p_raw))], "cmd%d" % t)
    p["id"] = draw(ids)
    p["mut"] = draw(_p_mut)
    return p


_packets = packet_st()


def encode_packet(p):
    """fields + mutation -> concrete body bytes (after the id)."""
    parts = []
    for k, v in p["fields"]:
        if k == "s":
            parts.append(["s", bytes(v)])
        elif k == "u32":
            parts.append(["b", u32(v)])
        elif k == "u64":
            parts.append(["b", u64(v)])
        else:
            parts.append(["b", bytes(v)])
    mut = p.get("mut")
    desc = p["d"]
    over = None
    if mut is not None and mut[0] == "oversize":
        idx = [i for i, x in enumerate(parts) if x[0] == "s"]
        if idx:
            over = idx[mut[1] % len(idx)]
    body = b""
    for i, (k, v) in enumerate(parts):
        if k == "s":
            n = len(v)
            if i == over:
                n = [n + 1, n + 100, 1 << 16, (1 << 20) - 1, 1 << 20, 1 << 24, 0x7FFFFFFF, 0xFFFFFFFF][(mut[1] // 7) % 8]
                desc += "/oversize-len(field %d)=%d" % (i, n)
            body += u32(n) + v
        else:
            body += v
    if mut is not None and mut[0] == "trunc" and len(body) > 0:
        cut = mut[1] % len(body)
        body = body[:cut]
        desc += "/truncated@%d" % cut
    if mut is not None and mut[0] == "trail":
        extra = bytes([(mut[1] >> s) & 0xFF for s in (0, 8, 16)]) * (1 + mut[1] % 5)
        body += extra
        desc += "/trailing+%d" % len(extra)
    return body, desc


_openers = [
    _P(3, [("s", b"/f0"), ("u32", 1), ("u32", 0)], "open(/f0,READ)"),
    _P(3, [("s", b"/f1"), ("u32", 3), ("u32", 0)], "open(/f1,READ|WRITE)"),
    _P(3, [("s", b"/new1"), ("u32", 0x1A), ("u32", 0)], "open(/new1,WRITE|CREATE|TRUNC)"),
    _P(11, [("s", b"/d")], "opendir(/d)"),
    _P(11, [("s", b"/")], "opendir(/)"),
]


# operations of the served handle / server interface that a fault plan can make fail (vlib.sftpenv on_call / on_read / on_write)
FAULT_OPS = (
    "handle.close handle.stat handle.chattr handle.read handle.write iface.open iface.list_folder iface.stat iface.lstat "
    "iface.chattr iface.remove iface.rename iface.posix_rename iface.mkdir iface.rmdir iface.readlink iface.symlink"
).split()
fault_st = st.builds(
    lambda op, n, count, act: {"op": op, "n": n, "count": count, "act": list(act)},
    st.sampled_from(FAULT_OPS),
    st.sampled_from([0, 0, 0, 1, 1, 2, 3, 5]),
    st.sampled_from([1, 1, 1, 2, 50]),
    st.one_of(
        st.tuples(st.just("raise"), st.sampled_from([28, 5, 13, 2, 122])),  # ENOSPC EIO EACCES ENOENT EDQUOT
        st.tuples(st.just("error"), st.sampled_from([2, 3, 4, 8, 1])),  # NO_SUCH_FILE PERMISSION_DENIED FAILURE OP_UNSUPPORTED EOF
    ),
)
_fault_act = st.one_of(
    st.tuples(st.just("raise"), st.sampled_from([28, 5, 13, 2, 122])),
    st.tuples(st.just("error"), st.sampled_from([2, 3, 4, 8, 1])),
)
# per packet: the backend call number `skip` made while that request is served fails
packet_fault = st.builds(lambda skip, act: {"skip": skip, "act": list(act)}, st.sampled_from([0, 0, 0, 0, 0, 1, 2]), _fault_act)
fault_plans = st.one_of(st.just([]), st.just([]), st.lists(fault_st, min_size=1, max_size=4))


_densities = st.sampled_from([0, 4, 2])
_one_in = {4: st.integers(1, 4), 2: st.integers(1, 2)}
_min_sizes = st.sampled_from([1, 6, 12])
_heads = st.lists(st.sampled_from(_openers), max_size=4)


@st.composite
def server_case_st(draw, max_body=57):
    head = draw(_heads)
    # (hypothesis lists are about min_size + 5 long on average: the minimum is generated too, for longer streams)
    body = draw(st.lists(_packets, min_size=min(draw(_min_sizes), max_body), max_size=max_body))
    faults = draw(fault_plans)
    # fault density of this stream: none / about one request in four / about one in two
    density = draw(_densities)
    pkts = []
    nt = False
    allocated = 0
    rid = 1000
    for idx, p in enumerate([dict(x) for x in head] + body):
        if "id" not in p:
            rid += 1
            p = dict(p, id=rid, mut=None)
        if any(k == "live" for k, v in p["fields"]):
            p = dict(p, fields=[("s", b"hx%d" % (1 + v % (len(head) if head and v < 12 else max(1, allocated)))) if k == "live" else (k, v) for k, v in p["fields"]])
        b, d = encode_packet(p)
        t = p["t"]
        if t not in REQ_NAMES or t == 200 or p.get("mut") is not None:
            nt = True
        if t in (4, 5, 6, 8, 10, 12):
            h = p["fields"][0][1]
            ok = h.startswith(b"hx") and h[2:].isdigit() and not h[2:].startswith(b"0") and 1 <= int(h[2:]) <= allocated
            if not ok:
                nt = True
        if t in (3, 11):
            allocated += 1
        pkts.append({"t": t, "id": p["id"], "body": b, "d": d})
        if density and idx >= len(head) and t in REQ_NAMES and draw(_one_in[density]) == 1:
            pkts[-1]["fault"] = draw(packet_fault)
            pkts[-1]["d"] += "/backend-call-%d-fails(%s %d)" % (pkts[-1]["fault"]["skip"], pkts[-1]["fault"]["act"][0], pkts[-1]["fault"]["act"][1])
    case = {"kind": "server", "pkts": pkts, "nt": nt}
    if faults:
        case["faults"] = faults
    return case


slots = st.integers(0, 1)
client_op = st.one_of(
    st.tuples(st.just("wopen"), slots, st.sampled_from([True, True, True, False]), st.sampled_from([0, 0, -1, 100])),
    st.tuples(st.just("write"), slots, st.integers(1, 12), st.sampled_from([1, 10, 1000, 32768, 40000])),
    st.tuples(st.just("write"), slots, st.one_of(st.integers(1, 120), st.sampled_from([99, 100, 101, 102, 150, 250])), st.sampled_from([1, 10, 100])),
    st.tuples(st.just("setpipe"), slots, st.booleans()),
    st.tuples(st.just("wclose"), slots),
    st.tuples(st.just("fstat"), slots),
    st.tuples(st.just("stat"), st.integers(0, 5)),
    st.tuples(st.just("lstat"), st.integers(0, 5)),
    st.tuples(st.just("listdir")),
    st.tuples(st.just("readfile"), st.sampled_from([0, 10, 40000, 100000, 200000])),
    st.tuples(st.just("prefetchall"), st.sampled_from([None, None, 1, 3])),
    st.tuples(st.just("ropen"), st.booleans(), st.sampled_from([None, None, 1, 2])),
    st.tuples(st.just("rread"), st.sampled_from([1, 100, 32768, 50000, 100000, -1, -1])),
    st.tuples(st.just("rclose")),
)


# operations on the read file /r0 (100000 bytes = 4 read-ahead requests), which may have prefetch / readv replies outstanding
_maxconc = st.sampled_from([None, None, 1, 2])
_rv_chunk = st.tuples(st.sampled_from([0, 1, 1000, 32768, 40000, 65536, 90000, 99999, 100000, 120000]), st.sampled_from([1, 100, 32768, 40000, 70000]))
_o_ropen = st.tuples(st.just("ropen"), st.booleans(), _maxconc, st.integers(0, 1), st.booleans())
_o_ropen_pf = st.tuples(st.just("ropen"), st.just(True), _maxconc, st.integers(0, 1), st.booleans())
_o_rprefetch = st.tuples(st.just("rprefetch"), _maxconc, st.booleans())
_o_rreadv = st.tuples(st.just("rreadv"), st.lists(_rv_chunk, min_size=1, max_size=5), st.integers(0, 5), _maxconc, st.booleans())
_o_rread = st.one_of(st.tuples(st.just("rread"), st.sampled_from([1, 100, 32768, 50000, 100000, -1])), st.tuples(st.just("rread"), st.sampled_from([1, 1, 10, 100, 1000])))
_o_rtruncate = st.tuples(st.just("rtruncate"), st.sampled_from([0, 1000, 50000, 100000, 150000]))
_o_rchmod = st.tuples(st.just("rchmod"), st.sampled_from([0o600, 0o644, 0o640]))
_o_rutime = st.tuples(st.just("rutime"), st.sampled_from([None, (1, 2), (1700000000, 1700000001)]))
_o_rfstat = st.tuples(st.just("rfstat"))
_o_rseek = st.tuples(st.just("rseek"), st.sampled_from([0, 1, 1000, 32768, 50000, 99999, 100000, 120000, -10, -1000]), st.sampled_from([0, 0, 1, 2]))
_o_ryield = st.tuples(st.just("ryield"), _maxconc)
_o_rclose = st.tuples(st.just("rclose"))
_fsize_arg = st.sampled_from([None, None, None, 100000, 0, 1, 1000, 50000, 99999, 100001, 150000])
_o_rprefetch_at = st.tuples(st.just("rprefetch"), _maxconc, st.booleans(), _fsize_arg)
r_op = st.one_of(_o_ropen, _o_rprefetch, _o_rprefetch_at, _o_rreadv, _o_rread, _o_rtruncate, _o_rchmod, _o_rutime, _o_rfstat, _o_rseek, _o_ryield, _o_rclose)
_take = st.sampled_from([None, None, 1, 3, 17])
_o_listdir = st.tuples(st.just("listdir"), st.integers(0, 1))
_o_listdirattr = st.tuples(st.just("listdirattr"), st.integers(0, 1))
_o_listiter = st.tuples(st.just("listiter"), st.integers(0, 1), _take)
_session_op = st.one_of(st.tuples(st.just("stat"), st.integers(0, 5)), st.tuples(st.just("listdir")), _o_listdir, _o_listdirattr, _o_listiter)
# A read-ahead episode: something starts read-ahead on the file (open + prefetch, prefetch, a readv whose results are only
# partly taken), then 1-4 operations on that file follow.  Any request that waits for its own reply consumes the
# read-ahead replies queued before it, so it is the operation right after the start (or after a `ryield` with capped
# concurrency, when the helper thread sends the next requests) that meets outstanding replies.
_ra_start = st.one_of(_o_ropen_pf, _o_rprefetch, _o_rreadv)
# (one_of() flattens nested one_of()s: the session operations are wrapped so that together they weigh as ONE alternative here)
_ra_follow = st.one_of(_o_rtruncate, _o_rchmod, _o_rutime, _o_rfstat, _o_rseek, _o_rread, _o_ryield, _session_op.map(lambda v: v))
_ra_episode = st.tuples(_ra_start, st.lists(_ra_follow, min_size=1, max_size=4), st.sampled_from([[], [], [("rclose",)]])).map(lambda e: [e[0]] + e[1] + e[2])
# Positioned read-ahead: bring the file object to a generated position (the read file has 100000 bytes), start read-ahead there with
# a generated file_size argument, then read / seek.  Positions: start, inside, last byte, exactly EOF, past EOF, relative to EOF, "read
# the file to its end" (read(-1), or reads that add up), or a truncate below the current position (r+b files).
_pos_seek = st.one_of(
    st.tuples(st.just("rseek"), st.sampled_from([0, 1, 32768, 50000, 99999, 100000, 100000, 100001, 120000]), st.just(0)),
    st.tuples(st.just("rseek"), st.sampled_from([0, 0, -1, -1000, 10]), st.just(2)),
)
_pos_op = st.one_of(
    _pos_seek.map(lambda o: [o]),
    st.just([("rread", -1)]),
    st.just([("rread", 100000)]),
    st.just([("rread", 50000), ("rread", 50000)]),
    st.tuples(_pos_seek, _o_rtruncate).map(list),
)
_pos_follow = st.one_of(_o_rread, _o_rread.map(lambda v: v), _o_rseek, _pos_seek, _o_rfstat, _o_rprefetch_at, _o_rreadv)
_ra_pos_episode = st.tuples(
    st.tuples(st.just("ropen"), st.booleans(), _maxconc, st.integers(0, 1), st.booleans()),
    _pos_op,
    st.one_of(_o_rprefetch_at, _o_rprefetch_at.map(lambda v: v), _o_rreadv),
    st.lists(_pos_follow, min_size=1, max_size=4),
    st.sampled_from([[], [], [("rclose",)]]),
).map(lambda e: [e[0]] + list(e[1]) + [e[2]] + e[3] + e[4])
_ra_part = st.one_of(_ra_episode, _ra_pos_episode, _ra_pos_episode.map(lambda v: v), st.lists(st.one_of(r_op, _session_op), min_size=1, max_size=3))
_ra_program = st.lists(_ra_part, min_size=1, max_size=4).map(lambda parts: [o for part in parts for o in part])
_foci = st.sampled_from(["writes", "writes", "readahead", "readahead", "mixed"])
# focus "busy": session operations while the helper thread of a big read-ahead is still sending requests
_busy_cap = st.sampled_from([None, None, None, None, 64, 16])
_busy_start = st.one_of(
    st.tuples(st.just("ropen"), st.just(True), _busy_cap, st.integers(0, 1), st.just(False), st.just(1)).map(lambda o: [o]),
    st.tuples(st.just("ropen"), st.just(True), _busy_cap, st.integers(0, 1), st.just(False), st.just(1)).map(lambda o: [o]).map(lambda v: v),
    st.tuples(
        st.tuples(st.just("ropen"), st.just(False), st.none(), st.integers(0, 1), st.just(False), st.just(1)),
        st.tuples(st.just("rprefetch"), _busy_cap, st.just(False)),
    ).map(list),
    st.tuples(
        st.tuples(st.just("ropen"), st.just(False), st.none(), st.integers(0, 1), st.just(False), st.just(1)),
        st.tuples(st.just("rreadv"), st.lists(st.tuples(st.integers(0, 1 << 20), st.sampled_from([32768, 200000, 600000])), min_size=2, max_size=6), st.integers(0, 1), _busy_cap, st.just(False)),
    ).map(list),
)
_busy_session = st.one_of(
    _o_listdir,
    _o_listdirattr,
    _o_listiter,
    _o_listiter.map(lambda v: v),
    st.tuples(st.just("stat"), st.integers(0, 5)),
    st.tuples(st.just("lstat"), st.integers(0, 5)),
    st.tuples(st.just("readfile"), st.sampled_from([10, 40000, 100000])),
    st.tuples(st.just("wopen"), st.just(1), st.just(True), st.just(0)),
    st.tuples(st.just("write"), st.just(1), st.sampled_from([1, 5, 40, 120]), st.sampled_from([10, 1000])),
)
_busy_end = st.one_of(
    st.just([("rread", -1)]),
    st.just([("rread", -1), ("rclose",)]),
    st.lists(st.tuples(st.just("rread"), st.sampled_from([1, 32768, 100000, 1 << 20])), min_size=1, max_size=3),
    st.just([("rclose",)]),
)
_busy_program = st.tuples(_busy_start, st.lists(_busy_session, min_size=1, max_size=4), _busy_end).map(lambda e: e[0] + e[1] + e[2])
_big_kb = st.sampled_from([1024, 2048, 2048, 4096])
_dentries = st.sampled_from([0, 5, 20, 40])
_ops_by_focus = {
    "busy": _busy_program,
    "writes": st.lists(client_op, min_size=1, max_size=14),
    "readahead": _ra_program,
    "mixed": st.lists(st.one_of(client_op.map(lambda o: [o]), _ra_episode, _ra_pos_episode), min_size=1, max_size=8).map(lambda parts: [o for part in parts for o in part]),
}
_whead = st.sampled_from([0, 0, -1])
_zero3 = st.integers(0, 3)


@st.composite
def client_case_st(draw, foci=None):
    """focus = which part of the client a program leans on: pipelined writes (with other requests in between), read-ahead
    (prefetch / readv on a file, then truncate / chmod / utime / stat / seek / reads on that file while replies are
    outstanding), or both."""
    focus = draw(foci if foci is not None else _foci)
    head = []
    if focus != "readahead" and draw(_zero3):
        head.append(["wopen", 0, True, draw(_whead)])
    if focus != "writes" and draw(_zero3) == 0:
        head.append(["ropen", False, None, draw(_zero3) % 2, False])
    ops = head + [list(o) for o in draw(_ops_by_focus[focus])]
    case = {"kind": "client", "ops": ops, "focus": focus}
    if focus == "busy":
        case["big_kb"] = draw(_big_kb)
    if focus != "writes":
        case["dentries"] = draw(_dentries)
    return case


# ----------------------------------------------------------------------------- entry points



def _explore(ctx, strategy, body, n, **kw):
    """ctx.explore, but a violation found while hypothesis runs out of budget mid-shrink (the body is
    then skipped, hypothesis calls the test flaky) is still reported, with the last failing case."""
    try:
        ctx.explore(strategy, body, n, **kw)
    except Exception as e:
        last = getattr(ctx, "_last_fail", None)
        if type(e).__name__ in ("FlakyFailure", "Flaky", "FlakyReplay") and last:
            ctx._record_unknown(*last)
        else:
            raise


def run(ctx):
    ctx.set_budget(100, 1500)
    ctx.assume("requests without a complete request id (fewer than 4 body bytes, or a garbage length word) carry no obligation and are not generated")
    ctx.assume("client programs are single-threaded (SFTPClient documents no concurrent use of one session by several application threads); prefetch threads are the library's own")
    ctx.assume("length prefixes are only ever enlarged (the field swallows the rest of the packet) or the packet is cut: shortened prefixes could turn path bytes into arbitrary attribute blocks (multi-terabyte sparse files) and are not generated")
    # which known defects are present in this tree? (the committed replays already ran in the quick tier)
    for name, probe, sig in PROBES:
        if EXCLUDE[name] is None and name not in _present:
            execute(ctx, probe)
    ctx.note("steering", {k: _excluded(k) for k in EXCLUDE})
    _explore(ctx, server_case_st(max_body=ctx.scale(25, 57)), lambda c: execute(ctx, c), ctx.scale(450, 5000))
    body = lambda c: None if _client_blocked[0] else execute(ctx, c)  # noqa: E731
    _explore(ctx, client_case_st(st.just("writes")), body, ctx.scale(110, 1000), shrink=False, seed_offset=1)
    _explore(ctx, client_case_st(st.sampled_from(["readahead", "readahead", "mixed"])), body, ctx.scale(110, 900), shrink=False, seed_offset=2)
    _explore(ctx, client_case_st(st.just("busy")), body, ctx.scale(40, 500), shrink=False, seed_offset=3)


def replay(ctx, case):
    execute(ctx, case)
